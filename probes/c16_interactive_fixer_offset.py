"""Interactive fixer (-f / --run-fixer): a plain error (no replacement) before a
fix in the same file shifts the fix one line up."""
import os, sys, tempfile
sys.path.insert(0, os.getcwd())
import codemod
from pyanalyze.name_check_visitor import NameCheckVisitor

src = "def f():\n    return undefined_name_x\n# static analysis: ignore\nx = 1\n"
d = tempfile.mkdtemp()
path = os.path.join(d, "m.py")
open(path, "w").write(src)
captured = []
codemod.run_interactive = lambda query, **kw: captured.extend(query.generate_patches())
try:
    NameCheckVisitor.main_with_args = None
except Exception:
    pass
sys.argv = ["pyanalyze", "-f", "-e", "unused_ignore", path]
try:
    NameCheckVisitor.main()
except SystemExit:
    pass
lines = src.splitlines(True)
for p in captured:
    print("patch", p.start_line_number, p.end_line_number, p.new_lines)
    if p.new_lines is not None:
        lines[p.start_line_number:p.end_line_number] = p.new_lines
print("".join(lines))
ok = lines == ["def f():\n", "    return undefined_name_x\n", "x = 1\n"]
print("OK" if ok else "WRONG LINE EDITED")
sys.exit(0 if ok else 1)
