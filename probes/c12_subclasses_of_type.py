def f():
    return type.__subclasses__(type)   # fine at run time: the subclasses of type (the metaclasses)
