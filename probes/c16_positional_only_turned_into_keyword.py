def f(a, b, /, c, d, e, g, h, i, j, k, l):
    return (a, b, c, d, e, g, h, i, j, k, l)

def run():
    return f(1, 2, 3, 4, 5, 6, 7, 8, 9, 10, 11)
