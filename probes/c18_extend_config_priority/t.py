from pathlib import Path
from pyanalyze.options import Options
from pyanalyze.error_code import ErrorCode
for f in ("main.toml", "main2.toml"):
    o = Options.from_option_list([], Path(f))
    print(f, o.is_error_code_enabled(ErrorCode.possibly_undefined_name), [(i.value, i.priority) for i in o.options["possibly_undefined_name"]])
