from pyanalyze.extensions import reveal_locals
def h(c: bool):
    if c:
        aaa = 1
        bbb = 2
        ccc = 3
    else:
        ddd = 1
        eee = 2
    reveal_locals()
    print(aaa, bbb, ccc, ddd, eee)
def k():
    unused_one = 1
    unused_two = 2
    unused_three = 3
    unused_four = 4
