"""--add-ignores to a fixpoint: (1) a line with two diagnostics of different codes,
(2) a diagnostic on the first line of a file with another one of the same code below."""
import os, subprocess, sys, tempfile

def fix(src, extra=()):
    d = tempfile.mkdtemp()
    p = os.path.join(d, "m.py")
    open(p, "w").write(src)
    for i in range(8):
        r = subprocess.run([sys.executable, "-m", "pyanalyze", "--add-ignores", "--autofix", *extra, p], capture_output=True, text=True)
        out = r.stdout + r.stderr
        if "(code:" not in out:
            return i, open(p).read()
    return None, open(p).read()

ok = True
n, text = fix("def f(x):\n    return undefined_a + 'a %s' % ()\n")
print("two codes on one line: iterations", n); print(text)
ok = ok and n is not None
src2 = "def f(): return undefined_c\n\n\ndef g():\n    return undefined_d\n"
n, text = fix(src2)
print("same code on line 1 and below: iterations", n); print(text)
ok = ok and text.count("static analysis: ignore") == 2
sys.exit(0 if ok else 1)
