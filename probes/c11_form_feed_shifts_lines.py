import os

def f():
    print(undefined_a)  # static analysis: ignore[undefined_name]
    print(undefined_b)
