from typing_extensions import reveal_type, Unpack
from typing import Tuple
def f(t: Tuple[int, Unpack[Tuple[str, ...]], float, bytes, bool]):
    reveal_type(t)
    reveal_type(t[-1])
    reveal_type(t[-2])
    reveal_type(t[-3])
    reveal_type(t[-4])
    reveal_type(t[0])
