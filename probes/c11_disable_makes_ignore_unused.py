def f():
    return undefined_thing  # static analysis: ignore[undefined_name]
