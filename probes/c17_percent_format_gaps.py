def f():
    a = "%x" % 1.5                 # TypeError: %x format: an integer is required, not float
    b = "%(a)s" % {1: "x"}         # KeyError: 'a'
    c = b"%(a)s" % {"a": b"x"}     # KeyError: b'a' (a bytes template looks its keys up as bytes)
    d = "%%" % {"a": 1}            # fine at run time: a mapping on the right is never "unused"
    e = b"%(a)s" % {b"a": b"x"}    # fine at run time
    return a, b, c, d, e
