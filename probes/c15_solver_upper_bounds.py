from typing import TypeVar
from pyanalyze.checker import Checker
from pyanalyze.typevar import solve
from pyanalyze.value import UpperBound, LowerBound, IsOneOf, TypedValue, KnownValue
T = TypeVar("T")
c = Checker()
print("T<=int, T<=str                 ->", solve([UpperBound(T, TypedValue(int)), UpperBound(T, TypedValue(str))], c))
print("True<=T, T<=int, T<=str        ->", solve([LowerBound(T, KnownValue(True)), UpperBound(T, TypedValue(int)), UpperBound(T, TypedValue(str))], c))
print("T<=bool, T in (int, str)       ->", solve([UpperBound(T, TypedValue(bool)), IsOneOf(T, [TypedValue(int), TypedValue(str)])], c))
