def f():
    return "{\u00b2}".format(1)
def g():
    return "{\u0663}".format(1, 2, 3, 4)
