from typing_extensions import reveal_type
def cond() -> bool: ...

def f():
    y = 0
    while cond():
        try:
            break
        finally:
            y = 3
    reveal_type(y)   # 0 or 3

def g():
    y = 0
    for _ in range(3):
        try:
            continue
        finally:
            y = 3
    reveal_type(y)   # 0 or 3
