def f(x):
    y = x  # static analysis: ignore[implicit_any]
    return 1
