from typing_extensions import reveal_type
from qcore.asserts import assert_is_instance

def f(x: float, y: float, z: float):
    if x is True:
        reveal_type(x)
    if y is 1:
        reveal_type(y)
    assert_is_instance(z, int)
    reveal_type(z)

def g(x: complex):
    if x is 1.5:
        reveal_type(x)
