from pyanalyze.extensions import evaluated, reveal_type, is_provided

@evaluated
def with_defaults(x: int = ..., y: int = 1) -> None:
    reveal_type(x)
    reveal_type(y)

def use():
    with_defaults()
    with_defaults(1)
