def f(x):
    return "{[]}".format(x), "{a[]}".format(a=x)
