def f():
    x = "# static analysis: ignore"; print(undefined_a)
    y = """
    # static analysis: ignore[undefined_name]
    """
    print(undefined_b)  # static analysis: ignore[undefined_name]
    # static analysis: ignore[undefined_name]
    print(undefined_c)
    return x, y
