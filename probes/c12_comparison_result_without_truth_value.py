class Cmp:
    def __bool__(self):
        raise ValueError("ambiguous")

class Vec:
    def __init__(self, n): self.n = n
    def __eq__(self, other): return Cmp()
    def __ne__(self, other): return Cmp()
    def __hash__(self): return 1

A = Vec(1)
B = Vec(2)

def f(x: int):
    if A == 1:
        print("a")
    if A != B:
        print("b")
    if 1 in (A, B):
        print("c")
