from pyanalyze.extensions import reveal_locals
def f2(c):
    if c:
        x = 1
    elif c is None:
        x = "a"
    elif c == 2:
        x = b""
    else:
        x = 2.0
    def g():
        reveal_type(x)
    return g

class A:
    aa: int
    bb: int
    cc: int
    dd: int
def f3(x: A, c):
    print(x.aa, x.bb, x.cc, x.dd)
    x = A()
    reveal_locals()
