def f(x, y):
    return f"{x} {{y}}"
