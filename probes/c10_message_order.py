from typing import Protocol
def f(alpha=1, beta=2): pass
class P(Protocol):
    def meth_one(self) -> int: ...
    def meth_two(self) -> int: ...
    def meth_three(self) -> int: ...
class X: pass
def g(p: P) -> None: pass
def run():
    f(gamma=1, delta=2, epsilon=3)
    print("%(aa)s %(bb)s %(cc)s %(dd)s" % {})
    g(X())
def h(c: bool):
    if c:
        aaa = 1
        bbb = 2
        ccc = 3
    else:
        ddd = 1
        eee = 2
    reveal_locals()
    print(aaa, bbb, ccc, ddd, eee)
