from typing import Protocol

class P(Protocol):
    def __call__(self, p0: int, /, p1: int) -> None: ...

def g(p1: int, *args: int, **kwargs: int) -> None: ...

def use(f: P) -> None:
    f(1, p1=2)   # g(1, p1=2) raises TypeError: multiple values for 'p1'

def main() -> None:
    use(g)
