class Bad:
    def __repr__(self):
        raise RuntimeError("no repr")
B1 = Bad()
B2 = Bad()
def f(c: bool):
    x = B1 if c else B2
    reveal_type(x)
    return B1 + 1
