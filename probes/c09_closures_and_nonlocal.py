"""Four limitations of name binding across function boundaries (C09 R09.g known findings).
Run: cd /repo && /venv/bin/python -m pyanalyze /verif/probes/c09_closures_and_nonlocal.py"""
from typing_extensions import reveal_type

g = "module"


def local_read_before_assignment():
    reveal_type(g)  # CPython: UnboundLocalError (g is local here); pyanalyze: the module's 'module', no diagnostic
    g = 1
    return g


def closure_unbound():
    def inner():
        reveal_type(x)  # NameError on this call: x is not bound yet; pyanalyze: Literal[1], no diagnostic
    inner()
    x = 1
    return x


def closure_reads_definition_point():
    def inner():
        reveal_type(x)  # at the call x is 1; pyanalyze: Literal[2] (the definitions live where it looked last), 1 missing
    x = 1
    inner()
    x = 2
    return x


def nonlocal_write_applied_at_def():
    x = 1
    def inner():
        nonlocal x
        x = 2
    reveal_type(x)  # inner has not run: 1; pyanalyze: Literal[2]
    return inner
