def f(a: int, b: int):
    return [a, b][::0]      # ValueError at run time; the checker must report, not crash


def g(a: int, b: int):
    return (a, b)["x":]     # TypeError at run time
