from typing import SupportsAbs


def a(x: SupportsAbs[int]) -> None: ...
def b(x: SupportsAbs[str]) -> None: ...


def f(i: int) -> None:
    a(i)    # fine: abs(int) is an int
    b(i)    # must be rejected: abs(int) is no str - but the verdict of the call above is remembered for `int`, whatever the protocol's argument
