def f(__a: int, b: str = "x") -> None:
    pass


def inside() -> None:
    f(__a=1)        # judged with the signature built from the def statement


