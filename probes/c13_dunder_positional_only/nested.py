def g2(__a: int) -> None:
    pass


def outer() -> None:
    def g(__a: int) -> None:
        pass

    g(__a=1)      # nested function: signature from the def statement -> accepted
    g2(__a=1)     # module-level function: signature from the function object -> rejected (PEP 484 convention)
