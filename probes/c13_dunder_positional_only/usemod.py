from defmod import f


def outside() -> None:
    f(__a=1)        # judged with the signature built from the function object
