def c() -> bool: ...
def a():
    i = 0
    while c():
        i = i + 1
    reveal_type(i)
def b():
    s = ""
    for ch in "abc" * 3:
        s += ch
    reveal_type(s)
def d():
    n = 10
    while n:
        n -= 1
    reveal_type(n)
def e(xs: list):
    total = 0
    for x in xs:
        total += 1
        if total > 5:   # must not be "always false"
            reveal_type(total)
    return total
