from typing import Type, TypeVar
from typing_extensions import reveal_type

B = TypeVar("B", bound=int)
C = TypeVar("C", int, str)


def make(cls: Type[B]) -> B: ...
def pick(cls: Type[C]) -> C: ...


reveal_type(make(bool))   # bool
make(str)                 # str is outside the bound: must be rejected
pick(bytes)               # bytes is none of the constraints: must be rejected
