from typing_extensions import reveal_type
def f(x: float, y: complex, z: "float | str"):
    if isinstance(x, float):
        reveal_type(x)
    else:
        reveal_type(x)
    if isinstance(x, int):
        reveal_type(x)
    else:
        reveal_type(x)
    if isinstance(y, complex):
        reveal_type(y)
    else:
        reveal_type(y)
    if isinstance(y, float):
        reveal_type(y)
    if isinstance(z, int):
        reveal_type(z)
    if not isinstance(z, float):
        reveal_type(z)
