from typing import Tuple


def f(x: Tuple[int, ...]) -> None:
    a: Tuple[int, int] = x   # accepted: the documented leniency (the length is unknown)
    b: Tuple[str, int] = x   # accepted as well: the element type is compared with the union of the members
    c: Tuple[()] = x         # accepted as well
# pyanalyze/test_value.py::test_sequence_value asserts this behaviour
# (tuple[int, str] accepts tuple[int | str, ...]), so it is by design: R04.k counts these
# pairs as the leniency the property excludes and does not report them.
