from typing import Union
from pyanalyze.extensions import evaluated, is_of_type, reveal_type

@evaluated
def f(x: Union[int, str, None]):
    if is_of_type(x, int) or is_of_type(x, Union[str, None]):
        if is_of_type(x, int):
            return int
        return str
    return bytes

def use(a: Union[int, str]):
    reveal_type(f(a))  # int | str
    reveal_type(f(1))
