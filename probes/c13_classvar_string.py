from typing import ClassVar, Final
class A:
    x: "ClassVar[int]" = 1
    y: ClassVar[int] = 1
    z: "Final[str]" = "a"
def f(a: A) -> None:
    reveal_type(a.x)
    reveal_type(a.y)
    reveal_type(a.z)
