import nonexistent_module_xyz
x = 1
# static analysis: ignore
