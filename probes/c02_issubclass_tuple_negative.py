from typing_extensions import reveal_type


def f(x: type):
    if issubclass(x, (int, str)):
        reveal_type(x)
    else:
        reveal_type(x)  # float reaches here: must stay `type`, not Never
