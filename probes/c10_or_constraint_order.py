from qcore.asserts import assert_is_instance
def f(x: object, y: object):
    if x is None or isinstance(x, int) or isinstance(x, str) or isinstance(x, bytes):
        reveal_type(x)
