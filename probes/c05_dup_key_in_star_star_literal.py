def f(a: int) -> None: ...

def g() -> None:
    f(**{"a": 1, "a": "x"})   # CPython: a == "x"  -> must be reported
    f(**{"a": "x", "a": 1})   # CPython: a == 1    -> must be accepted
