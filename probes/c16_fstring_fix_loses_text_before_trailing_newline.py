def f(x):
    return "hello %s!\n" % x
