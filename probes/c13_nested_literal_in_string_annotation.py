from typing import Literal
def lit(x: "Literal[Literal[1], 2]"): reveal_type(x)
def lit2(x: Literal[Literal[1, 3], 2]): reveal_type(x)
def lit3(x: "Literal[Literal[Literal[1]], int]"): reveal_type(x)
