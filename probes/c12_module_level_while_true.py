import random
while True:
    if random.random() > 0.5:
        break
class A:
    for i in range(3):
        if i:
            continue
