from typing import List

def f(a, /, b): ...
def h(a, b, c, d=0): ...

def g(xs: List[int]) -> None:
    f(1, *xs, 1, 1)   # >= 4 positionals for 2 parameters whatever xs is: CPython always raises
    f(*xs, 1, 1, 1)   # same
    h(1, *xs, 1, 1)   # binds with len(xs) in {0, 1}: must be accepted
    f(1, *xs)         # binds with len(xs) == 1: must be accepted
