from typing import Tuple, List, Dict
import typing
def a(x: Tuple): reveal_type(x)
def b(x: "Tuple"): reveal_type(x)
def c(x: typing.Tuple[()]): reveal_type(x)
def d(x: tuple): reveal_type(x)
def e(x: List): reveal_type(x)
def f(x: Dict): reveal_type(x)
def g(x: tuple[()]): reveal_type(x)
