def f2(c):
    if c:
        x = 1
    elif c is None:
        x = "a"
    elif c == 2:
        x = b"b"
    else:
        x = 2.0
    def g():
        if x:
            reveal_type(x)
    return g
