from pyanalyze.runtime import is_assignable
print(is_assignable(frozenset({"a"}), frozenset[int]), is_assignable({"a"}, set[int]), is_assignable(frozenset({1}), frozenset[int]))
