from typing_extensions import Unpack
from typing import Literal, Tuple

def kw(x: int, /, y: str = "", *rest: Unpack[Tuple[int, str]]) -> None: pass

def k2(y: str = "", *rest: Unpack[Tuple[int, str]]) -> None: pass

def use():
    kw(1, "a", 2, "b")
    k2("a", 2, "b")

def lit(x: "Literal[Literal[1], 2]"): reveal_type(x)

def use2():
    kw(1, "a", 2)  # E: rest must be (int, str)
    kw(1, "a", "x", "b")  # E
    kw(1, y="a")  # E: rest is () 
