from typing import Tuple
def f(x: tuple[int, *tuple[str, ...]]): reveal_type(x)
def g(x: "tuple[int, *tuple[str, ...]]"): reveal_type(x)
def h(x: tuple[*tuple[str, ...], int]): reveal_type(x)
def i(*args: *tuple[int, str]): reveal_type(args)
def j(x: list[*tuple[int, ...]]): reveal_type(x)
#f((1,))
#f((1, "a", "b"))
#f(("a",))
def k():
    f((1,))
    f((1, "a", "b"))
    f(("a",))
