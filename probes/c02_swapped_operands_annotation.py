def f(x: int):
    if x > 5:
        reveal_type(x)
    if 5 < x:
        reveal_type(x)
