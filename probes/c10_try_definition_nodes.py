from pyanalyze.extensions import reveal_locals
def f(c):
    x = 1
    try:
        x = "a"
        x = 2.0
        x = b""
    except Exception:
        pass
    reveal_type(x)

def f2(c):
    x = 1
    x = "a"
    x = 2.0
    def g():
        reveal_type(x)
    return g

class A:
    aa: int
    bb: int
    cc: int
    dd: int
def f3(x: A, c):
    if c:
        x.aa = 1
        x.bb = 2
        x.cc = 3
        x.dd = 4
    x = A()
    reveal_locals()
