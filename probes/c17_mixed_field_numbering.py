def f():
    a = "{0} {}".format(1)
    b = "{} {0}".format(1)
    c = "{} {1}".format(1, 2)
    return a, b, c
