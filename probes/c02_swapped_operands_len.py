from typing import Union
def f(x: Union[tuple[int], tuple[int, int, int]]):
    if len(x) > 2:
        reveal_type(x)
    if 2 < len(x):
        reveal_type(x)
