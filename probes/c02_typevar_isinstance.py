from typing import TypeVar
from qcore.asserts import assert_is_instance, assert_is
T = TypeVar("T")
def f(x: T) -> T:
    assert_is_instance(x, int)
    reveal_type(x)
    return x
def g(x: T) -> T:
    assert_is(x, None)
    reveal_type(x)
    return x
