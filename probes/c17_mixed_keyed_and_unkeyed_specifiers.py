def f():
    return '%r %(a)d' % {'a': 1}
