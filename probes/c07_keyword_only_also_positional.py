from typing import Protocol

class P(Protocol):
    def __call__(self, p0: int, /, *, p1: int) -> None: ...

class Q(Protocol):
    def __call__(self, *args: int, p1: int) -> None: ...

def g(p1: int) -> None: ...
def h(p1: int, *args: int) -> None: ...

def use(f: P) -> None:
    f(1, p1=2)   # g(1, p1=2) raises TypeError: multiple values for 'p1'
def use_q(f: Q) -> None:
    f(1, p1=2)

def main() -> None:
    use(g)      # accepted on the pinned tree; fails at run time
    use_q(h)    # likewise
