"""Two specialisations of one generic alias share the TypeAlias object when they come from
substituting the same annotation (`def same[T](x: T) -> ListOf[T]`): ListOf[int] must not accept
ListOf[str].  Run: cd /repo && /venv/bin/python /verif/probes/c04_type_alias_same_alias_different_arguments.py"""
from typing import TypeVar

from pyanalyze.test_value import CTX
from pyanalyze.value import CanAssignError, GenericValue, TypeAlias, TypeAliasValue, TypedValue, TypeVarValue

T = TypeVar("T")
alias = TypeAlias(lambda: GenericValue(list, [TypeVarValue(T)]), lambda: (T,))
generic = TypeAliasValue("ListOf", "m", alias, (TypeVarValue(T),))
of_int = generic.substitute_typevars({T: TypedValue(int)})
of_str = generic.substitute_typevars({T: TypedValue(str)})
assert of_int.alias is of_str.alias
for name, r in (("ListOf[int] <- ListOf[str]", of_int.can_assign(of_str, CTX)), ("ListOf[int] <- ListOf[int]", of_int.can_assign(of_int, CTX)), ("list[int] <- ListOf[str]", GenericValue(list, [TypedValue(int)]).can_assign(of_str, CTX))):
    print(name, "->", "rejected" if isinstance(r, CanAssignError) else "accepted")
