from typing_extensions import reveal_type
def cond() -> bool: ...

def f():
    while cond():
        reveal_type(x)
        x = 1
    else:
        x = 2

def g():
    while cond():
        reveal_type(y)
        y = 1

def h():
    z = 0
    while cond():
        reveal_type(z)
        z = 1
    else:
        z = 2
