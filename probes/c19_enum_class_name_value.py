import enum


class Color(enum.Enum):
    RED = 1


def f():
    a = Color.RED.name      # fine
    b = Color.name          # AttributeError at run time: name / value exist on members only
    c = Color.value         # AttributeError at run time
    return a, b, c
