def f():
    a = '%.f' % 1.5
    b = '%.s' % 'abc'
    c = '%()s' % {'': 1}
    d = '%(a)s %%' % {'a': 1}
    e = '%٣d' % 1
    g = b'%s' % bytearray(b'a')
    h = b'%b' % bytearray(b'a')
    i = '%c' % 300
    j = '%5.d' % 3
    return a, b, c, d, e, g, h, i, j
