import typing
def f(x: "int if True else str", y: "list[lambda: 1]", z: "typing.List[x for x in y]") -> None:
    reveal_type(x)
    reveal_type(y)
def g(a: "(yield)", b: "f'{a}'", c: "a < b", d: "not a", e: "a and b", *args: "*tuple[int, str]") -> None:
    pass
