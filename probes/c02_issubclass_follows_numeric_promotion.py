from typing import Type, Union
def a(x: Type[int]):
    if issubclass(x, float):
        reveal_type(x)
    else:
        reveal_type(x)
def b(x: Type[float]):
    if issubclass(x, float):
        reveal_type(x)
    else:
        reveal_type(x)
def c(x: Type[Union[int, str]]):
    if issubclass(x, (float, str)):
        reveal_type(x)
    else:
        reveal_type(x)
def d():
    x = int
    if issubclass(x, float):
        reveal_type(x)
    else:
        reveal_type(x)
def e(x: type):
    if issubclass(x, float):
        reveal_type(x)
    else:
        reveal_type(x)
def f(x: Type[bool]):
    if issubclass(x, int):
        reveal_type(x)
    else:
        reveal_type(x)
