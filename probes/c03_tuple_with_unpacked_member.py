from typing import Tuple, List
from typing_extensions import Unpack
def want_t(x: Tuple[int, Unpack[Tuple[str, ...]]]): pass
def want_s(x: Tuple[Unpack[Tuple[str, ...]], int]): pass
def want_m(x: Tuple[int, Unpack[Tuple[str, ...]], int]): pass
def t1(ls: List[str], li: List[int]):
    want_t(())  # E
    want_t((1, 2))  # E
    want_t(("a",))  # E
    want_t((1, *ls))
    want_t((1, "a", *ls, "b"))
    want_t((*li,))  # E
    want_t((1, *li))  # E
    want_s((1,))
    want_s(("a", 1))
    want_s(("a", "b"))  # E
    want_s((*ls, 1))
    want_s((*ls, "a", 1))
    want_s((1, *ls))  # E
    want_m((1,))  # E
    want_m((1, 2))
    want_m((1, "a", 2))
    want_m((1, *ls, 2))
    want_m((1, *ls))  # E
