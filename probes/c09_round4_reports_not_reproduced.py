def c() -> bool: ...
def g() -> None: ...

def f1():
    x = 0
    while c():
        try:
            x = 1
            g()
            break
        except ValueError:
            reveal_type(x)  # 1 (g raised after x = 1) or 0 (never: x=1 cannot raise)... at least 1
    reveal_type(x)

def f2():
    x = 0
    for _ in range(3):
        try:
            x = 1
            g()
            continue
        except ValueError:
            reveal_type(x)
        x = 2
    reveal_type(x)

def f3():
    x = 0
    try:
        g()
    finally:
        try:
            x = 1
            g()
        except ValueError:
            reveal_type(x)
    reveal_type(x)

def f4(flag: bool):
    if flag:
        global G
    G = 1
