def f(x, foo):
    y = """
%s
""" % x
    z = foo("%s" % x,
y)
    return y, z
