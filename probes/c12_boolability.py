from typing import TypeVar, Optional
from typing_extensions import TypeAliasType
T = TypeVar("T", int, str)
Alias = TypeAliasType("Alias", int)
def f(x: Optional[T]) -> None:
    if x:
        pass
def g() -> None:
    if Alias:
        pass
