def g(flag: bool):
    if flag:
        return type
    return int
