from typing_extensions import reveal_type
def cond() -> bool: ...

def f():
    while cond():
        with open("f"):
            x = 1
            break
        x = 2
    reveal_type(x)   # 1 (break) or unbound; 2 never reaches: `x = 2` is dead code

def g():
    x = 0
    while cond():
        x = 1
        break
        x = 2
    reveal_type(x)   # 0 or 1
