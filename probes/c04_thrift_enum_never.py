from typing import NoReturn
class ThriftEnum:
    _VALUES_TO_NAMES = {1: "A", 2: "B"}
    _NAMES_TO_VALUES = {"A": 1, "B": 2}
    A = 1
    B = 2
class Plain: pass
def never() -> NoReturn:
    raise Exception
def want_enum(x: ThriftEnum) -> None: pass
def want_plain(x: Plain) -> None: pass
def f() -> None:
    want_plain(never())
    want_enum(never())
