from typing_extensions import Unpack
from typing import Tuple
def f(p0=0, /, *args: Unpack[Tuple[int]]) -> None: pass
def use():
    f(1, 2)
    f(1, "x")  # E
