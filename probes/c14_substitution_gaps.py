from typing import TypeVar
from pyanalyze.value import *
T = TypeVar("T")
tv = TypeVarValue(T)
m = {T: TypedValue(int)}
alias = TypeAlias(lambda: GenericValue(list, [tv]), lambda: (T,))
tav = TypeAliasValue("L", "m", alias, (tv,))
print("alias:", tav.substitute_typevars(m).type_arguments, list(extract_typevars(tav)))
up = UnpackedValue(GenericValue(tuple, [tv]))
print("unpacked:", up.substitute_typevars(m), list(extract_typevars(up)))
td = TypedDictValue({}, extra_keys=tv)
print("td walk:", list(extract_typevars(td)))
