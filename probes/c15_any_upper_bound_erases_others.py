"""An upper bound of Any used to replace the upper bounds collected before it, so a solution outside
them was returned and the verdict depended on the order of the arguments.
Run: cd /repo && /venv/bin/python /verif/probes/c15_any_upper_bound_erases_others.py"""
from typing import TypeVar

from pyanalyze.test_value import CTX
from pyanalyze.typevar import solve
from pyanalyze.value import AnySource, AnyValue, LowerBound, TypedValue, UpperBound

T = TypeVar("T")
ANY = AnyValue(AnySource.explicit)
for bounds in (
    [UpperBound(T, TypedValue(int)), UpperBound(T, ANY), LowerBound(T, TypedValue(str))],   # was: str (outside T <= int)
    [UpperBound(T, ANY), UpperBound(T, TypedValue(int)), LowerBound(T, TypedValue(str))],   # was and is: error
):
    print([str(b) for b in bounds], "->", str(solve(bounds, CTX)).splitlines()[0])
