from typing_extensions import reveal_type


def g(x: str):
    if x in "abc":
        reveal_type(x)  # "ab" and "" reach here: must stay str, not Literal['a', 'b', 'c']
        return x
    return None


def h(x: bytes):
    if x in b"ab":
        reveal_type(x)  # b"ab" reaches here
