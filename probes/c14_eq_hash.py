from pyanalyze.value import *
from pyanalyze.stacked_scopes import Composite
from pyanalyze.signature import Signature, SigParameter, ParameterKind, ActualArguments
import ast
a = MultiValuedValue([TypedValue(int), TypedValue(str)]); b = MultiValuedValue([TypedValue(str), TypedValue(int)])
print("MVV", a == b, hash(a) == hash(b))
n1, n2 = ast.Name(id="x"), ast.Name(id="y")
c1, c2 = Composite(TypedValue(int), None, n1), Composite(TypedValue(int), None, n2)
print("Composite", c1 == c2, hash(c1) == hash(c2))
k1, k2 = KnownValue([1]), KnownValue([1])
print("KnownValue", k1 == k2, hash(k1) == hash(k2))
def f(): pass
def g(): pass
s1 = Signature.make([], TypedValue(int), callable=f); s2 = Signature.make([], TypedValue(int), callable=g)
print("Signature", s1 == s2, hash(s1) == hash(s2))
aa = ActualArguments([], None, {}, None, False, set(), None)
v1, v2 = CallValue(aa), CallValue(aa)
print("CallValue", v1 == v2, hash(v1) == hash(v2))
print("dedupe:", unite_values(a, b))
from pyanalyze.signature import Signature, SigParameter, ParameterKind
from pyanalyze.value import TypedValue
a = SigParameter("a", ParameterKind.KEYWORD_ONLY, annotation=TypedValue(int))
b = SigParameter("b", ParameterKind.KEYWORD_ONLY, annotation=TypedValue(str))
s1 = Signature.make([a, b], TypedValue(int)); s2 = Signature.make([b, a], TypedValue(int))
print("Signature kw-only reorder:", s1 == s2, hash(s1) == hash(s2))
