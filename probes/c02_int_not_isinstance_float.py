from typing_extensions import reveal_type, Literal
def f(x: int, y: Literal[1], z: "int | str", w: bool):
    if not isinstance(x, float):
        reveal_type(x)
    if not isinstance(y, float):
        reveal_type(y)
    if not isinstance(z, (float, str)):
        reveal_type(z)
    if isinstance(z, complex):
        reveal_type(z)
    else:
        reveal_type(z)
    if not isinstance(w, float):
        reveal_type(w)
