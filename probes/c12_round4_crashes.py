import sys
from typing import overload, Union, List, Dict

def a(x: "NewType()"): pass
def b(x: "TypeVar(1)"): pass

def c():
    x = 10 ** 5000
    return x + "a"

def d():
    for y in range(10 ** 30):
        print(y)

class A:
    zzz = 1

def e(v):
    match v:
        case A.zzz:
            return 1
    return 2

def f():
    return b"%(\xff)s" % {b"\xff": b"x"}

def h():
    if sys.version_info >= "3.8":
        pass

@overload
def ov(a: int) -> int: ...
@overload
def ov(a: str) -> str: ...
def ov(a): return a

def g(lst: Union[List[int], List[str]], d: Union[Dict[str, int], Dict[str, str]]):
    ov(*lst)
    ov(**d)
