from typing_extensions import reveal_type
def cond() -> bool: ...

g = "module"

def f():
    g = 1            # a local of f that shadows the module variable
    def inner():
        global g     # the module variable
        if cond():
            g = 2
        reveal_type(g)   # 2 or "module"; never f's local 1
    inner()
    return g
