"""TypedDict-vs-TypedDict: the keys the actual type declares and the expected one lacks must fit the
expected type's extra_items (closed: no such key).  Run: cd /repo && /venv/bin/python /verif/probes/c04_typeddict_extra_keys_of_other.py"""
from pyanalyze.value import NO_RETURN_VALUE, CanAssignError, KnownValue, TypedDictEntry, TypedDictValue, TypedValue
from pyanalyze.checker import Checker
from pyanalyze.name_check_visitor import NameCheckVisitor

ctx = NameCheckVisitor("", "", None, checker=Checker()) if False else Checker()  # noqa
from pyanalyze.test_value import CTX  # the can-assign context the test-suite uses

closed_empty = TypedDictValue({}, extra_keys=NO_RETURN_VALUE)
closed_b = TypedDictValue({"b": TypedDictEntry(TypedValue(int))}, extra_keys=NO_RETURN_VALUE)
str_extra = TypedDictValue({}, extra_keys=TypedValue(str), extra_keys_readonly=True)
for name, expected, actual in [
    ("closed {} <- closed {'b': int}", closed_empty, closed_b),
    ("{} with extra_items=ReadOnly[str] <- closed {'b': int}", str_extra, closed_b),
]:
    r = expected.can_assign(actual, CTX)
    print(name, "->", "rejected" if isinstance(r, CanAssignError) else "ACCEPTED (the object {'b': 1} belongs to the actual type only)")
r = TypedDictValue({}).can_assign(KnownValue({1: "x"}), CTX)
print("open {} <- the object {1: 'x'} ->", "rejected" if isinstance(r, CanAssignError) else "ACCEPTED (a TypedDict has string keys)")
