from typing_extensions import reveal_type
def cond() -> bool: ...

def k():
    y = 0
    while cond():
        y = 2
    else:
        reveal_type(y)

def m(xs: list):
    y = 0
    for _ in xs:
        y = 2
    else:
        reveal_type(y)
