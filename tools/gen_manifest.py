#!/venv/bin/python
"""Regenerates /verif/MANIFEST.json from the table below (single source of truth)."""

import json
import os
import sys

HERE = os.path.dirname(os.path.dirname(os.path.abspath(__file__)))

BASELINE_CMD = (
    "cd /repo && /venv/bin/python -m pytest -ra -q -p no:cacheprovider --timeout=900 "
    "--continue-on-collection-errors"
)

# property -> (claimed clauses text, technique, level_note)
CLAIMS_HEAD = {
    "C01": (
        "Structural necessary conditions only: (R01.a) every expression-level join (IfExp, BoolOp, chained Compare, "
        "binop over unions, union callee/receiver, flatten_unions) unites the result of every branch/member; "
        "(R01.b) every ast.expr kind has a visit_* on the main visitor. The behavioural statement (runtime value in "
        "inferred type for every program) is NOT decided.",
        "AST def-use rule over join sites + grammar coverage table",
        "Trusts that each branch's own inference is sound; only dropping of a branch/member at a join is detected.",
    ),
}

CLAIMS = {
    **CLAIMS_HEAD,
    "C02": (
        "Decides: (R02.a) no Value class is silently dropped by any ConstraintType arm/polarity or predicate "
        "(abstract dispatch over the class hierarchy); (R02.b) narrowed results are built only from the input and "
        "the tested value; (R02.c) De Morgan shape of every invert(); (R02.d) comparator complement tables; "
        "(R02.e) truthiness verdict sets and union rule. Does not decide that each predicate's semantic test equals "
        "the run-time test.",
        "abstract interpretation over sets of Value classes (ADI) + provenance + folded tables",
        "Class-level abstraction: conditions on payloads are opaque and fork both ways; the bindable-class domain "
        "excludes internal kinds listed with reasons in sa/rules/common.py.",
    ),
    "C03": (
        "Decides three structural clauses only: (R03.a) the numeric promotion table in TypeObject.__post_init__ is "
        "exactly int->float, int->complex, float->complex (plus the thrift-enum edge), merged into base_classes next "
        "to the real MRO; (R03.b) every literal equality that decides assignability or value identity is conjoined "
        "with a type-identity test or keyed on (value, type); (R03.c) list/tuple/set/frozenset/dict literals are all "
        "decomposed element-wise. The equality is_assignable(o, T) == member(o, T) itself is not decided.",
        "guard/effect extraction + pattern rules on value.py and type_object.py",
        "The typing spec's promotion special case is the oracle for R03.a.",
    ),
    "C04": (
        "Decides the algebraic laws that are visible in the dispatch structure of can_assign: (R04.a) Never reaches no "
        "direct rejection in any static-type receiver (abstract dispatch over Value classes with the Never singleton "
        "as its own atom, following super()/self delegation; component checks are inductive); (R04.b) Any likewise "
        "when exclude-any is off, with record_any_used() on the base accepting path; (R04.c) AnyValue accepts every "
        "non-union operand; (R04.d) should_exclude_any() only occurs as a negated conjunct guarding an accepting "
        "return (monotone); (R04.e/f) union-on-the-right is a for-all loop, union-on-the-left an exists loop. "
        "Soundness for membership of the per-class rules and reflexivity are not decided.",
        "abstract interpretation of can_assign over sets of Value classes with outcome classification",
        "Results of component checks (X.can_assign(other)) are assumed by structural induction; extension checks on "
        "AnnotatedValue and the TypeVar solver path are listed as not decided.",
    ),
    "C05": (
        "Decides the definite-argument slice and the error discipline: (R05.a) for POSITIONAL_ONLY / "
        "POSITIONAL_OR_KEYWORD / KEYWORD_ONLY the guarded actions of bind_arguments, extracted by truth-table "
        "evaluation over HAS_POSITIONAL/HAS_KEYWORD/HAS_DEFAULT with no star arguments, equal CPython's binding "
        "order; *args/**kwargs absorb the rest; (R05.b) leftover positionals/keywords are errors; (R05.c) every "
        "show_call_error in the binder is followed by return None; (R05.d) callers test the result for None; "
        "(R05.e) ParameterKind arms exhaustive, values equal inspect._ParameterKind. The star-argument "
        "(exists-expansion) clause and `incompatible_call iff TypeError` for every shape are not decided.",
        "guarded-action extraction by finite truth-table evaluation against a reference table",
        "Reference table encodes the language reference's binding rules; atoms are recognised syntactically by role.",
    ),
    "C20": (
        "Decides: (R20.1) the three kind predicates evaluated over the six-element Position domain equal the "
        "specification table; (R20.2) the marker stored by the binder for every combination of explicit / starred / "
        "default sources follows docs/type_evaluation.md (POSITIONAL index, KEYWORD name, DEFAULT, ARGS/KWARGS, "
        "UNKNOWN in exactly the four listed situations); (R20.3) _OP_TO_DATA negations/impls; (R20.4) evaluator "
        "control (branches follow the varmaps, first definite return, show_error records active conditions, "
        "exclude_any defaults). Agreement with a reference interpreter on every body is not decided.",
        "finite-domain evaluation of the kind tables + truth-table extraction of binder markers",
        "docs/type_evaluation.md is the oracle for the kind table.",
    ),
    "C06": (
        "Decides error discipline only: (R06.a) an incompatible argument is reported through ctx.on_error and "
        "signalled by a None bounds map; both callers of _check_param_type_compatibility test for None (default "
        "error return / had_error), had_error reaches CallReturn.is_error, unsolvable type variables end in the "
        "default error return; (R06.b) the main pass checks every bound argument against the substituted type and "
        "neither impl nor evaluator runs after a failed check. `diagnosed iff some argument is outside the declared "
        "type` and result-type containment are behavioural and not decided.",
        "def-use of the failure signal through check_call_with_bound_args",
        "",
    ),
    "C07": (
        "Decides: (R07.a) at every can_assign call between a value derived from the expected signature and one "
        "derived from the actual signature (roles by def-use, propagated into can_assign_var_positional/keyword "
        "from their call sites) parameter annotations are checked actual.can_assign(expected), return annotations "
        "and whole signatures expected.can_assign(actual); (R07.b) every arm pairing an expected with an actual "
        "parameter rejects `expected has a default, actual has none`; (R07.c) the tail loop rejects unconsumed "
        "required parameters of the actual signature per kind. That an accepted pair is safe for every call shape "
        "is not decided.",
        "def-use role inference + sibling-arm parity on Signature.can_assign",
        "Roles are seeded from self/other; operands with mixed roles are skipped and counted in evidence.",
    ),
    "C08": (
        "Decides: (R08.a) the loops of OverloadedSignature.check_call derive their sequence from self.signatures "
        "through order-preserving steps only; (R08.b) the result dispatch tests error / union / Any / clean in that "
        "order, error continues, Any and union fall through, clean returns; (R08.c) after the loop every path unites "
        "Any matches or reports an error (CFG must-pass-through), every Any[error] return follows show_error; "
        "(R08.d) the used-Any flag is read inside reset_any_used(), both modes are scoped overrides, mixed matches "
        "give Any[multiple_overload_matches]. Equality with a reference resolver over all overload sets is not decided.",
        "order-provenance + CFG must-pass-through on the overload loop",
        "",
    ),
    "C09": (
        "Decides the merge discipline: (R09.a) every captured branch scope reaches combine_subscopes (directly, via a "
        "local list, or via a helper parameter); (R09.b) conditionally executed children are visited inside a "
        "subscope (if/else, loop body/else incl. the second collecting pass, try body/handlers/else, case bodies, "
        "and/or operands, suppressing with-bodies, failing path of finally); (R09.c) return/raise/break/continue "
        "set their leave markers and get_combined_scope routes them; (R09.d) resolve_name reports undefined and "
        "possibly undefined names. Equality with an independent CFG reaching-definitions analysis is not decided.",
        "def-use flow of scope captures + lexical scoping table over the visitor",
        "The table of conditional children per visitor method is encoded from Python's execution model.",
    ),
    "C15": (
        "Decides solver shape: (R15.1) solve() handles every Bound subclass; (R15.2) every bounds list handed to "
        "make_bounds_map spreads get_inherent_bounds() of each type variable involved, which yields UpperBound for a "
        "bound and IsOneOf for constraints; (R15.3) with both a lower and an upper bound top.can_assign(bottom) is "
        "checked and its error returned; (R15.4) with constraints present every returned value is a constraint, Any "
        "or an error; (R15.5) resolve_bounds_map collects every solver error and all callers test them. That the "
        "chosen value satisfies every bound, and order independence of the fold, are not decided.",
        "pattern + guard rules on typevar.solve and its callers",
        "",
    ),
    "C16": (
        "Decides edit-script well-formedness only: (R16.a) deletions iterate sorted(..., reverse=True) and delete "
        "lines[lineno - 1]; (R16.b) additions are spliced at max(linenos_to_delete) before the deletions; (R16.c) "
        "only changes[0] is applied per pass, the repeat loop asserts ITERATION_LIMIT; (R16.d) the add-ignores edit "
        "deletes its own line and adds a comment-only, code-specific line followed by the unchanged original line; "
        "(R16.e) producers and consumers agree that linenos_to_delete is 1-based. That decompile() output parses, "
        "that the proposing diagnostic disappears and that the iteration converges are not decided; the two defects "
        "named in the property text are not detected by these rules.",
        "provenance + ordering rules on the fixer in node_visitor.py",
        "",
    ),
    "C17": (
        "Decides table agreement only: (R17.1) the conversion-type / flag / length-modifier character classes of the "
        "%-format regex (read through re._parser), the characters handled by ConversionSpecifier.accept_no_mvv and "
        "CPython's documented alphabets for str and bytes agree, %b is linted for str; (R17.2) str.format "
        "conversions {r,s,a}, field-name specials and brace escapes; (R17.3) the result type is the template's "
        "type. Agreement with CPython's formatter on every template/argument pair is not decided.",
        "regex AST + folded constant tables against the documented alphabets",
        "CPython's alphabets are encoded from Objects/unicodeobject.c and bytesobject.c.",
    ),
    "C19": (
        "Decides: (R19.1) the binary/unary operator tables cover every ast.operator class and the rich comparisons "
        "with (__op__, __iop__, __rop__) per the data model and the reflected-comparison pairs; (R19.2) "
        "unsupported_operation is reported only when both the direct and the reflected dunder call failed, the "
        "reflected call swaps the operands. `diagnosed iff CPython raises` and literal results are not decided.",
        "folded operator tables against the data model + guard analysis of the fallback",
        "The data-model table is encoded from the language reference 3.3.",
    ),
    "C10": (
        "Decides: (R10.1) no set/frozenset-typed value (typed from literals, constructors, set algebra, annotations "
        "of fields/parameters/returns, one inter-procedural step) reaches an order-observable construct (ordered "
        "iteration with non-commuting effects, list/tuple/dict materialisation, join/format, pop, next(iter), star, "
        "keyed min/max, sort by id) unless discharged by a recognised order-insensitivity idiom or a recorded "
        "exception; (R10.2) per-check state pushed on long-lived objects is restored in finally / by a context "
        "manager on every exit; (R10.3) id()-keyed stores re-verify identity or are paired. Purity of cross-file "
        "memo caches is not decided.",
        "set-typing dataflow + sink/idiom classification + pairing rule over the AST",
        "Set typing is annotation- and constructor-driven (pyanalyze's sources are fully annotated); values that are "
        "sets only behind an un-annotated external call are not seen. Exceptions are listed with reasons in sa/rules/c10.py.",
    ),
    "C11": (
        "Decides, on show_error and its collaborators: (R11.1) a test of the enabled state dominates every emission "
        "effect and does NOT dominate ignore accounting; (R11.2) each ignore-caused return marks exactly the matched "
        "line as used, file-level scan stops at the first code line, unused = comment present and index unused; "
        "(R11.3) neighbour-line indices are in range; (R11.4) all_failures has a single writer; (R11.5) reads of the "
        "enabled state outside show_error are classified; (R11.6) code-specific forms compare the code name. The "
        "relation D(P+comment) = D(P) - targeted over all placements is not decided; option precedence is C18.",
        "CFG dominance + def-use on the diagnostic filter",
        "CFG is statement-level with exception edges only inside try bodies; string shapes of the comment tests are matched on the normalised source.",
    ),
    "C13": (
        "Decides sibling parity: (R13.1) the set of subscripted typing forms handled by the AST/string route "
        "(_type_from_subscripted_value) equals the set handled by the runtime route (_value_of_origin_args) modulo "
        "three documented one-sided forms, and every AST-route arm that takes members[0] checks the arity; (R13.2) "
        "both signature builders evaluate parameter annotations with allow_unpack=kind.allow_unpack() and pass them "
        "through translate_vararg_type(kind, ...), kinds convert by value / are listed in inspect's order. "
        "value(E via AST) == value('E') == value(eval(E)) is decided on a finite vocabulary by R13.5 (see addendum), not for all E.",
        "extraction of dispatch-arm form sets from both routes and set comparison",
        "Forms are recognised from is_typing_name / identity tests on the dispatch variable.",
    ),
    "C14": (
        "Decides: (R14.1) equal-implies-equal-hash for every value/extension/bound/constraint/signature class, with "
        "the effective __eq__/__hash__ computed by the dataclass decision table (eq, frozen, unsafe_hash, explicit "
        "methods, compare=/hash= flags, NamedTuple); (R14.2) substitute_typevars and walk_values mention every "
        "Value-typed field (following super() calls); (R14.3) MultiValuedValue.vals is built by flattening, "
        "unite_values/annotate_value de-duplicate through a dict. Idempotence/commutativity/associativity up to "
        "equality are not decided.",
        "class-model computation of generated methods + field coverage",
        "Custom __eq__ bodies are analysed only for direct field comparisons and order-insensitive constructs.",
    ),
    "C18": (
        "Decides: (R18.1) the roles and signs of the three sort_key components; (R18.2) per-name grouping, ascending "
        "sort by sort_key, first-applicable lookup, concatenation of all applicable values then the default, prefix "
        "applicability; (R18.3) priority + 1 per extend_config, priority stored on every instance, recursion guard "
        "dominating the open; (R18.4) every key arm validates or delegates to parse(), every parse() raises on a "
        "wrong type; (R18.5) command-line instances carry from_command_line=True. The effective value for every "
        "stack of files follows from these plus the stability of sorted(); that last step is on paper.",
        "role-based AST patterns + CFG dominance on options.py",
        "Python's sorted() is stable; TOML parsing is trusted.",
    ),
    "C12": (
        "Decides: (R12.1) no element of the dispatched domain reaches a failing default (assert False/assert_never) "
        "in the classified dispatch chains, and dispatchers do not fall off their end; (R12.2) NodeVisitors whose "
        "generic_visit raises cover their grammar category, main visitor covers every ast.expr kind; (R12.3) the "
        "catch-all around node dispatch/check() is present with the stack pop in finally; (R12.4) every "
        "ErrorCode.<name> reference is registered. Absence of arbitrary exceptions and line/column well-formedness "
        "are not decided.",
        "abstract dispatch interpretation over enum/class/union-alias domains + grammar tables",
        "Dispatch sites over open domains (typeshed AST kinds, data-dependent asserts) are listed in evidence as not decided.",
    ),
}

# clauses added after the seeding rounds (DESIGN.md section 3 marks them "added after seeding")
ADDENDA = {
    "C01": "Also decides: (R01.c/d/e) the narrowing plumbing clauses shared with C02 (match-guard constraints, operator mirroring, origin-subset test); (R01.f) constant-index arithmetic of sequence subscripts, folded over a finite grid (in-range test == -n <= k < n; forward position k, backward position -k-1; give up at the first unpacked member); (R01.g/h) the narrowing models of C02 R02.k/l (a value narrowed to Never is claimed unreachable); (R01.i) _unpack_sequence_value interpreted on every member shape of up to 4 members x every target list: each target's inferred value contains the element Python's unpacking gives it; (R01.j) visit_MatchSequence and LenPredicate interpreted for every sequence pattern of up to 3 sub-patterns against CPython executing the same match statement. Round 4: (R01.k) len_of_value interpreted on 35 sequence values and literals: a literal length only for an immutable container, equal to its real length; R01.j also decides that the fall-through of a sequence pattern drops sequence subjects only for a pattern that takes every sequence. (R01.l) visit_AugAssign interpreted inside and outside a loop: a literal computed by a loop-carried augmented assignment to a name is widened to its type.",
    "C02": "Also decides: (R02.f) closed-world complement only under an identity test; (R02.g) match guards always contribute their constraint; (R02.h) operator mirrored when the narrowed operand is on the right; (R02.i) origin-subset test before applying a constraint; (R02.j) the isinstance() predicate is a runtime-class test - its negative arm does not drop on assignability alone and its promoted-type table equals TypeObject's artificial bases; by model extraction (R02.k/l): IsAssignablePredicate, EqualsPredicate, InPredicate and the is_instance / is_value / is_truthy / one_of / all_of arms of Constraint.apply_to_value are interpreted from their AST over a universe of 12 runtime objects and 7 classes for both polarities - no object that takes the branch is lost, nothing outside the value and the tested one appears. Round 4: (R02.m) the sequence-pattern model of C01 R01.j; (R02.n) extract_constraints with AndConstraint.make / OrConstraint.make interpreted on 186 values, read as propositional formulas: the extracted constraint is implied by the condition (a null disjunct is never dropped). The narrowing oracle applies the numeric promotion to classes (type[float] stands for int as well) and reads the predicate flags of isinstance / issubclass from their impl functions.",
    "C03": "Also decides: (R03.d) accepting shortcuts before the union member loop need an exact justification; by model extraction (R03.e): the can_assign methods of Value / KnownValue / TypedValue / MultiValuedValue / AnyValue and TypeObject are interpreted from their AST with real runtime objects and classes as payloads - each of 12 objects is accepted by each of 30 types exactly when it is a member (isinstance with numeric promotion, type-strict literals), incl. the large-union fast path; (R03.f) GenericValue / SequenceValue / TypedDictValue.can_assign, replace_known_sequence_value and get_generic_args_for_type interpreted on 38 real container objects x 123 container types (incl. tuples with one unpacked member) and 21 dict objects x 180 TypedDicts: accepted exactly when a structural member; (R03.g) 48 written annotation forms, read by the three interpreted annotation routes, denote the container-model type the typing documentation gives them.",
    "C04": "Also decides: (R04.g) exact early accepts in MultiValuedValue.can_assign; (R04.h) SequenceValue acceptances are dominated by the length comparison; (R04.i) direction of the metatype test; by model extraction (R04.j): on every ordered pair of 36 static types acceptance implies inclusion of member sets, reflexivity, Never/Any laws, union-right = forall, union-left = exists, exclude-any monotone; (R04.k) the same for every pair of 111 container types and of 180 TypedDicts (the fixed-tuple-accepts-variadic-tuple leniency is counted, not reported); (R04.l) accept-by-identity shortcuts on compare=False fields also compare the value-holding fields. Round 4: (R04.m) _extract_protocol_members interpreted on the MRO of 18 protocol classes built by CPython: every member of __protocol_attrs__ is a protocol member.",
    "C05": "Also decides, by model extraction: (R05.f/g) the body of bind_arguments is interpreted from its AST over an abstract store (opaque values, concrete control skeleton) for every def-legal signature of up to 4 (quick) / 6 (thorough) parameters and every call shape of up to 4 positionals and 4 keywords with and without *args/**kwargs of unknown length (158,620 / 2,883,300 abstract calls); accepted <=> CPython binds on the definite slice, and the exists-expansion clause on the star slice, against a reference binder that the thorough tier validates against the interpreter's own binding; (R05.h) preprocess_args + bind_arguments interpreted on calls with *tuple / **dict literals and compared with CPython evaluating the same call of the same def: diagnosed iff CPython raises TypeError at bind time. Round 4: the generic branch of _preprocess_kwargs_no_mvv (get_tv_map, TypedValue(str).can_assign) is part of the R05.h model. Round 5: R05.h also runs calls with one *xs of unknown length (xs: list[int]) before, between or after up to 3 positionals: accepted only if some length 0..4 binds under CPython, rejected only if no length 1..4 binds.",
    "C06": "Also decides: (R06.c) every collected bounds map reaches the solver through one unified list; (R06.d) the own-default exemption is an identity test; by model extraction (R06.e): the whole call-checking stack from check_call_preprocessed down to the can_assign methods and TypeObject is interpreted from its AST for non-generic signatures of 1-2 parameters with nominal annotations and literal arguments (60,000 / 390,000 calls): diagnosed <=> the call does not bind or an argument is outside its parameter's declared type; (R06.f) the same stack plus TypeVarValue.can_assign, unify_bounds_maps, resolve_bounds_map and solve for generic functions (free, constrained and bounded type variables): diagnosed <=> an argument is outside its declared type or no type fits a type variable; (R06.g) typed *args / **kwargs: the collected tuple / TypedDict is checked against tuple[T, ...] / dict[str, T] through the interpreted container assignability, incl. keywords named like positional-only parameters. Round 4: (R06.h) _get_attribute_from_mro interpreted on eight real classes of a generic hierarchy: the provider of an inherited attribute is the class of the MRO that defines it.",
    "C07": "Also decides: (R07.e) actual parameters are marked consumed only when paired with a named expected parameter; by model extraction (R07.f/g): Signature.can_assign is interpreted from its AST for every pair of def-legal signatures (expected <= 3/4 parameters, actual <= 3 under every naming from a pool of 4; 334,952 / 959,896 pairs) - every accepted pair must let each call shape (<= 3 positionals, <= 3 keywords) that binds to the expected signature bind to the actual one, and every argument flow of a commonly bound shape must have had its annotation pair compared. Round 4: (R07.h) _check_for_incompatible_overrides / _get_base_class_attributes interpreted on 39 class hierarchies: incompatible_override is reported for exactly the bases that define the name and are incompatible.",
    "C08": "By model extraction: (R08.f) OverloadedSignature.check_call and _unite_rets are interpreted from their AST with overloads as model objects following the documented single-overload contract, for every set of 2-3 (thorough 4) overloads x every argument (atom, union, Any): plain arguments are typed by the first accepting overload and diagnosed iff none accepts; unions are accepted iff every member is, with each member's own result in the type; Any never selects one overload's type when several match. Also decides: (R08.e) union decomposition for positional and keyword arguments alike. Round 4: (R08.g) can_assign of the container model given Any on the right for 148 parameter types: an acceptance of Any by a non-Any type has called record_any_used(); in the exclude-Any mode nothing accepts Any. (R08.h) the is_overload gate of check_call_with_bound_args admits exactly the positions (int, str) whose remainder the function can write back.",
    "C09": "Also decides: (R09.e) the scope synthesised for a suppressing with-block keeps LEAVES_LOOP; by model extraction (R09.f): the control-flow visitors and the scope machinery are interpreted from their AST in the collecting phase on ~1000 generated function bodies (if / while / for with else, break, continue, return, try / except / else / finally, suppressing and non-suppressing with blocks, dead statements after jumps, opaque calls, one level of nesting); for every reachable use of a local the recorded definitions lie between the strict and the liberal reaching-definitions sets of an independent analysis, and the unbound state is recorded iff some path leaves the name unbound; (R09.g) _visit_function_body with both phases, visit_Nonlocal / visit_Global and the value resolution are interpreted on 750 functions with a nested function that reads or assigns names of the enclosing function or the module and is called at known points: the values obtained in the checking phase lie between strict and liberal reaching definitions, and on R09.f's programs the checking phase obtains exactly the recorded definitions. Round 4: pinned programs with loops whose body's last statement leaves while a nested branch continues, and loops whose tail always returns.",
    "C10": "Also decides: (R10.4) caches shared between files are keyed by everything the cached value depends on; (R10.5) unify_bounds_maps / intersect_bounds_maps interpreted on sequences of up to three maps: inputs unchanged, no list shared with an input, repetition stable; (R10.6) memo caches on long-lived objects are keyed by every non-context parameter the memoised method reads. Round 4: (R10.7) no dataclasses.replace() call copies an object whose class has an init field with a mutable default_factory (the copy would share the container).",
    "C11": "Also decides, by model extraction: (R11.7) show_error, has_file_level_ignore, _lines, is_enabled and get_unused_ignores are interpreted from their AST on every file of <= 3 lines from 15 line kinds (incl. a blank line, a form feed - white space for the parser - and the ignore text inside a string literal, which is not a comment) x every sequence of <= 2 raw diagnostics x every set of enabled codes (~83,000 runs): reported = enabled and not suppressed by a documented ignore form; used / unused ignore comments are exactly those that did / did not suppress something; the used set does not depend on the enabled codes; (R11.8) is_error_code_enabled interpreted on views of one Options object for pairs of modules in both orders: every answer equals the layered configuration, whatever was asked before. Round 4: the R11.8 stacks carry -e / -d command-line settings, also with the value equal to the code's built-in default.",
    "C12": "Also decides: (R12.5) format()/payload operations on user objects run under an exception guard; (R12.6) payload comparisons go through safe_equals or an except clause; (R12.7) a container of the checker indexed by a literal payload is inside a sufficient try, behind a len() range check or behind a membership test; (R12.8) metaclass methods (mro, __subclasses__) are not called through a class object of the checked program; (R12.9) no can_assign application of the container model (unhashable objects, large unions) raises; (R12.10) no list / dict / set is stored in a hashed field of a Value / Bound / Extension class with generated __init__ and __hash__; (R12.11) what `with self.scopes.subscope() / loop_scope() as x` binds is None outside function scopes: every use of x that needs an object is under an `is not None` guard; (R12.12) int() behind a digit test is behind isdecimal(); (R12.13) the safe_* wrappers catch Exception and run nothing of the object outside the guard; (R12.14) the truth value of a guarded user-code result is taken inside a guard or after bool() inside it; (R12.15) the __str__ of the Value classes converts literals to text under a guard; (R12.16) operator functions picked from a table run on literal payloads under a guard, len() of a possible range under an OverflowError handler; (R12.17) Signature.make + validate interpreted on 972 legal def headers (incl. Unpack[tuple] *args and Unpack[TypedDict] **kwargs): validate never raises.",
    "C13": "Also decides: (R13.3) coroutine wrapping of async functions is conditioned on async-ness only in both signature builders; (R13.4) the runtime route never reads typing's shared ForwardRef evaluation cache; by model extraction (R13.5): the AST route, the string route and the runtime route of annotation evaluation are interpreted from their AST on ~800 annotation expressions of the typing vocabulary (the runtime form is built by CPython from the same expression) and must yield equal values and agree on rejection; (R13.6) compute_parameters on the def node and ArgSpecCache.from_signature on CPython's inspect.Signature of the same def interpreted on ~800 def headers: names, kinds, defaults, annotations and return annotation agree. Round 4: R13.6 also covers methods of classes nested up to three levels (the implicit type of self on both routes); R13.5's vocabulary has the starred form of unpacked tuples.",
    "C14": "Also decides: hand-written hashes canonicalise unordered fields; identity returns of substitute_typevars are guarded against type variables; by model extraction (R14.4): unite_values / flatten_values / annotate_value interpreted from their AST on 14 model values with the real classes' equality and hash, every pair and triple: idempotent, commutative, associative, never nests, Never identity, members = operands' members, equal alternatives merged; (R14.5) MultiValuedValue.__eq__ interpreted on unions of up to 12 members and their reorderings: equality is order-insensitive and member-sensitive. Round 4: (R14.6) 56 unions of 2-15 members incl. unhashable literals accept each operand, two operands and themselves (the large-union lookup table interpreted).",
    "C15": "Also decides, by model extraction: (R15.7) solve() and remove_redundant_solutions() are interpreted from their AST over a five-element lattice of types (assignability = inclusion, unite_values = union) for every set of up to 4 (quick) / 5 (thorough) lower/upper/constraint bounds in every order: a returned type satisfies every bound and the accepted-vs-diagnosed verdict is order independent; (R15.8) every LowerBound / UpperBound built for a type variable outside the solver carries the variable's inherent bounds (or the variable is a ParamSpec). Round 4: the R15.7 pool has a constraint list whose first member an upper bound rules out.",
    "C16": "By model extraction: (R16.h) _apply_changes_to_lines interpreted from its AST on every file of <= 6 lines x every deletion set x additions equals the documented splice, first change only; (R16.i) the interactive fixer's patch loop interpreted for every sequence of <= 3 changes gives the same file as the splices; (R16.j) iterating add-ignores on 2,280 small files with 0-2 diagnostic codes per line reaches a fixpoint with nothing reported, unchanged code lines, no unused inserted comment, and each inserted comment suppressing exactly one diagnostic. Also decides: (R16.f) whole-assignment deletions only for a single non-pattern target; (R16.k) NodeTransformer / ReplaceNodeTransformer.generic_visit interpreted on real syntax trees (18 statements covering every list-valued and optional field shape) for every expression node as the node to replace: exactly that node differs and the original is not mutated. Round 4: (R16.l) maybe_show_too_many_pos_args_error interpreted on 103 calls with repeated arguments and positional-only parameters, Composite objects carrying the class's real __eq__ / __hash__: the i-th argument is named with the i-th parameter, positional-only arguments stay positional. (R16.m) get_line_range_for_node interpreted on the statements of 11 multi-line sources: the range is lineno .. end_lineno. (R16.n) from_pattern + maybe_replace_with_fstring interpreted on 1,300 templates; CPython evaluates the proposed f-string and the original %-expression: equal values, nothing proposed for an expression that raises. (R16.o) _maybe_show_missing_f_error interpreted on seven real statements: no fix is proposed for the literal part of an f-string, a docstring, a .format() receiver or a call with matching keywords.",
    "C17": "By model extraction: (R17.6) the str.format template parser and _str_format_impl are interpreted from their AST for every template of <= 4 (quick) / 5 (thorough) characters over an 11-symbol alphabet plus 37 longer templates x 5 argument shapes; a diagnostic is shown whenever CPython's own str.format raises a template or missing-argument error on universal argument values and none (outside two listed stricter rules) when it formats. Also decides: (R17.4) truth table of argument consumption for `*` width / `*` precision / %%; (R17.5) a .format field name is an index exactly under isdecimal(), never by trial int(); (R17.7) the %-format checker (parsing regex, lint, accept for tuple and mapping operands) interpreted on ~540 str / bytes templates x 23 literal operands and compared with CPython evaluating the same expression: reported iff CPython raises, outside three documented stricter rules.",
    "C18": "Also decides, by model extraction: (R18.6) the whole layering pipeline (parse_config_file, _parse_config_section, option parse / is_applicable_to / sort_key / get_value_from_instances, Options.from_option_list / get_value_for) is interpreted from its AST on stacks of up to 3 chained files x command-line values x 6 queried modules; every effective value equals the documented layering for a boolean, an integer and a concatenated list option and for disable_all, and 18 malformed configurations each raise InvalidConfigOption. Round 4: (R18.7) = C10 R10.7; include paths of the model are unresolved aliases, so recursion must be detected on resolved paths.",
    "C19": "Also decides: (R19.3) constant-index range test and scan positions, folded over a finite grid; (R19.4) the literal result comes from performing the operation for this call (a call of the callee dominates every return of a helper); by model extraction: (R19.5) visit_UnaryOp / visit_BinOp / _visit_binop_internal / _visit_binop_no_mvv interpreted over 12 literal operands x 16 operators against CPython evaluating the same expression (with _check_dunder_call given its documented contract); (R19.6) attribute lookup on known objects (get_attribute, _get_attribute_from_known, the known-attribute hook, _get_attribute_from_mro) against CPython's getattr.",
    "C20": "By model extraction: (R20.7) EvaluateVisitor, ConditionEvaluator, ConditionReturn.reverse, CombinedReturn.make, EvalContext.narrow_variables, decompose_union, can_assign_maybe_exclude_any and unite_varmaps are interpreted from their AST on 381 generated evaluator bodies (real ast trees) x 10 x 2 argument types x argument kinds: the result equals the union of the results for each member of a union argument evaluated separately and show_error fires exactly in the branches some member executes (two union arguments: nothing is lost). Also decides: (R20.5) version/platform conditions compare sys.<attr> itself; (R20.6) unite_varmaps does not read an absent entry as Never unless keys are intersected. Round 4: a str | Any argument (a union with an Any member and a member outside the tested type) is in the R20.7 domain. (R20.8) the call model with a recording evaluator: an omitted argument whose default is `...` reaches the evaluator with the annotation's type, one with a literal default as that literal, with position DEFAULT.",
}

NOT_YET = {}


def main() -> None:
    props = [json.loads(l) for l in open(os.path.join(HERE, "properties.jsonl"))]
    checks = []
    na = []
    for p in props:
        pid = p["id"]
        if pid in CLAIMS:
            text, technique, note = CLAIMS[pid]
            checks.append(
                {
                    "property_id": pid,
                    "quick_cmd": f"./check {pid} --tier quick",
                    "thorough_cmd": f"./check {pid} --tier thorough",
                    "evidence_file": f"evidence/{pid}.json",
                    "replay_cmd_template": f"./check {pid} --replay {{path}}",
                    "engine": "sa",
                    "level_claimed": {
                        "category": "other",
                        "text": "Static analysis of pyanalyze's source, clauses only. " + text + (" " + ADDENDA[pid] if pid in ADDENDA else ""),
                        "design_ref": f"DESIGN.md section 3, {pid}",
                    },
                    "level_note": note,
                    "technique": "static analysis: " + technique,
                }
            )
        else:
            na.append(
                {
                    "property_id": pid,
                    "reason": NOT_YET.get(pid, "static check for this property is not built yet in this commit (see DESIGN.md for the planned clauses)"),
                }
            )
    manifest = {
        "version": 1,
        "setup_cmd": "cd /verif && /venv/bin/python -c \"import sa.cli\"",
        "hooks": {
            "guard": "QUORA_PYANALYZE_VERIF",
            "enable": "none needed: checks read /repo's source text only; no instrumentation is compiled in",
            "baseline_off_cmd": BASELINE_CMD,
            "source_commits": [],
            "add_only": True,
        },
        "engines": [
            {
                "name": "sa",
                "path": "sa/",
                "serves_properties": sorted(CLAIMS),
                "kind_free_text": "repository-specific static analysis: program model (classes, dataclass semantics, "
                "tables), abstract dispatch interpreter over finite domains, CFG/dominators, def-use provenance, "
                "unordered-collection typing; stdlib ast only",
            }
        ],
        "checks": checks,
        "not_applicable": na,
        "notes": "All checks decide structural clauses that are necessary conditions of the property, never the "
        "behavioural statement as a whole; see DESIGN.md per property for what is not decided. known_findings.json "
        "lists genuine defects recorded rather than repaired; fix: commits in /repo are listed there as fixed.",
    }
    with open(os.path.join(HERE, "MANIFEST.json"), "w") as f:
        json.dump(manifest, f, indent=1)
    print(f"MANIFEST.json: {len(checks)} checks, {len(na)} not_applicable")


if __name__ == "__main__":
    main()
