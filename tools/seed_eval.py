#!/venv/bin/python
"""Run the registered checks against every filed seeded change.

For each /verif/seeded/<name>/: git -C /repo apply patch.diff ; ./check <prop> (and, with --all,
every other property) ; git -C /repo checkout -- . ; the verdicts are written to
/verif/seeded/<name>/detection.json and summarised in /verif/seeded/SUMMARY.md.
"""
import json, os, subprocess, sys

VERIF = "/verif"
ALL = "--all" in sys.argv
only = [a for a in sys.argv[1:] if not a.startswith("--")]
props = [f"C{i:02d}" for i in range(1, 21)]


def sh(cmd, cwd=None):
    return subprocess.run(cmd, cwd=cwd, capture_output=True, text=True)


assert not sh(["git", "-C", "/repo", "status", "--porcelain"]).stdout.strip(), "/repo not clean"
rows = []
for name in sorted(os.listdir(os.path.join(VERIF, "seeded"))):
    d = os.path.join(VERIF, "seeded", name)
    if not os.path.isdir(d) or (only and name not in only):
        continue
    meta = json.load(open(os.path.join(d, "meta.json")))
    prop = meta["property"]
    ap = sh(["git", "-C", "/repo", "apply", os.path.join(d, "patch.diff")])
    if ap.returncode != 0:
        rows.append((name, prop, "patch does not apply", ""))
        continue
    try:
        det = {}
        for p in (props if ALL else [prop]):
            r = sh(["./check", p, "--no-evidence"], cwd=VERIF)
            keys = [l.split(": ", 1)[1][:200] for l in r.stdout.splitlines() if ": R" in l and "VIOLATION" not in l and not l.startswith("[")]
            det[p] = {"exit": r.returncode, "reports": keys[:6], "errors": [l for l in r.stdout.splitlines() if l.startswith("ANALYSIS-ERROR")][:3]}
    finally:
        sh(["git", "-C", "/repo", "checkout", "--", "."])
    json.dump(det, open(os.path.join(d, "detection.json"), "w"), indent=1)
    own = det[prop]
    others = [p for p, v in det.items() if p != prop and v["exit"] == 1]
    rows.append((name, prop, {0: "MISSED", 1: "DETECTED", 2: "ANALYSIS-ERROR"}[own["exit"]], (own["reports"] or own["errors"] or [""])[0][:150] + (f"  (also: {','.join(others)})" if others else "")))
assert not sh(["git", "-C", "/repo", "status", "--porcelain"]).stdout.strip(), "/repo left dirty"
for r in rows:
    print(" | ".join(r))
