#!/venv/bin/python
"""Confirm a seeded change in its scratch worktree and file it under /verif/seeded/<name>/.

usage: seed_confirm.py <worktree> <property> <suffix: ''|2> <name>
Steps (all in the scratch worktree, never in /repo):
  1. worktree clean; demo passes on the unchanged tree
  2. git apply patch; pyanalyze still compiles; demo fails
  3. the full existing test suite passes with the change
  4. revert; demo passes again
"""
import json, os, shutil, subprocess, sys

wt, prop, suffix, name = sys.argv[1:5]
seed = os.path.join(wt, "SEED")
patch = os.path.join(seed, f"patch{suffix}.diff")
demo = next(p for p in (os.path.join(seed, f"demo{suffix}.py"), os.path.join(seed, f"demo{suffix}.sh")) if os.path.exists(p))
meta = os.path.join(seed, f"meta{suffix}.json")


def run(cmd, **kw):
    return subprocess.run(cmd, cwd=wt, capture_output=True, text=True, **kw)


def demo_rc():
    cmd = ["/venv/bin/python", demo] if demo.endswith(".py") else ["/bin/sh", demo]
    p = run(cmd, timeout=900)
    return p.returncode, (p.stdout + p.stderr)[-600:]


log = {}
run(["git", "checkout", "--", "pyanalyze"])
st = run(["git", "status", "--porcelain", "--", "pyanalyze"]).stdout.strip()
assert not st, f"worktree not clean: {st}"
rc0, out0 = demo_rc()
log["demo_unchanged"] = rc0
ap = run(["git", "apply", patch])
assert ap.returncode == 0, ap.stderr
try:
    comp = run(["/venv/bin/python", "-m", "compileall", "-q", "pyanalyze"])
    log["compiles"] = comp.returncode == 0
    rc1, out1 = demo_rc()
    log["demo_changed"] = rc1
    t = run(["/venv/bin/python", "-m", "pytest", "-q", "-p", "no:cacheprovider", "--timeout=900", "-n", "6", "-x"], timeout=1800)
    tail = t.stdout.strip().splitlines()[-1] if t.stdout.strip() else t.stderr[-200:]
    log["tests"] = tail
    log["tests_rc"] = t.returncode
finally:
    run(["git", "checkout", "--", "pyanalyze"])
rc2, _ = demo_rc()
log["demo_reverted"] = rc2
ok = rc0 == 0 and rc1 != 0 and rc2 == 0 and log["compiles"] and log["tests_rc"] == 0
log["confirmed"] = ok
print(json.dumps(log, indent=1))
if not ok:
    print("NOT CONFIRMED", out0 if rc0 else "", out1[-300:] if rc1 == 0 else "")
    sys.exit(1)
dst = os.path.join("/verif/seeded", name)
os.makedirs(dst, exist_ok=True)
shutil.copy(patch, os.path.join(dst, "patch.diff"))
shutil.copy(demo, os.path.join(dst, "demo" + os.path.splitext(demo)[1]))
m = json.load(open(meta)) if os.path.exists(meta) else {}
m["property"] = prop
m["confirmed_by_builder"] = {
    "worktree": "scratch git worktree of /repo HEAD under /tmp/seed (removed afterwards)",
    "demo_on_unchanged_tree_exit": rc0,
    "demo_with_change_exit": rc1,
    "demo_after_revert_exit": rc2,
    "compiles_with_change": log["compiles"],
    "test_suite_with_change": log["tests"],
    "commands": [
        "git apply SEED/patch.diff",
        "/venv/bin/python SEED/demo.py",
        "/venv/bin/python -m pytest -q -p no:cacheprovider --timeout=900 -n 6 -x",
        "git checkout -- pyanalyze",
    ],
}
json.dump(m, open(os.path.join(dst, "meta.json"), "w"), indent=1)
print("filed", dst)
