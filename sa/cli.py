"""./check <Cxx> [--tier quick|thorough] [--replay PATH]"""

from __future__ import annotations

import argparse
import importlib
import json
import os
import sys
import traceback

from .model import AnchorError, Program
from .report import Check, finish


def run_property(prop: str, tier: str, replay: str | None = None, write: bool = True) -> int:
    seed = int(os.environ.get("VERIF_SEED", "0") or 0)
    chk = Check(prop, tier)
    digest = "?"
    stats = {}
    try:
        prog = Program()
        digest = prog.digest()
        stats = prog.stats()
        mod = importlib.import_module(f"sa.rules.{prop.lower()}")
        mod.run(prog, chk)
        if tier == "thorough" and hasattr(mod, "run_thorough"):
            mod.run_thorough(prog, chk)
        if tier == "thorough" and not os.environ.get("VERIF_SELFTEST"):
            from .selftest import run_selftest

            st = run_selftest(prop)
            chk.analysed["selftest"] = {k: v for k, v in st.items() if k != "results"}
            chk.analysed["selftest_results"] = st["results"]
            print(
                f"[{prop}] self-test: {st['edits']} edits, {st['detected']} breaking edits detected, "
                f"{st['silent']} behaviour-preserving edits silent, {st['skipped']} skipped"
            )
            for f in st["failed"]:
                chk.error(f"checker self-test failed: edit `{f['name']}` ({f['kind']}): {f['detail']}")
    except AnchorError as e:
        chk.error(f"anchor not found: {e}")
    except Exception:
        chk.error("internal failure of the analysis:\n" + traceback.format_exc())
    if replay:
        with open(replay) as f:
            r = json.load(f)
        keep = [o for o in chk.obligations if o.rule == r["rule"] and o.key == r["construct_key"]]
        if not keep:
            print(f"replay: obligation {r['rule']} {r['construct_key']} no longer generated on this tree")
        for o in keep:
            print(f"replay: {o.site} {o.rule} {o.key}: {'discharged' if o.ok else 'FAILS: ' + o.reason}")
            if o.witness:
                print("  witness:", json.dumps(o.witness, default=str, indent=1))
    return finish(chk, digest, stats, seed, write=write)


def main() -> int:
    ap = argparse.ArgumentParser()
    ap.add_argument("prop")
    ap.add_argument("--tier", default=os.environ.get("VERIF_TIER", "quick"), choices=["quick", "thorough"])
    ap.add_argument("--replay")
    ap.add_argument("--no-evidence", action="store_true", help="do not write evidence / replay files (used by the self-test)")
    a = ap.parse_args()
    try:
        return run_property(a.prop.upper(), a.tier, a.replay, write=not a.no_evidence)
    except SystemExit:
        raise
    except BaseException:
        print(f"ANALYSIS-ERROR property={a.prop} " + traceback.format_exc())
        return 2


if __name__ == "__main__":
    sys.exit(main())
