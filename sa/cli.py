"""./check <Cxx> [--tier quick|thorough] [--replay PATH]"""

from __future__ import annotations

import argparse
import importlib
import json
import os
import sys
import traceback

from .model import AnchorError, Program
from .report import Check, finish


def run_property(prop: str, tier: str, replay: str | None = None) -> int:
    seed = int(os.environ.get("VERIF_SEED", "0") or 0)
    chk = Check(prop, tier)
    digest = "?"
    stats = {}
    try:
        prog = Program()
        digest = prog.digest()
        stats = prog.stats()
        mod = importlib.import_module(f"sa.rules.{prop.lower()}")
        mod.run(prog, chk)
        if tier == "thorough" and hasattr(mod, "run_thorough"):
            mod.run_thorough(prog, chk)
    except AnchorError as e:
        chk.error(f"anchor not found: {e}")
    except Exception:
        chk.error("internal failure of the analysis:\n" + traceback.format_exc())
    if replay:
        with open(replay) as f:
            r = json.load(f)
        keep = [o for o in chk.obligations if o.rule == r["rule"] and o.key == r["construct_key"]]
        if not keep:
            print(f"replay: obligation {r['rule']} {r['construct_key']} no longer generated on this tree")
        for o in keep:
            print(f"replay: {o.site} {o.rule} {o.key}: {'discharged' if o.ok else 'FAILS: ' + o.reason}")
            if o.witness:
                print("  witness:", json.dumps(o.witness, default=str, indent=1))
    return finish(chk, digest, stats, seed)


def main() -> int:
    ap = argparse.ArgumentParser()
    ap.add_argument("prop")
    ap.add_argument("--tier", default=os.environ.get("VERIF_TIER", "quick"), choices=["quick", "thorough"])
    ap.add_argument("--replay")
    a = ap.parse_args()
    try:
        return run_property(a.prop.upper(), a.tier, a.replay)
    except SystemExit:
        raise
    except BaseException:
        print(f"ANALYSIS-ERROR property={a.prop} " + traceback.format_exc())
        return 2


if __name__ == "__main__":
    sys.exit(main())
