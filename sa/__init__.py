"""Static-analysis machinery for quora/pyanalyze properties C01-C20.

Nothing in this package imports or executes pyanalyze. Every verdict is
computed from the source text under $VERIF_REPO (default /repo).
"""
