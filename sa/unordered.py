"""E5 - unordered-collection typing and order-observability sinks.

Decides, per expression, whether it denotes a ``set``/``frozenset`` (iteration
order depends on hash seeds / object addresses), and enumerates the sites where
such a value flows into a construct whose result depends on iteration order.
"""

from __future__ import annotations

import ast
from dataclasses import dataclass, field
from typing import Dict, Iterable, Iterator, List, Optional, Sequence, Set, Tuple

from .model import Module, Program, dotted, last_attr, norm, parent, walk_no_nested

SET_TYPE_NAMES = {"set", "Set", "frozenset", "FrozenSet", "AbstractSet", "MutableSet"}
DICT_TYPE_NAMES = {"dict", "Dict", "defaultdict", "DefaultDict", "Mapping", "MutableMapping", "OrderedDict"}
SEQ_TYPE_NAMES = {"list", "List", "Sequence", "tuple", "Tuple", "Iterable", "Collection", "Iterator"}
SET_METHODS_RETURNING_SET = {"union", "intersection", "difference", "symmetric_difference", "copy"}
SET_OPS = (ast.BitOr, ast.BitAnd, ast.Sub, ast.BitXor)

# consumers whose result does not depend on the iteration order of their argument
ORDER_INSENSITIVE_CONSUMERS = {"sorted", "set", "frozenset", "len", "sum", "any", "all", "Counter"}
MINMAX = {"min", "max"}
MATERIALISERS = {"list", "tuple", "enumerate", "zip", "iter", "reversed", "chain", "map", "filter", "OrderedDict", "deque"}


ALIASES: Dict[str, str] = {}  # module-level type aliases that denote set types (filled by SetTyping)


def ann_kind(ann: Optional[ast.AST]) -> Optional[str]:
    """'set' | 'dictset' (mapping whose values are sets) | 'seqset' (sequence of sets) | None"""
    if ann is None:
        return None
    if isinstance(ann, ast.Name) and ann.id in ALIASES:
        return ALIASES[ann.id]
    if isinstance(ann, ast.Constant) and isinstance(ann.value, str):
        try:
            ann = ast.parse(ann.value, mode="eval").body
        except SyntaxError:
            return None
    base = ann
    args: List[ast.AST] = []
    if isinstance(ann, ast.Subscript):
        base = ann.value
        args = list(ann.slice.elts) if isinstance(ann.slice, ast.Tuple) else [ann.slice]
    d = dotted(base)
    if d is None:
        return None
    name = d.split(".")[-1]
    if name in SET_TYPE_NAMES:
        return "set"
    if name == "Optional" and args:
        return ann_kind(args[0])
    if name == "Union" and args:
        kinds = {ann_kind(a) for a in args if not (isinstance(a, ast.Constant) and a.value is None)}
        if kinds == {"set"}:
            return "set"
        return None
    if name in DICT_TYPE_NAMES and len(args) == 2 and ann_kind(args[1]) == "set":
        return "dictset"
    if name in SEQ_TYPE_NAMES and args and ann_kind(args[0]) == "set":
        return "seqset"
    if name in ("ClassVar", "Final") and args:
        return ann_kind(args[0])
    return None


@dataclass
class Sink:
    module: str
    qualname: str
    node: ast.AST
    kind: str  # loop | comp | materialise | join | pop | next-iter | star | format | minmax-key | sorted-by-id | call-arg | yield-from | return
    origin: str  # descriptor of how the iterated value is typed as a set
    source_expr: ast.AST
    detail: str = ""

    @property
    def lineno(self) -> int:
        return getattr(self.node, "lineno", 0)


class FunctionCtx:
    """Set-typing of local names inside one function (or module body)."""

    def __init__(self, st: "SetTyping", mod: Module, fn: ast.AST, qualname: str, cls: Optional[str]) -> None:
        self.st = st
        self.mod = mod
        self.fn = fn
        self.qualname = qualname
        self.cls = cls
        self.local: Dict[str, str] = {}
        self.local_origin: Dict[str, str] = {}
        self.forced: Dict[str, str] = {}  # parameters assumed set-typed (inter-procedural step)
        self._infer()

    def _infer(self) -> None:
        fn = self.fn
        if isinstance(fn, (ast.FunctionDef, ast.AsyncFunctionDef)):
            a = fn.args
            for arg in a.posonlyargs + a.args + a.kwonlyargs:
                k = ann_kind(arg.annotation)
                if k:
                    self.local[arg.arg] = k
                    self.local_origin[arg.arg] = f"param:{arg.arg}"
        # fixpoint over assignments
        for _ in range(4):
            changed = False
            for n in self._walk():
                targets: List[Tuple[ast.AST, Optional[ast.AST], Optional[ast.AST]]] = []
                if isinstance(n, ast.Assign):
                    for t in n.targets:
                        targets.append((t, n.value, None))
                elif isinstance(n, ast.AnnAssign):
                    targets.append((n.target, n.value, n.annotation))
                elif isinstance(n, ast.AugAssign) and isinstance(n.op, SET_OPS):
                    targets.append((n.target, n.value, None))
                elif isinstance(n, ast.NamedExpr):
                    targets.append((n.target, n.value, None))
                elif isinstance(n, (ast.For, ast.AsyncFor)):
                    # for s in seq_of_sets / dictset.values()
                    ik = self.kind(n.iter)
                    if ik == "seqset" and isinstance(n.target, ast.Name):
                        if self.local.get(n.target.id) != "set":
                            self.local[n.target.id] = "set"
                            self.local_origin[n.target.id] = "elem(" + self.origin(n.iter) + ")"
                            changed = True
                    if isinstance(n.target, ast.Tuple) and self._is_items_of_dictset(n.iter) and len(n.target.elts) == 2:
                        v = n.target.elts[1]
                        if isinstance(v, ast.Name) and self.local.get(v.id) != "set":
                            self.local[v.id] = "set"
                            self.local_origin[v.id] = "values(" + self.origin(n.iter) + ")"
                            changed = True
                if isinstance(n, ast.comprehension):
                    ik = self.kind(n.iter)
                    if ik == "seqset" and isinstance(n.target, ast.Name) and self.local.get(n.target.id) != "set":
                        self.local[n.target.id] = "set"
                        self.local_origin[n.target.id] = "elem(" + self.origin(n.iter) + ")"
                        changed = True
                    if isinstance(n.target, ast.Tuple) and self._is_items_of_dictset(n.iter) and len(n.target.elts) == 2:
                        v = n.target.elts[1]
                        if isinstance(v, ast.Name) and self.local.get(v.id) != "set":
                            self.local[v.id] = "set"
                            self.local_origin[v.id] = "values(" + self.origin(n.iter) + ")"
                            changed = True
                for t, val, ann in targets:
                    if not isinstance(t, ast.Name):
                        continue
                    k = ann_kind(ann) if ann is not None else None
                    if k is None and val is not None:
                        k = self.kind(val)
                    if k and self.local.get(t.id) != k:
                        # all non-None assignments must agree for a name to be typed
                        self.local[t.id] = k
                        self.local_origin[t.id] = self.origin(val) if val is not None else f"annotated:{t.id}"
                        changed = True
            if not changed:
                break
        # names that are also assigned something that is clearly not a set lose the typing
        for name in list(self.local):
            if name in self.forced:
                continue
            for n in self._walk():
                if isinstance(n, ast.Assign):
                    for t in n.targets:
                        if isinstance(t, ast.Name) and t.id == name:
                            k = self.kind(n.value)
                            if k is None and self._clearly_ordered(n.value):
                                self.local.pop(name, None)

    def _clearly_ordered(self, e: ast.AST) -> bool:
        if isinstance(e, (ast.List, ast.ListComp, ast.Tuple, ast.Dict, ast.DictComp)):
            return True
        if isinstance(e, ast.Call) and last_attr(e) in ("sorted", "list", "tuple", "dict"):
            return True
        return False

    def _walk(self) -> Iterator[ast.AST]:
        if isinstance(self.fn, ast.Module):
            # module body without function/class bodies
            stack: List[ast.AST] = list(self.fn.body)
            while stack:
                n = stack.pop()
                if isinstance(n, (ast.FunctionDef, ast.AsyncFunctionDef, ast.ClassDef)):
                    continue
                yield n
                stack.extend(ast.iter_child_nodes(n))
        else:
            yield from walk_no_nested(self.fn)

    def _is_items_of_dictset(self, e: ast.AST) -> bool:
        return (
            isinstance(e, ast.Call)
            and isinstance(e.func, ast.Attribute)
            and e.func.attr == "items"
            and self.kind(e.func.value) == "dictset"
        )

    # ------------------------------------------------------------------ kind
    def kind(self, e: Optional[ast.AST]) -> Optional[str]:
        if e is None:
            return None
        if isinstance(e, (ast.Set, ast.SetComp)):
            return "set"
        if isinstance(e, ast.Name):
            if e.id in self.forced:
                return self.forced[e.id]
            if e.id in self.local:
                return self.local[e.id]
            return self.st.module_names.get((self.mod.name, e.id))
        if isinstance(e, ast.Attribute):
            return self.st.attr_kind(e, self)
        if isinstance(e, ast.Call):
            name = last_attr(e)
            if isinstance(e.func, ast.Name) and name in ("set", "frozenset"):
                return "set"
            if isinstance(e.func, ast.Attribute):
                if isinstance(e.func.value, ast.Name) and e.func.value.id in ("set", "frozenset") and name in SET_METHODS_RETURNING_SET:
                    return "set"
                recv = self.kind(e.func.value)
                if recv == "set" and name in SET_METHODS_RETURNING_SET:
                    return "set"
                if recv == "dictset":
                    if name in ("get", "setdefault", "pop") :
                        return "set"
                    if name == "values":
                        return "seqset"
                    if name == "copy":
                        return "dictset"
                if recv == "seqset" and name in ("pop",):
                    return "set"
            if isinstance(e.func, ast.Name) and name == "defaultdict" and e.args:
                a0 = e.args[0]
                if isinstance(a0, ast.Name) and a0.id in ("set", "frozenset"):
                    return "dictset"
            if isinstance(e.func, ast.Name) and name == "field":
                for k in e.keywords:
                    if k.arg == "default_factory":
                        if isinstance(k.value, ast.Name) and k.value.id in ("set", "frozenset"):
                            return "set"
            return self.st.call_kind(e, self)
        if isinstance(e, ast.BinOp) and isinstance(e.op, SET_OPS):
            lk, rk = self.kind(e.left), self.kind(e.right)
            if lk == "set" or rk == "set":
                return "set"
            if self._is_keys_view(e.left) or self._is_keys_view(e.right):
                return "set"
            return None
        if isinstance(e, ast.IfExp):
            a, b = self.kind(e.body), self.kind(e.orelse)
            return a or b
        if isinstance(e, ast.BoolOp):
            for v in e.values:
                k = self.kind(v)
                if k:
                    return k
            return None
        if isinstance(e, ast.Subscript):
            bk = self.kind(e.value)
            if bk == "dictset":
                return "set"
            if bk == "seqset" and not isinstance(e.slice, ast.Slice):
                return "set"
            return None
        if isinstance(e, ast.NamedExpr):
            return self.kind(e.value)
        if isinstance(e, ast.Await):
            return self.kind(e.value)
        return None

    @staticmethod
    def _is_keys_view(e: ast.AST) -> bool:
        return isinstance(e, ast.Call) and isinstance(e.func, ast.Attribute) and e.func.attr in ("keys", "items") and not e.args

    # ---------------------------------------------------------------- origin
    def origin(self, e: Optional[ast.AST], depth: int = 0) -> str:
        if e is None or depth > 4:
            return "?"
        if isinstance(e, ast.Set):
            return "set-literal"
        if isinstance(e, ast.SetComp):
            return "set-comprehension"
        if isinstance(e, ast.Name):
            if e.id in self.forced:
                return f"param:{e.id}"
            if e.id in self.local_origin:
                return self.local_origin[e.id]
            return f"name:{e.id}"
        if isinstance(e, ast.Attribute):
            return f"attr:{e.attr}"
        if isinstance(e, ast.Call):
            name = last_attr(e)
            if isinstance(e.func, ast.Name) and name in ("set", "frozenset"):
                inner = e.args[0] if e.args else None
                if inner is None:
                    return "set()"
                return f"{name}(...)"
            if isinstance(e.func, ast.Attribute) and name in SET_METHODS_RETURNING_SET | {"get", "setdefault", "pop", "values"}:
                return f"{self.origin(e.func.value, depth + 1)}.{name}()"
            return f"call:{name}"
        if isinstance(e, ast.BinOp):
            sym = {ast.BitOr: "|", ast.BitAnd: "&", ast.Sub: "-", ast.BitXor: "^"}.get(type(e.op), "?")
            return f"({self.origin(e.left, depth + 1)}{sym}{self.origin(e.right, depth + 1)})"
        if isinstance(e, ast.Subscript):
            return f"{self.origin(e.value, depth + 1)}[]"
        if isinstance(e, ast.IfExp):
            return f"ifexp({self.origin(e.body, depth + 1)},{self.origin(e.orelse, depth + 1)})"
        if isinstance(e, ast.BoolOp):
            return "boolop(" + ",".join(self.origin(v, depth + 1) for v in e.values) + ")"
        return type(e).__name__


class SetTyping:
    def __init__(self, prog: Program) -> None:
        self.prog = prog
        self.field_kinds: Dict[str, Set[Optional[str]]] = {}  # attr name -> kinds over all declaring classes
        self.class_field_kind: Dict[Tuple[str, str], Optional[str]] = {}
        self.module_names: Dict[Tuple[str, str], str] = {}
        self.func_ret: Dict[str, Set[Optional[str]]] = {}  # simple function/method name -> kinds of all defs
        self.func_ret_qual: Dict[Tuple[str, str], Optional[str]] = {}
        self.ctxs: Dict[int, FunctionCtx] = {}
        self._collect()

    # ---------------------------------------------------------------- facts
    def _collect(self) -> None:
        prog = self.prog
        ALIASES.clear()
        for mod in prog.modules.values():
            for st in mod.tree.body:
                if isinstance(st, ast.Assign) and len(st.targets) == 1 and isinstance(st.targets[0], ast.Name):
                    if isinstance(st.value, ast.Subscript) and ann_kind(st.value):
                        ALIASES[st.targets[0].id] = ann_kind(st.value)  # type: ignore[assignment]
        self.imports: Dict[Tuple[str, str], Tuple[str, str]] = {}
        for mod in prog.modules.values():
            for st in ast.walk(mod.tree):
                if isinstance(st, ast.ImportFrom) and st.module is not None or isinstance(st, ast.ImportFrom) and st.level:
                    src = (st.module or "").split(".")[-1]
                    if src in prog.modules:
                        for al in st.names:
                            self.imports[(mod.name, al.asname or al.name)] = (src, al.name)
        for ci in prog.classes_by_qual.values():
            for f in ci.own_fields:
                k = ann_kind(f.annotation)
                self.field_kinds.setdefault(f.name, set()).add(k)
                self.class_field_kind[(ci.name, f.name)] = k
            # attributes assigned in methods: self.x = set() / self.x: set[...] = ...
            for m in ci.methods.values():
                for n in walk_no_nested(m):
                    tgt = None
                    val = None
                    ann = None
                    if isinstance(n, ast.Assign) and len(n.targets) == 1:
                        tgt, val = n.targets[0], n.value
                    elif isinstance(n, ast.AnnAssign):
                        tgt, val, ann = n.target, n.value, n.annotation
                    if isinstance(tgt, ast.Attribute) and isinstance(tgt.value, ast.Name) and tgt.value.id == "self":
                        k = ann_kind(ann) if ann is not None else None
                        if k is None and val is not None:
                            k = _literal_kind(val)
                        if (ci.name, tgt.attr) in self.class_field_kind and self.class_field_kind[(ci.name, tgt.attr)]:
                            continue
                        if k:
                            self.class_field_kind[(ci.name, tgt.attr)] = k
                            self.field_kinds.setdefault(tgt.attr, set()).add(k)
                        elif (ci.name, tgt.attr) not in self.class_field_kind:
                            self.class_field_kind[(ci.name, tgt.attr)] = None
                            self.field_kinds.setdefault(tgt.attr, set()).add(None)
        for mod in prog.modules.values():
            for st in mod.tree.body:
                tgt = val = ann = None
                if isinstance(st, ast.Assign) and len(st.targets) == 1:
                    tgt, val = st.targets[0], st.value
                elif isinstance(st, ast.AnnAssign):
                    tgt, val, ann = st.target, st.value, st.annotation
                if isinstance(tgt, ast.Name):
                    k = ann_kind(ann) if ann is not None else None
                    if k is None and val is not None:
                        k = _literal_kind(val)
                    if k:
                        self.module_names[(mod.name, tgt.id)] = k
        # imported module-level names keep their kind
        for mod in prog.modules.values():
            for st in ast.walk(mod.tree):
                if isinstance(st, ast.ImportFrom) and st.module is not None:
                    src = st.module.split(".")[-1]
                    for al in st.names:
                        k = self.module_names.get((src, al.name))
                        if k:
                            self.module_names[(mod.name, al.asname or al.name)] = k
        self.method_ret: Dict[str, Set[Optional[str]]] = {}
        for m, q, fn in prog.iter_functions():
            k = ann_kind(fn.returns)
            self.func_ret.setdefault(fn.name, set()).add(k)
            self.func_ret_qual[(m, q)] = k
            if "." in q:
                self.method_ret.setdefault(fn.name, set()).add(k)
        # second pass: un-annotated / loosely annotated functions whose every
        # return expression is set-typed are set-returning
        for _ in range(2):
            for m, q, fn in prog.iter_functions():
                if self.func_ret_qual.get((m, q)):
                    continue
                rets = [n for n in walk_no_nested(fn) if isinstance(n, ast.Return) and n.value is not None]
                if not rets:
                    continue
                ctx = self.ctx_for(prog.module(m), fn, q)
                if all(ctx.kind(r.value) == "set" for r in rets):
                    self.func_ret_qual[(m, q)] = "set"
                    ks = self.func_ret.setdefault(fn.name, set())
                    ks.discard(None)
                    ks.add("set")
                    if "." in q:
                        # (only exact if every same-named method infers the same way)
                        others = [
                            (m2, q2) for m2, q2, f2 in prog.iter_functions() if f2.name == fn.name and "." in q2
                        ]
                        self.method_ret[fn.name] = {self.func_ret_qual.get(o) for o in others}
            self.ctxs.clear()

    def ctx_for(self, mod: Module, fn: ast.AST, qualname: str) -> FunctionCtx:
        key = id(fn)
        if key not in self.ctxs:
            cls = None
            p = parent(fn)
            while p is not None:
                if isinstance(p, ast.ClassDef):
                    cls = p.name
                    break
                p = parent(p)
            self.ctxs[key] = FunctionCtx(self, mod, fn, qualname, cls)
        return self.ctxs[key]

    def attr_kind(self, e: ast.Attribute, ctx: FunctionCtx) -> Optional[str]:
        if isinstance(e.value, ast.Name) and e.value.id == "self" and ctx.cls is not None:
            for ci in self.prog.mro(ctx.cls):
                if (ci.name, e.attr) in self.class_field_kind:
                    return self.class_field_kind[(ci.name, e.attr)]
        # receiver annotated with a package class
        if isinstance(e.value, ast.Name) and isinstance(ctx.fn, (ast.FunctionDef, ast.AsyncFunctionDef)):
            for arg in ctx.fn.args.posonlyargs + ctx.fn.args.args + ctx.fn.args.kwonlyargs:
                if arg.arg == e.value.id and arg.annotation is not None:
                    cn = norm(arg.annotation).strip("'\"").split(".")[-1]
                    if cn in self.prog.classes:
                        for ci in self.prog.mro(cn):
                            if (ci.name, e.attr) in self.class_field_kind:
                                return self.class_field_kind[(ci.name, e.attr)]
                        # not a field of the declared class (e.g. narrowed by isinstance
                        # to a subclass): fall back to the name-based table
                        break
        kinds = self.field_kinds.get(e.attr)
        if kinds and len(kinds) == 1:
            return next(iter(kinds))
        if kinds and None not in kinds and len(kinds) == 1:
            return next(iter(kinds))
        return None

    def call_kind(self, e: ast.Call, ctx: FunctionCtx) -> Optional[str]:
        name = last_attr(e)
        if name is None:
            return None
        if isinstance(e.func, ast.Name):
            # module function in the same module, or imported from a package module
            if (ctx.mod.name, name) in self.func_ret_qual:
                return self.func_ret_qual[(ctx.mod.name, name)]
            src = self.imports.get((ctx.mod.name, name))
            if src is not None:
                return self.func_ret_qual.get(src)
            return None
        if isinstance(e.func, ast.Attribute) and isinstance(e.func.value, ast.Name) and e.func.value.id in ("self", "cls") and ctx.cls:
            f = self.prog.find_method(ctx.cls, name)
            if f is not None:
                return self.func_ret_qual.get((f[0].module.name, f"{f[0].name}.{name}"))
            return None
        if isinstance(e.func, ast.Attribute):
            # module.function
            d = dotted(e.func.value)
            if d is not None and d.split(".")[-1] in self.prog.modules:
                return self.func_ret_qual.get((d.split(".")[-1], name))
            kinds = self.method_ret.get(name)
            if kinds and len(kinds) == 1:
                return next(iter(kinds))
        return None

    # ----------------------------------------------------------------- sinks
    def iter_units(self) -> Iterator[Tuple[Module, ast.AST, str]]:
        for m, q, fn in self.prog.iter_functions():
            yield self.prog.module(m), fn, q
        for mod in self.prog.modules.values():
            yield mod, mod.tree, "<module>"

    def sinks(self, depth: int = 1) -> List[Sink]:
        out: List[Sink] = []
        for mod, fn, q in self.iter_units():
            ctx = self.ctx_for(mod, fn, q)
            out.extend(self.sinks_in(ctx, depth))
        return out

    def sinks_in(self, ctx: FunctionCtx, depth: int = 0) -> List[Sink]:
        out: List[Sink] = []
        m, q = ctx.mod.name, ctx.qualname

        def add(node: ast.AST, kind: str, src: ast.AST, detail: str = "") -> None:
            out.append(Sink(m, q, node, kind, ctx.origin(src), src, detail))

        for n in ctx._walk():
            if isinstance(n, (ast.For, ast.AsyncFor)) and ctx.kind(n.iter) == "set":
                add(n, "loop", n.iter)
            elif isinstance(n, (ast.ListComp, ast.SetComp, ast.DictComp, ast.GeneratorExp)):
                for gen in n.generators:
                    if ctx.kind(gen.iter) == "set":
                        add(n, "comp:" + type(n).__name__, gen.iter)
            elif isinstance(n, ast.Call):
                name = last_attr(n)
                if isinstance(n.func, ast.Name) and name in MATERIALISERS:
                    for a in n.args:
                        if ctx.kind(a) == "set":
                            add(n, f"materialise:{name}", a)
                elif isinstance(n.func, ast.Attribute) and name == "join" and n.args:
                    a = n.args[0]
                    if ctx.kind(a) == "set":
                        add(n, "join", a)
                    elif isinstance(a, ast.Call) and last_attr(a) == "map" and len(a.args) == 2 and ctx.kind(a.args[1]) == "set":
                        pass  # reported as materialise:map
                elif isinstance(n.func, ast.Attribute) and name == "pop" and not n.args and ctx.kind(n.func.value) == "set":
                    add(n, "pop", n.func.value)
                elif isinstance(n.func, ast.Name) and name in ("str", "repr") and n.args and ctx.kind(n.args[0]) == "set":
                    add(n, "format", n.args[0])
                elif isinstance(n.func, ast.Name) and name in MINMAX and n.args and ctx.kind(n.args[0]) == "set":
                    if any(k.arg == "key" for k in n.keywords):
                        add(n, "minmax-key", n.args[0])
                elif isinstance(n.func, ast.Attribute) and name in ("extend",) and n.args and ctx.kind(n.args[0]) == "set":
                    add(n, "materialise:extend", n.args[0])
                if isinstance(n.func, ast.Name) and name == "sorted":
                    for k in n.keywords:
                        if k.arg == "key" and _key_is_identity(k.value):
                            add(n, "sorted-by-id", n.args[0] if n.args else n, "sort key depends on memory addresses / hashes")
                for a in n.args:
                    if isinstance(a, ast.Starred) and ctx.kind(a.value) == "set":
                        add(n, "star", a.value)
            elif isinstance(n, (ast.List, ast.Tuple)) and isinstance(getattr(n, "ctx", None), ast.Load):
                for el in n.elts:
                    if isinstance(el, ast.Starred) and ctx.kind(el.value) == "set":
                        add(n, "star", el.value)
            elif isinstance(n, ast.FormattedValue) and ctx.kind(n.value) == "set":
                add(n, "format", n.value)
            elif isinstance(n, ast.YieldFrom) and ctx.kind(n.value) == "set":
                add(n, "yield-from", n.value)
            elif isinstance(n, ast.Assign) and any(isinstance(t, (ast.Tuple, ast.List)) for t in n.targets) and ctx.kind(n.value) == "set":
                add(n, "unpack", n.value)
        if depth > 0:
            out.extend(self._call_arg_sinks(ctx, depth))
        return out

    def resolve_callee(self, call: ast.Call, ctx: FunctionCtx) -> Optional[Tuple[str, str, ast.FunctionDef]]:
        name = last_attr(call)
        if name is None:
            return None
        if isinstance(call.func, ast.Name):
            key = f"{ctx.mod.name}::{name}"
            if key in self.prog.functions:
                return ctx.mod.name, name, self.prog.functions[key]
            src = self.imports.get((ctx.mod.name, name))
            if src is not None:
                key = f"{src[0]}::{src[1]}"
                if key in self.prog.functions:
                    return src[0], src[1], self.prog.functions[key]
            return None
        if isinstance(call.func, ast.Attribute) and isinstance(call.func.value, ast.Name) and call.func.value.id in ("self", "cls") and ctx.cls:
            f = self.prog.find_method(ctx.cls, name)
            if f is not None:
                return f[0].module.name, f"{f[0].name}.{name}", f[1]
            return None
        if isinstance(call.func, ast.Attribute):
            cands = [(m, q, f) for m, q, f in self.prog.iter_functions() if q.endswith("." + name) and q.count(".") == 1]
            if len(cands) == 1:
                return cands[0]
        return None

    def _call_arg_sinks(self, ctx: FunctionCtx, depth: int) -> List[Sink]:
        out: List[Sink] = []
        for n in ctx._walk():
            if not isinstance(n, ast.Call):
                continue
            set_args: List[Tuple[object, ast.AST]] = []
            for i, a in enumerate(n.args):
                if not isinstance(a, ast.Starred) and ctx.kind(a) == "set":
                    set_args.append((i, a))
            for k in n.keywords:
                if k.arg is not None and ctx.kind(k.value) == "set":
                    set_args.append((k.arg, k.value))
            if not set_args:
                continue
            callee = self.resolve_callee(n, ctx)
            if callee is None:
                continue
            cm, cq, cfn = callee
            params = [a.arg for a in cfn.args.posonlyargs + cfn.args.args]
            is_method = bool(params) and params[0] in ("self", "cls") and isinstance(n.func, ast.Attribute)
            for pos, a in set_args:
                if isinstance(pos, int):
                    idx = pos + (1 if is_method else 0)
                    if idx >= len(params):
                        continue
                    pname = params[idx]
                else:
                    pname = str(pos)
                    if pname not in params + [x.arg for x in cfn.args.kwonlyargs]:
                        continue
                # parameter already declared as a set: its own sinks are reported in the callee
                for arg in cfn.args.posonlyargs + cfn.args.args + cfn.args.kwonlyargs:
                    if arg.arg == pname and ann_kind(arg.annotation) == "set":
                        pname = ""
                if not pname:
                    continue
                cctx = FunctionCtx(self, self.prog.module(cm), cfn, cq, ctx.cls if is_method else None)
                cctx.forced[pname] = "set"
                cctx.local.pop(pname, None)
                cctx._infer()
                inner = [s for s in self.sinks_in(cctx, depth - 1) if _mentions(s.source_expr, pname) or s.origin.startswith(f"param:{pname}")]
                for s in inner:
                    out.append(
                        Sink(
                            ctx.mod.name,
                            ctx.qualname,
                            n,
                            f"call-arg:{cq}",
                            ctx.origin(a),
                            a,
                            detail=f"parameter `{pname}` of {cm}::{cq} reaches [{s.kind}] at line {s.lineno}",
                        )
                    )
                    out[-1].inner = s  # type: ignore[attr-defined]
                    out[-1].inner_ctx = cctx  # type: ignore[attr-defined]
        return out


def _mentions(e: ast.AST, name: str) -> bool:
    return any(isinstance(n, ast.Name) and n.id == name for n in ast.walk(e))


def _literal_kind(val: ast.AST) -> Optional[str]:
    if isinstance(val, (ast.Set, ast.SetComp)):
        return "set"
    if isinstance(val, ast.Call):
        name = last_attr(val)
        if isinstance(val.func, ast.Name) and name in ("set", "frozenset"):
            return "set"
        if isinstance(val.func, ast.Name) and name == "defaultdict" and val.args:
            a0 = val.args[0]
            if isinstance(a0, ast.Name) and a0.id in ("set", "frozenset"):
                return "dictset"
        if name == "field":
            for k in val.keywords:
                if k.arg == "default_factory" and isinstance(k.value, ast.Name) and k.value.id in ("set", "frozenset"):
                    return "set"
                if k.arg == "default_factory" and isinstance(k.value, ast.Lambda):
                    return _literal_kind(k.value.body)
    if isinstance(val, ast.BinOp) and isinstance(val.op, SET_OPS):
        if _literal_kind(val.left) == "set" or _literal_kind(val.right) == "set":
            return "set"
    return None


def _key_is_identity(k: ast.AST) -> bool:
    if isinstance(k, ast.Name) and k.id in ("id", "hash"):
        return True
    if isinstance(k, ast.Lambda):
        for n in ast.walk(k.body):
            if isinstance(n, ast.Call) and isinstance(n.func, ast.Name) and n.func.id in ("id", "hash"):
                return True
    return False
