"""E1 - program model: parsed modules, classes, hierarchy, dataclass semantics,
functions, module-level constants. Source only; pyanalyze is never imported."""

from __future__ import annotations

import ast
import hashlib
import os
from dataclasses import dataclass, field
from typing import Dict, Iterable, Iterator, List, Optional, Sequence, Set, Tuple


class AnchorError(Exception):
    """A construct a rule is anchored on could not be found (exit 2)."""


def repo_root() -> str:
    return os.environ.get("VERIF_REPO", "/repo")


def is_test_module(name: str) -> bool:
    return name.startswith("test_") or name in ("tests", "conftest")


@dataclass
class Module:
    name: str
    path: str
    source: str
    tree: ast.Module
    lines: List[str]

    def rel(self) -> str:
        return "pyanalyze/" + os.path.basename(self.path)


@dataclass
class FieldInfo:
    name: str
    annotation: Optional[ast.expr]
    default: Optional[ast.expr]
    compare: bool = True
    hash: Optional[bool] = None
    init: bool = True
    repr: bool = True
    is_initvar: bool = False
    is_classvar: bool = False
    owner: str = ""
    lineno: int = 0


@dataclass
class ClassInfo:
    name: str
    module: Module
    node: ast.ClassDef
    base_names: List[str]
    is_dataclass: bool = False
    dc_params: Dict[str, object] = field(default_factory=dict)
    own_fields: List[FieldInfo] = field(default_factory=list)
    methods: Dict[str, ast.FunctionDef] = field(default_factory=dict)
    class_assigns: Dict[str, ast.expr] = field(default_factory=dict)

    @property
    def qual(self) -> str:
        return f"{self.module.name}.{self.name}"


def set_parents(tree: ast.AST) -> None:
    for node in ast.walk(tree):
        for child in ast.iter_child_nodes(node):
            child._parent = node  # type: ignore[attr-defined]


def parent(node: ast.AST) -> Optional[ast.AST]:
    return getattr(node, "_parent", None)


def ancestors(node: ast.AST) -> Iterator[ast.AST]:
    p = parent(node)
    while p is not None:
        yield p
        p = parent(p)


def enclosing_function(node: ast.AST) -> Optional[ast.AST]:
    for a in ancestors(node):
        if isinstance(a, (ast.FunctionDef, ast.AsyncFunctionDef, ast.Lambda)):
            return a
    return None


def dotted(node: ast.AST) -> Optional[str]:
    """`a.b.c` -> 'a.b.c' for Name/Attribute chains, else None."""
    parts: List[str] = []
    while isinstance(node, ast.Attribute):
        parts.append(node.attr)
        node = node.value
    if isinstance(node, ast.Name):
        parts.append(node.id)
        return ".".join(reversed(parts))
    return None


def call_name(node: ast.AST) -> Optional[str]:
    if isinstance(node, ast.Call):
        return dotted(node.func)
    return None


def last_attr(node: ast.AST) -> Optional[str]:
    """The called simple name: f(...) -> f ; a.b.f(...) -> f."""
    if isinstance(node, ast.Call):
        node = node.func
    if isinstance(node, ast.Attribute):
        return node.attr
    if isinstance(node, ast.Name):
        return node.id
    return None


def norm(node: ast.AST) -> str:
    try:
        return ast.unparse(node)
    except Exception:  # pragma: no cover
        return ast.dump(node)


def kw(call: ast.Call, name: str) -> Optional[ast.expr]:
    for k in call.keywords:
        if k.arg == name:
            return k.value
    return None


def const_bool(node: Optional[ast.expr], default: bool) -> bool:
    if isinstance(node, ast.Constant) and isinstance(node.value, bool):
        return node.value
    return default


def walk_no_nested(node: ast.AST, *, include_self: bool = False) -> Iterator[ast.AST]:
    """Walk the body of a function/node without descending into nested
    function/class/lambda definitions."""
    stack: List[ast.AST] = [node] if include_self else list(ast.iter_child_nodes(node))
    while stack:
        n = stack.pop()
        yield n
        if isinstance(n, (ast.FunctionDef, ast.AsyncFunctionDef, ast.ClassDef, ast.Lambda)):
            if n is not node:
                continue
        stack.extend(ast.iter_child_nodes(n))


class Program:
    def __init__(self, root: Optional[str] = None) -> None:
        self.root = root or repo_root()
        self.pkg = os.path.join(self.root, "pyanalyze")
        self.modules: Dict[str, Module] = {}
        self.classes: Dict[str, ClassInfo] = {}  # simple name -> info (unique names asserted)
        self.classes_by_qual: Dict[str, ClassInfo] = {}
        self.dup_class_names: Dict[str, List[ClassInfo]] = {}
        self.functions: Dict[str, ast.FunctionDef] = {}  # "module::qualname"
        self._subclasses: Optional[Dict[str, Set[str]]] = None
        self.parse_errors: List[str] = []
        self._load()

    # ------------------------------------------------------------------ load
    def _load(self) -> None:
        if not os.path.isdir(self.pkg):
            raise AnchorError(f"package directory {self.pkg} not found")
        for fn in sorted(os.listdir(self.pkg)):
            if not fn.endswith(".py"):
                continue
            name = fn[:-3]
            if is_test_module(name):
                continue
            path = os.path.join(self.pkg, fn)
            with open(path, encoding="utf-8") as f:
                src = f.read()
            try:
                tree = ast.parse(src, filename=path)
            except SyntaxError as e:
                raise AnchorError(f"{path} does not parse: {e}")
            set_parents(tree)
            mod = Module(name, path, src, tree, src.splitlines())
            self.modules[name] = mod
            self._index_module(mod)

    def _index_module(self, mod: Module) -> None:
        def visit(body: Sequence[ast.stmt], prefix: str, in_class: Optional[ClassInfo]) -> None:
            for st in body:
                if isinstance(st, (ast.FunctionDef, ast.AsyncFunctionDef)):
                    q = f"{prefix}{st.name}"
                    key = f"{mod.name}::{q}"
                    # overloads / conditional redefinitions: keep the last one but
                    # also keep all under key#n
                    n = 1
                    while f"{key}#{n}" in self.functions:
                        n += 1
                    self.functions[f"{key}#{n}"] = st  # type: ignore[assignment]
                    self.functions[key] = st  # type: ignore[assignment]
                    if in_class is not None:
                        in_class.methods[st.name] = st  # type: ignore[assignment]
                    visit(st.body, q + ".", None)
                elif isinstance(st, ast.ClassDef):
                    info = self._class_info(mod, st)
                    if st.name in self.classes and prefix == "":
                        self.dup_class_names.setdefault(st.name, [self.classes[st.name]]).append(info)
                    if prefix == "" or st.name not in self.classes:
                        # top-level classes win over nested ones
                        if prefix == "" or st.name not in self.classes:
                            self.classes[st.name] = info
                    self.classes_by_qual[f"{mod.name}.{prefix}{st.name}"] = info
                    visit(st.body, f"{prefix}{st.name}.", info)
                elif isinstance(st, (ast.If, ast.Try)):
                    for sub in _stmt_bodies(st):
                        visit(sub, prefix, in_class)
                elif in_class is not None:
                    if isinstance(st, ast.Assign):
                        for t in st.targets:
                            if isinstance(t, ast.Name):
                                in_class.class_assigns[t.id] = st.value

        visit(mod.tree.body, "", None)

    def _class_info(self, mod: Module, node: ast.ClassDef) -> ClassInfo:
        bases = []
        for b in node.bases:
            if isinstance(b, ast.Subscript):
                b = b.value
            d = dotted(b)
            if d:
                bases.append(d.split(".")[-1])
        info = ClassInfo(node.name, mod, node, bases)
        for dec in node.decorator_list:
            d = dotted(dec.func if isinstance(dec, ast.Call) else dec)
            if d and d.split(".")[-1] == "dataclass":
                info.is_dataclass = True
                params = {
                    "init": True,
                    "repr": True,
                    "eq": True,
                    "order": False,
                    "unsafe_hash": False,
                    "frozen": False,
                }
                if isinstance(dec, ast.Call):
                    for k in dec.keywords:
                        if k.arg in params and isinstance(k.value, ast.Constant):
                            params[k.arg] = k.value.value
                info.dc_params = params
        for st in node.body:
            if isinstance(st, ast.AnnAssign) and isinstance(st.target, ast.Name):
                fi = FieldInfo(st.target.id, st.annotation, st.value, owner=node.name, lineno=st.lineno)
                ann = norm(st.annotation)
                if ann.startswith("ClassVar") or ann.startswith("typing.ClassVar"):
                    fi.is_classvar = True
                if ann.startswith("InitVar") or ann.startswith("dataclasses.InitVar"):
                    fi.is_initvar = True
                if isinstance(st.value, ast.Call) and last_attr(st.value) == "field":
                    fi.compare = const_bool(kw(st.value, "compare"), True)
                    h = kw(st.value, "hash")
                    if isinstance(h, ast.Constant) and isinstance(h.value, bool):
                        fi.hash = h.value
                    fi.init = const_bool(kw(st.value, "init"), True)
                    fi.repr = const_bool(kw(st.value, "repr"), True)
                info.own_fields.append(fi)
        return info

    # ------------------------------------------------------------- hierarchy
    def mro(self, cname: str) -> List[ClassInfo]:
        """Linearised ancestors inside the package (C3 not needed: the package
        uses single inheritance chains plus Protocol/Enum/Generic mixins)."""
        out: List[ClassInfo] = []
        seen: Set[str] = set()

        def rec(n: str) -> None:
            if n in seen or n not in self.classes:
                return
            seen.add(n)
            ci = self.classes[n]
            out.append(ci)
            for b in ci.base_names:
                rec(b)

        rec(cname)
        return out

    def ancestors_names(self, cname: str) -> List[str]:
        return [c.name for c in self.mro(cname)]

    def all_base_names(self, cname: str) -> Set[str]:
        """Names of every ancestor: in-package classes and the (unresolved)
        external base names they list (Enum, Protocol, ast.NodeVisitor...)."""
        out: Set[str] = set()
        for ci in self.mro(cname):
            out.add(ci.name)
            out.update(ci.base_names)
        return out

    def is_subclass(self, cname: str, base: str) -> bool:
        if cname == base:
            return True
        if cname not in self.classes:
            return False
        return base in self.all_base_names(cname)

    def subclasses(self, base: str, *, strict: bool = False) -> List[str]:
        out = []
        for n in self.classes:
            if self.is_subclass(n, base) and not (strict and n == base):
                out.append(n)
        return sorted(out)

    def find_method(self, cname: str, meth: str) -> Optional[Tuple[ClassInfo, ast.FunctionDef]]:
        for ci in self.mro(cname):
            if meth in ci.methods:
                return ci, ci.methods[meth]
        return None

    def all_fields(self, cname: str) -> List[FieldInfo]:
        """Dataclass fields in definition order (base first, overrides keep
        position), as dataclasses.fields() would list them, plus InitVars
        flagged (ClassVars dropped)."""
        fields: Dict[str, FieldInfo] = {}
        for ci in reversed(self.mro(cname)):
            if not ci.is_dataclass:
                continue
            for f in ci.own_fields:
                if f.is_classvar:
                    continue
                fields[f.name] = f
        return list(fields.values())

    # --------------------------------------------------------------- lookups
    def module(self, name: str) -> Module:
        if name not in self.modules:
            raise AnchorError(f"module pyanalyze/{name}.py not found")
        return self.modules[name]

    def func(self, module: str, qualname: str) -> ast.FunctionDef:
        key = f"{module}::{qualname}"
        if key not in self.functions:
            raise AnchorError(f"function {key} not found")
        return self.functions[key]

    def has_func(self, module: str, qualname: str) -> bool:
        return f"{module}::{qualname}" in self.functions

    def cls(self, name: str) -> ClassInfo:
        if name not in self.classes:
            raise AnchorError(f"class {name} not found")
        return self.classes[name]

    def iter_functions(self) -> Iterator[Tuple[str, str, ast.FunctionDef]]:
        """(module, qualname, node) for every def (each once)."""
        for key, fn in self.functions.items():
            if "#" not in key:
                continue
            base, _ = key.rsplit("#", 1)
            m, q = base.split("::", 1)
            yield m, q, fn

    def qualname_of(self, mod: Module, node: ast.AST) -> str:
        parts: List[str] = []
        n: Optional[ast.AST] = node
        while n is not None:
            if isinstance(n, (ast.FunctionDef, ast.AsyncFunctionDef, ast.ClassDef)):
                parts.append(n.name)
            n = parent(n)
        return ".".join(reversed(parts)) or "<module>"

    def module_assign(self, module: str, name: str) -> ast.expr:
        mod = self.module(module)
        found: Optional[ast.expr] = None
        for st in ast.walk(mod.tree):
            if isinstance(st, ast.Assign) and parent(st) is mod.tree or (
                isinstance(st, ast.Assign) and isinstance(parent(st), (ast.If, ast.Try)) and parent(parent(st)) is mod.tree
            ):
                for t in st.targets:
                    if isinstance(t, ast.Name) and t.id == name:
                        found = st.value
            elif isinstance(st, ast.AnnAssign) and parent(st) is mod.tree:
                if isinstance(st.target, ast.Name) and st.target.id == name and st.value is not None:
                    found = st.value
        if found is None:
            raise AnchorError(f"module-level assignment {module}.{name} not found")
        return found

    def enum_members(self, cname: str) -> List[str]:
        ci = self.cls(cname)
        out = []
        for st in ci.node.body:
            if isinstance(st, ast.Assign):
                for t in st.targets:
                    if isinstance(t, ast.Name) and not t.id.startswith("_"):
                        out.append(t.id)
            elif isinstance(st, ast.AnnAssign) and isinstance(st.target, ast.Name) and st.value is not None:
                out.append(st.target.id)
        return out

    def digest(self) -> str:
        h = hashlib.sha256()
        for name in sorted(self.modules):
            h.update(name.encode())
            h.update(self.modules[name].source.encode())
        return h.hexdigest()[:16]

    def stats(self) -> Dict[str, int]:
        return {
            "modules": len(self.modules),
            "classes": len(self.classes_by_qual),
            "functions": sum(1 for _ in self.iter_functions()),
            "lines": sum(len(m.lines) for m in self.modules.values()),
        }

    def site(self, mod: Module | str, node: ast.AST) -> str:
        if isinstance(mod, str):
            mod = self.module(mod)
        return f"{mod.rel()}:{getattr(node, 'lineno', 0)}"

    def module_of(self, node: ast.AST) -> Module:
        n: Optional[ast.AST] = node
        while n is not None and not isinstance(n, ast.Module):
            n = parent(n)
        for m in self.modules.values():
            if m.tree is n:
                return m
        raise AnchorError("node does not belong to a loaded module")


def _stmt_bodies(st: ast.stmt) -> Iterable[Sequence[ast.stmt]]:
    if isinstance(st, ast.If):
        yield st.body
        yield st.orelse
    elif isinstance(st, ast.Try):
        yield st.body
        for h in st.handlers:
            yield h.body
        yield st.orelse
        yield st.finalbody
