"""E7 - guarded-action extraction by finite truth-table evaluation.

A handler written as an if/elif/else tree over opaque boolean atoms is run, for
every valuation of its atoms, by a tiny interpreter that maps statements to
abstract *actions*.  No solver: atoms are recognised syntactically, every
valuation of the (few) atoms is enumerated, unknown tests fork both ways and
must agree.
"""

from __future__ import annotations

import ast
import itertools
from dataclasses import dataclass, field
from typing import Callable, Dict, List, Optional, Sequence, Set, Tuple

from .model import norm

Valuation = Dict[str, bool]


class Unclassified(Exception):
    pass


@dataclass
class Trace:
    actions: List[str] = field(default_factory=list)
    returned: Optional[str] = None  # "None" | "value" | None (fell through)
    markers: Dict[str, str] = field(default_factory=dict)  # local marker variables


class Evaluator:
    def __init__(
        self,
        atom_of: Callable[[ast.AST], Optional[Tuple[str, bool]]],
        action_of: Callable[[ast.stmt, "Trace"], Optional[List[str]]],
    ) -> None:
        self.atom_of = atom_of
        self.action_of = action_of
        self.unknown_tests: Set[str] = set()

    def truth(self, test: ast.AST, val: Valuation) -> Optional[bool]:
        if isinstance(test, ast.BoolOp):
            vals = [self.truth(v, val) for v in test.values]
            if isinstance(test.op, ast.And):
                if any(v is False for v in vals):
                    return False
                if all(v is True for v in vals):
                    return True
                return None
            if any(v is True for v in vals):
                return True
            if all(v is False for v in vals):
                return False
            return None
        if isinstance(test, ast.UnaryOp) and isinstance(test.op, ast.Not):
            v = self.truth(test.operand, val)
            return None if v is None else not v
        if isinstance(test, ast.Constant):
            return bool(test.value)
        a = self.atom_of(test)
        if a is None:
            self.unknown_tests.add(norm(test))
            return None
        name, pol = a
        if name not in val:
            return None
        return val[name] if pol else not val[name]

    def run_block(self, stmts: Sequence[ast.stmt], val: Valuation, tr: Trace) -> List[Trace]:
        traces = [tr]
        for st in stmts:
            nxt: List[Trace] = []
            for t in traces:
                if t.returned is not None:
                    nxt.append(t)
                    continue
                nxt.extend(self.run_stmt(st, val, t))
            traces = nxt
        return traces

    def run_stmt(self, st: ast.stmt, val: Valuation, tr: Trace) -> List[Trace]:
        if isinstance(st, ast.If):
            v = self.truth(st.test, val)
            outs: List[Trace] = []
            if v is True or v is None:
                outs.extend(self.run_block(st.body, val, _copy(tr)))
            if v is False or v is None:
                outs.extend(self.run_block(st.orelse, val, _copy(tr)))
            return outs
        if isinstance(st, ast.Return):
            tr.returned = "None" if (st.value is None or (isinstance(st.value, ast.Constant) and st.value.value is None)) else "value"
            tr.actions.append("RETURN_" + tr.returned.upper())
            return [tr]
        if isinstance(st, (ast.While, ast.For)):
            acts = self.action_of(st, tr)
            if acts:
                tr.actions.extend(acts)
            return [tr]
        acts = self.action_of(st, tr)
        if acts:
            tr.actions.extend(acts)
        return [tr]


def _copy(tr: Trace) -> Trace:
    return Trace(list(tr.actions), tr.returned, dict(tr.markers))


def truth_table(
    stmts: Sequence[ast.stmt],
    atoms: Sequence[str],
    fixed: Valuation,
    ev: Evaluator,
) -> Dict[Tuple[Tuple[str, bool], ...], List[List[str]]]:
    """valuation of the free atoms -> set of action sequences (one per
    non-deterministic fork on unknown tests)."""
    out: Dict[Tuple[Tuple[str, bool], ...], List[List[str]]] = {}
    for bits in itertools.product([True, False], repeat=len(atoms)):
        val = dict(fixed)
        val.update(dict(zip(atoms, bits)))
        traces = ev.run_block(stmts, val, Trace())
        seqs: List[List[str]] = []
        for t in traces:
            if t.actions not in seqs:
                seqs.append(t.actions)
        out[tuple(zip(atoms, bits))] = seqs
    return out
