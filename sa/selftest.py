"""Thorough tier: validate the checkers themselves.

For every property a catalogue of single-site source edits is applied to a
scratch copy of /repo/pyanalyze (under $(mktemp -d), removed afterwards):

* BREAK  edits violate the clause a rule decides: the check must exit 1 and a
  reported construct key must contain the expected fragment;
* KEEP   edits preserve behaviour (renames, reorderings, equivalent forms):
  the check must stay silent (exit 0).

An edit whose anchor text is no longer present in the tree is skipped (the
tree moved on), never counted as a failure.  The variants are compiled with
``compile()`` before the check runs.  Nothing here executes pyanalyze.
"""

from __future__ import annotations

import concurrent.futures
import json
import os
import shutil
import subprocess
import sys
import tempfile
from dataclasses import dataclass
from typing import Dict, List, Optional, Tuple

from .model import repo_root

VERIF = os.path.dirname(os.path.dirname(os.path.abspath(__file__)))


@dataclass
class Edit:
    prop: str
    name: str
    file: str  # relative to pyanalyze/
    old: str
    new: str
    kind: str  # BREAK | KEEP
    expect: str = ""  # fragment of a construct key / rule that must be reported (BREAK)
    count: int = 1  # how many occurrences of `old` are expected (the first is replaced)


def _cat() -> List[Edit]:
    E = Edit
    c: List[Edit] = []
    # ------------------------------------------------------------------ C01
    c += [
        E("C01", "ifexp-drops-else", "name_check_visitor.py", "        return unite_values(then_val, else_val)\n", "        return then_val\n", "BREAK", "visit_IfExp::join"),
        E("C01", "compare-skips-result", "name_check_visitor.py", "            result, _ = unannotate_value(result, ConstraintExtension)\n            results.append(result)\n", "            result, _ = unannotate_value(result, ConstraintExtension)\n            if i > 1:\n                continue\n            results.append(result)\n", "BREAK", "visit_Compare::join"),
        E("C01", "subscript-filters-members", "name_check_visitor.py", "                for val in root_composite.value.vals\n            ]\n            return_value = unite_values(*values)", "                for val in root_composite.value.vals\n                if not isinstance(val, AnyValue)\n            ]\n            return_value = unite_values(*values)", "BREAK", "composite_from_subscript::join"),
        E("C01", "delete-visit_Starred", "name_check_visitor.py", "    def visit_Starred(self, node: ast.Starred)", "    def _visit_starred_unused(self, node: ast.Starred)", "BREAK", "visit_Starred"),
        E("C01", "neg-index-off-by-two", "implementation.py", "index_from_back = -key.val - 1", "index_from_back = -key.val + 1", "BREAK", "scan-from-back::position"),
        E("C01", "neg-index-invert-form", "implementation.py", "index_from_back = -key.val - 1", "index_from_back = ~key.val", "KEEP"),
        E("C01", "front-scan-compares-before-giving-up", "implementation.py", "                                if is_many:\n                                    # Give up\n                                    break\n                                if i == key.val:\n                                    return member", "                                if i == key.val:\n                                    return member\n                                if is_many:\n                                    # Give up\n                                    break", "BREAK", "scan-from-front::gives-up"),
        E("C01", "match-guard-only-if-narrowing", "name_check_visitor.py", "                            self.add_constraint(case.guard, guard_constraint)\n                            constraints.append(guard_constraint)", "                            self.add_constraint(case.guard, guard_constraint)\n                            if guard_constraint is not NULL_CONSTRAINT:\n                                constraints.append(guard_constraint)", "BREAK", "guard-constraint-unconditional"),
        E("C01", "origin-overlap-test", "stacked_scopes.py", "            if current_set - constraint_set:\n                return", "            if current_set.isdisjoint(constraint_set):\n                return", "BREAK", "origin-subset"),
        E("C01", "origin-subset-le-form", "stacked_scopes.py", "            if current_set - constraint_set:\n                return", "            if not current_set <= constraint_set:\n                return", "KEEP"),
        E("C01", "rename-locals-ifexp", "name_check_visitor.py", "            then_val = self.visit(node.body)", "            then_val = self.visit(node.body)  # reformatted", "KEEP"),
    ]
    # ------------------------------------------------------------------ C02
    c += [
        E("C02", "any-negative-dropped", "stacked_scopes.py", "                if self.positive:\n                    yield TypedValue(self.value)\n                else:\n                    yield inner_value", "                if self.positive:\n                    yield TypedValue(self.value)", "BREAK", "arm=is_instance-::dropped=AnyValue"),
        E("C02", "remove-unhandled-default", "stacked_scopes.py", "            else:\n                # Other kinds of values (e.g., type variables, type aliases,\n                # unbound methods) are not narrowed, but they must not be dropped.\n                yield value\n", "", "BREAK", "dropped=TypeVarValue"),
        E("C02", "widen-to-any", "stacked_scopes.py", "                if self.positive:\n                    yield TypedValue(self.value)\n                else:\n                    yield inner_value", "                if self.positive:\n                    yield AnyValue(AnySource.inference)\n                else:\n                    yield inner_value", "BREAK", "R02.b"),
        E("C02", "and-invert-keeps-and", "stacked_scopes.py", "        # ~(A and B) -> ~A or ~B\n        return OrConstraint(tuple(cons.invert() for cons in self.constraints))", "        # ~(A and B) -> ~A or ~B\n        return AndConstraint(tuple(cons.invert() for cons in self.constraints))", "BREAK", "AndConstraint.invert"),
        E("C02", "lt-complement-le", "name_check_visitor.py", "    ast.Lt: (operator.lt, operator.ge, Lt),", "    ast.Lt: (operator.lt, operator.gt, Lt),", "BREAK", "COMPARATOR_TO_OPERATOR::Lt"),
        E("C02", "safely-false-includes-mutable", "boolability.py", "        return self is Boolability.value_always_false\n", "        return self in _FALSE_BOOLABILITIES\n", "BREAK", "is_safely_false"),
        E("C02", "swap-empty-tuple-verdict", "boolability.py", "            if value.typ is tuple:\n                return Boolability.value_always_false\n            else:\n                return Boolability.value_always_false_mutable", "            if value.typ is tuple:\n                return Boolability.value_always_true\n            else:\n                return Boolability.value_always_false_mutable", "BREAK", "polarity::value_always_true"),
        E("C02", "equalspredicate-rename", "predicates.py", "        inner_value = unannotate(value)\n        if isinstance(inner_value, KnownValue):\n            op = _OPERATOR[(positive, self.use_is)]", "        stripped = unannotate(value)\n        inner_value = stripped\n        if isinstance(inner_value, KnownValue):\n            op = _OPERATOR[(positive, self.use_is)]", "KEEP"),
    ]
    # ------------------------------------------------------------------ C03
    c += [
        E("C03", "float-to-int-promotion", "type_object.py", "        if self.typ is float or safe_in(float, self.base_classes):\n            self.artificial_bases.add(complex)", "        if self.typ is float or safe_in(float, self.base_classes):\n            self.artificial_bases.add(complex)\n            self.artificial_bases.add(int)", "BREAK", "no-other-promotion"),
        E("C03", "drop-int-complex", "type_object.py", "            self.artificial_bases.add(float)\n            self.artificial_bases.add(complex)\n", "            self.artificial_bases.add(float)\n", "BREAK", "int->complex"),
        E("C03", "literal-eq-not-type-strict", "value.py", "            if safe_equals(self.val, other.val) and type(self.val) is type(other.val):\n                return {}", "            if safe_equals(self.val, other.val):\n                return {}", "BREAK", "KnownValue.can_assign::type-strict"),
        E("C03", "drop-set-decomposition", "value.py", "        if isinstance(value.val, (list, tuple, set, frozenset)):", "        if isinstance(value.val, (list, tuple, frozenset)):", "BREAK", "decomposes=set"),
    ]
    # ------------------------------------------------------------------ C04
    c += [
        E("C04", "any-accept-ignores-flag-polarity", "value.py", "        if isinstance(other, AnyValue) and not ctx.should_exclude_any():\n            ctx.record_any_used()\n            return {}\n        elif isinstance(other, MultiValuedValue):\n            # The bottom type", "        if isinstance(other, AnyValue) and ctx.should_exclude_any():\n            ctx.record_any_used()\n            return {}\n        elif isinstance(other, MultiValuedValue):\n            # The bottom type", "BREAK", "should_exclude_any-read"),
        E("C04", "newtype-rejects-never", "value.py", "        elif isinstance(other, KnownValue):\n            if self.typ is not type(other.val):\n                return CanAssignError(f\"Cannot assign {other} to {self}\")\n        return super().can_assign(other, ctx)", "        elif isinstance(other, KnownValue):\n            if self.typ is not type(other.val):\n                return CanAssignError(f\"Cannot assign {other} to {self}\")\n        elif isinstance(other, MultiValuedValue) and not other.vals:\n            return CanAssignError(f\"Cannot assign {other} to {self}\")\n        return super().can_assign(other, ctx)", "BREAK", "NewTypeValue.can_assign::other=Never"),
        E("C04", "union-right-exists-instead-of-forall", "value.py", "            for val in other.vals:\n                can_assign = self.can_assign(val, ctx)\n                if isinstance(can_assign, CanAssignError):\n                    # Adding an additional layer here isn't helpful\n                    return can_assign\n                bounds_maps.append(can_assign)\n            return unify_bounds_maps(bounds_maps)\n        elif isinstance(other, (AnnotatedValue, TypeVarValue, TypeAliasValue)):", "            for val in other.vals:\n                can_assign = self.can_assign(val, ctx)\n                if isinstance(can_assign, CanAssignError):\n                    continue\n                bounds_maps.append(can_assign)\n            return unify_bounds_maps(bounds_maps)\n        elif isinstance(other, (AnnotatedValue, TypeVarValue, TypeAliasValue)):", "BREAK", "Value.can_assign::forall-members"),
        E("C04", "sequence-rejects-any", "value.py", "        other = replace_known_sequence_value(other)\n        if isinstance(other, SequenceValue):\n            can_assign = self.get_type_object(ctx).can_assign(self, other, ctx)", "        other = replace_known_sequence_value(other)\n        if isinstance(other, AnyValue) and self.members:\n            return CanAssignError(\"Any is not a sequence\")\n        if isinstance(other, SequenceValue):\n            can_assign = self.get_type_object(ctx).can_assign(self, other, ctx)", "BREAK", "SequenceValue.can_assign::other=AnyValue"),
        E("C04", "drop-record-any", "value.py", "        if isinstance(other, AnyValue) and not ctx.should_exclude_any():\n            ctx.record_any_used()\n            return {}\n        elif isinstance(other, MultiValuedValue):\n            # The bottom type", "        if isinstance(other, AnyValue) and not ctx.should_exclude_any():\n            return {}\n        elif isinstance(other, MultiValuedValue):\n            # The bottom type", "BREAK", "records-any"),
    ]
    # ------------------------------------------------------------------ C05
    c += [
        E("C05", "posonly-default-before-positional", "signature.py", "                elif param.default is not None:\n                    bound_args[param.name] = DEFAULT, Composite(param.default)\n                elif actual_args.ellipsis:\n                    bound_args[param.name] = UNKNOWN, ELLIPSIS_COMPOSITE", "                elif param.default is not None and False:\n                    bound_args[param.name] = DEFAULT, Composite(param.default)\n                elif actual_args.ellipsis:\n                    bound_args[param.name] = UNKNOWN, ELLIPSIS_COMPOSITE", "BREAK", "POSITIONAL_ONLY"),
        E("C05", "pok-double-binding-accepted", "signature.py", "                        else:\n                            self.show_call_error(\n                                f\"Parameter '{param.name}' provided as both a\"\n                                \" positional and a keyword argument\",\n                                ctx,\n                            )\n                            return None", "                        else:\n                            keywords_consumed.add(param.name)", "BREAK", "POSITIONAL_OR_KEYWORD::HAS_POS=1,HAS_KW=1"),
        E("C05", "error-without-return", "signature.py", "                    self.show_call_error(\n                        f\"Missing required argument '{param.name}'\", ctx\n                    )\n                    return None\n            elif param.kind is ParameterKind.KEYWORD_ONLY:", "                    self.show_call_error(\n                        f\"Missing required argument '{param.name}'\", ctx\n                    )\n            elif param.kind is ParameterKind.KEYWORD_ONLY:", "BREAK", "R05"),
        E("C05", "leftover-keywords-ignored", "signature.py", "            if extra_kwargs:\n                extra_kwargs_str", "            if extra_kwargs and len(extra_kwargs) > 1:\n                extra_kwargs_str", "BREAK", "leftover-keywords"),
        E("C05", "kwonly-consumes-positional", "signature.py", "            elif param.kind is ParameterKind.KEYWORD_ONLY:\n                if param.name in actual_args.keywords:", "            elif param.kind is ParameterKind.KEYWORD_ONLY:\n                if positional_index < len(actual_args.positionals) and param.default is None:\n                    bound_args[param.name] = (positional_index, actual_args.positionals[positional_index][1])\n                    positional_index += 1\n                elif param.name in actual_args.keywords:", "BREAK", "KEYWORD_ONLY"),
        E("C05", "caller-drops-none-test", "signature.py", "        bound_args = self.bind_arguments(preprocessed, ctx)\n        if bound_args is None:\n            return self.get_default_return()\n", "        bound_args = self.bind_arguments(preprocessed, ctx) or {}\n", "BREAK", "none-tested"),
    ]
    # ------------------------------------------------------------------ C06
    c += [
        E("C06", "typevar-prepass-ignores-failure", "signature.py", "                if bounds_map is None:\n                    return self.get_default_return()\n                else:\n                    bounds_maps.append(bounds_map)", "                if bounds_map is not None:\n                    bounds_maps.append(bounds_map)", "BREAK", "none-tested#1"),
        E("C06", "impl-runs-after-error", "signature.py", "        if not had_error:\n            # Unfortunately we can't make", "        if True:\n            # Unfortunately we can't make", "BREAK", "impl-skipped-on-error"),
        E("C06", "unsubstituted-type-checked", "signature.py", "            bounds_map, used_any = can_assign_and_used_any(\n                param_typ, composite.value, ctx.can_assign_ctx\n            )", "            bounds_map, used_any = can_assign_and_used_any(\n                param.annotation, composite.value, ctx.can_assign_ctx\n            )", "BREAK", "substituted-type"),
        E("C06", "is_error-dropped", "signature.py", "            is_error=had_error,\n            used_any_for_match=used_any,", "            is_error=False,\n            used_any_for_match=used_any,", "BREAK", "flag-reaches-result"),
    ]
    # ------------------------------------------------------------------ C07
    c += [
        E("C07", "covariant-parameters", "signature.py", "                    their_annotation = their_param.get_annotation()\n                    tv_map = their_annotation.can_assign(my_annotation, ctx)", "                    their_annotation = their_param.get_annotation()\n                    tv_map = my_annotation.can_assign(their_annotation, ctx)", "BREAK", "variance::parameter"),
        E("C07", "contravariant-return", "signature.py", "        return_tv_map = my_return.can_assign(their_return, ctx)", "        return_tv_map = their_return.can_assign(my_return, ctx)", "BREAK", "variance::return"),
        E("C07", "kwonly-default-obligation-dropped", "signature.py", "                    if my_param.default is not None and their_param.default is None:\n                        return CanAssignError(\n                            f\"keyword-only param {my_param.name!r} has no default\"\n                        )\n", "", "BREAK", "default-obligation"),
        E("C07", "varkw-helper-flipped", "signature.py", "        can_assign = value_arg.can_assign(my_annotation, ctx)", "        can_assign = my_annotation.can_assign(value_arg, ctx)", "BREAK", "can_assign_var_keyword::variance"),
        E("C07", "tail-ignores-kwonly", "signature.py", "                elif param.kind is ParameterKind.KEYWORD_ONLY:\n                    if param.name not in consumed_keyword:\n                        return CanAssignError(f\"takes extra parameter {param.name!r}\")", "                elif param.kind is ParameterKind.KEYWORD_ONLY:\n                    continue", "BREAK", "tail::KEYWORD_ONLY"),
    ]
    # ------------------------------------------------------------------ C08
    c += [
        E("C08", "iterate-set-of-signatures", "signature.py", "        for sig in self.signatures:\n            with visitor.catch_errors() as caught_errors:\n                bound_args = sig.bind_arguments(actual_args, ctx)", "        for sig in set(self.signatures):\n            with visitor.catch_errors() as caught_errors:\n                bound_args = sig.bind_arguments(actual_args, ctx)", "BREAK", "overload-model::"),
        E("C08", "any-match-returns-early", "signature.py", "            elif ret.used_any_for_match:\n                any_rets.append(ret)\n            else:", "            elif ret.used_any_for_match:\n                return ret.return_value\n            else:", "BREAK", "overload-model::Any argument"),
        E("C08", "no-error-when-nothing-matches", "signature.py", "        detail = self._make_detail(errors_per_overload, sigs)\n        visitor.show_error(\n            node, \"Cannot call overloaded function\", error_code, detail=str(detail)\n        )\n        return AnyValue(AnySource.error)", "        detail = self._make_detail(errors_per_overload, sigs)\n        return AnyValue(AnySource.error)", "BREAK", "overload-model::"),
        E("C08", "used-any-read-outside-reset", "value.py", "    with ctx.reset_any_used():\n        tv_map = param_typ.can_assign(var_value, ctx)\n        used_any = ctx.has_used_any_match()\n    return tv_map, used_any", "    with ctx.reset_any_used():\n        tv_map = param_typ.can_assign(var_value, ctx)\n    used_any = ctx.has_used_any_match()\n    return tv_map, used_any", "BREAK", "flag-read-inside-reset"),
    ]
    # ------------------------------------------------------------------ C09
    c += [
        E("C09", "if-forgets-else-scope", "name_check_visitor.py", "        self.scopes.combine_subscopes([body_scope, else_scope])\n        self.yield_checker.reset_yield_checks()", "        self.scopes.combine_subscopes([body_scope])\n        self.yield_checker.reset_yield_checks()", "BREAK", "visit_If::captured"),
        E("C09", "else-visited-outside-subscope", "name_check_visitor.py", "        with self.scopes.subscope() as else_scope:\n            self._generic_visit_list(orelse)\n        self.scopes.combine_subscopes([body_scope, else_scope])", "        with self.scopes.subscope() as else_scope:\n            pass\n        self._generic_visit_list(orelse)\n        self.scopes.combine_subscopes([body_scope, else_scope])", "BREAK", "_handle_loop_else::orelse"),
        E("C09", "break-sets-wrong-marker", "name_check_visitor.py", "    def visit_Break(self, node: ast.Break) -> None:\n        self._set_name_in_scope(LEAVES_LOOP,", "    def visit_Break(self, node: ast.Break) -> None:\n        self._set_name_in_scope(LEAVES_SCOPE,", "BREAK", "visit_Break"),
        E("C09", "missing-not-uninitialized", "stacked_scopes.py", "                scope.get(varname, [_UNINITIALIZED]) for scope in new_scopes", "                scope.get(varname, []) for scope in new_scopes", "BREAK", "missing-is-uninitialized"),
        E("C09", "possibly-undefined-silenced", "name_check_visitor.py", "                self._show_error_if_checking(\n                    error_node,\n                    f\"{node.id} may be used uninitialized\",\n                    ErrorCode.possibly_undefined_name,\n                )\n", "", "BREAK", "possibly-undefined"),
    ]
    # ------------------------------------------------------------------ C10
    c += [
        E("C10", "unite-values-set-dedupe", "value.py", "    hashable_vals = {}\n    unhashable_vals = []\n    for value in values:", "    hashable_vals = set()\n    unhashable_vals = []\n    for value in values:", "BREAK", "unite_values"),
        E("C10", "drop-sorted-extra-kwargs", "signature.py", "map(repr, sorted(extra_kwargs))", "map(repr, extra_kwargs)", "BREAK", "bind_arguments::materialise:map"),
        E("C10", "or-constraint-set-again", "stacked_scopes.py", "list(dict.fromkeys(constraints))", "list(set(constraints))", "BREAK", "OrConstraint.apply"),
        E("C10", "context-push-without-finally", "name_check_visitor.py", "        self.contexts.append(value)\n        try:\n            yield\n        finally:\n            self.contexts.pop()", "        self.contexts.append(value)\n        yield\n        self.contexts.pop()", "BREAK", "StackedContexts.add"),
        E("C10", "id-key-without-identity-check", "name_check_visitor.py", "        if sig is not saved_sig:\n            return None\n        return val", "        return val", "BREAK", "id-keyed-store"),
        E("C10", "protocol-members-unsorted", "type_object.py", "for member in sorted(self.protocol_members):", "for member in self.protocol_members:", "BREAK", "_is_compatible_with_protocol"),
        E("C10", "benign-rename-in-worklist", "checker.py", "        seen = set()\n        to_do = {typ}\n        result = set()\n        while to_do:\n            typ = to_do.pop()", "        seen = set()\n        pending = {typ}\n        to_do = pending\n        result = set()\n        while to_do:\n            typ = to_do.pop()", "KEEP"),
        E("C10", "benign-sorted-list", "signature.py", "map(repr, sorted(extra_kwargs))", "map(repr, sorted(list(extra_kwargs)))", "KEEP"),
    ]
    # ------------------------------------------------------------------ C11
    c += [
        E("C11", "enabled-check-first-again", "node_visitor.py", "        is_disabled = error_code is not None and not self.is_enabled(error_code)\n", "        is_disabled = error_code is not None and not self.is_enabled(error_code)\n        if is_disabled:\n            return None\n", "BREAK", "accounting-not-gated"),
        E("C11", "disabled-still-emitted", "node_visitor.py", "        if is_disabled:\n            return None\n\n        self.had_failure = True", "        self.had_failure = True", "BREAK", "gate-dominates"),
        E("C11", "bare-form-matches-other-code", "node_visitor.py", "re.search(f\"{re.escape(ignore_comment)}(?!\\\\[)\", this_line)", "re.search(f\"{re.escape(ignore_comment)}\", this_line)", "BREAK", "lines[lineno - 1]::bare-form"),
        E("C11", "new-enabled-guard", "name_check_visitor.py", "    def visit_Break(self, node: ast.Break) -> None:\n", "    def visit_Break(self, node: ast.Break) -> None:\n        if not self.options.is_error_code_enabled(ErrorCode.bad_global):\n            return\n", "BREAK", "enabled-read::bad_global"),
    ]
    # ------------------------------------------------------------------ C12
    c += [
        E("C12", "boolability-assert-returns", "boolability.py", "        # Other kinds of values (e.g., type aliases, ParamSpec args and kwargs,\n        # synthetic modules): we don't know anything about their truthiness.\n        return Boolability.boolable", "        assert False, f\"unhandled value {value!r}\"", "BREAK", "uncovered=TypeAliasValue"),
        E("C12", "binder-loses-kind", "signature.py", "            elif param.kind is ParameterKind.ELLIPSIS:\n                # just take it all", "            elif param.kind is ParameterKind.ELLIPSIS and actual_args.ellipsis:\n                # just take it all", "BREAK", "uncovered=ELLIPSIS"),
        E("C12", "annotation-visitor-raises-again", "annotations.py", "        # Unsupported kind of expression; callers treat None as an\n        # invalid annotation.\n        return None", "        raise NotImplementedError(f\"no visitor implemented for {node!r}\")", "BREAK", "_Visitor::uncovered"),
        E("C12", "unregistered-error-code", "name_check_visitor.py", "ErrorCode.undefined_name\n                )\n            return AnyValue(AnySource.error), origin", "ErrorCode.undefined_variable\n                )\n            return AnyValue(AnySource.error), origin", "BREAK", "ref=undefined_variable"),
        E("C12", "catch-all-narrowed", "name_check_visitor.py", "        except node_visitor.VisitorError:\n            raise\n        except Exception as e:\n            self.show_error(\n                node,", "        except node_visitor.VisitorError:\n            raise\n        except (TypeError, ValueError) as e:\n            self.show_error(\n                node,", "BREAK", "visit::catch-all"),
        E("C12", "pattern-visitor-loses-kind", "patma.py", "    def visit_MatchStar(", "    def _visit_match_star(", "BREAK", "PatmaVisitor::uncovered=MatchStar"),
        E("C12", "solve-forgets-bound-kind", "typevar.py", "        elif isinstance(bound, OrBound):\n            # TODO figure out how to handle this\n            continue\n", "", "BREAK", "uncovered=OrBound"),
    ]
    # ------------------------------------------------------------------ C13
    c += [
        E("C13", "string-route-loses-typeis", "annotations.py", "    elif is_typing_name(root, \"TypeIs\"):\n        if len(members) != 1:\n            ctx.show_error(\"TypeIs requires a single argument\")\n            return AnyValue(AnySource.error)\n        return AnnotatedValue(\n            TypedValue(bool), [TypeIsExtension(_type_from_value(members[0], ctx))]\n        )\n", "", "BREAK", "special-form::TypeIs"),
        E("C13", "arity-check-dropped", "annotations.py", "    elif is_typing_name(root, \"ClassVar\"):\n        if len(members) != 1:\n            ctx.show_error(\"ClassVar requires a single argument\")\n            return AnyValue(AnySource.error)\n        return _type_from_value(members[0], ctx)", "    elif is_typing_name(root, \"ClassVar\"):\n        return _type_from_value(members[0], ctx)", "BREAK", "arity::ClassVar"),
        E("C13", "inspect-route-skips-vararg-translation", "arg_spec.py", "            return translate_vararg_type(kind, typ, self.ctx)", "            return typ", "BREAK", "translate_vararg_type"),
        E("C13", "def-route-no-unpack", "functions.py", "                arg.annotation, allow_unpack=kind.allow_unpack()", "                arg.annotation, allow_unpack=False", "BREAK", "allow_unpack"),
    ]
    # ------------------------------------------------------------------ C14
    c += [
        E("C14", "subclassvalue-identity-hash", "value.py", "    def substitute_typevars(self, typevars: TypeVarMap) -> Value:\n        return self.make(self.typ.substitute_typevars(typevars), exactly=self.exactly)", "    def __hash__(self) -> int:\n        return id(self)\n\n    def substitute_typevars(self, typevars: TypeVarMap) -> Value:\n        return self.make(self.typ.substitute_typevars(typevars), exactly=self.exactly)", "BREAK", "SubclassValue::eq-hash"),
        E("C14", "generic-walk-skips-args", "value.py", "    def walk_values(self) -> Iterable[\"Value\"]:\n        yield self\n        for arg in self.args:\n            yield from arg.walk_values()", "    def walk_values(self) -> Iterable[\"Value\"]:\n        yield self", "BREAK", "GenericValue.walk_values::field=args"),
        E("C14", "mvv-not-flattened", "value.py", "            tuple(chain.from_iterable(flatten_values(val) for val in raw_vals)),", "            tuple(raw_vals),", "BREAK", "vals-flattened"),
        E("C14", "subclassvalue-compare-false", "value.py", "    exactly: bool = False\n    \"\"\"If True, represents exactly this class and not a subclass.\"\"\"", "    exactly: bool = field(default=False, compare=False, hash=True)\n    \"\"\"If True, represents exactly this class and not a subclass.\"\"\"", "BREAK", "SubclassValue::eq-hash"),
    ]
    # ------------------------------------------------------------------ C15
    c += [
        E("C15", "inherent-bounds-left-out", "value.py", "            bounds = [LowerBound(self.typevar, other), *self.get_inherent_bounds()]", "            bounds = [LowerBound(self.typevar, other)]", "BREAK", "TypeVarValue.can_assign::bounds"),
        E("C15", "no-top-bottom-check", "typevar.py", "            can_assign = upper.can_assign(bottom, ctx)\n", "            can_assign = {}\n", "BREAK", "solution-exceeds-an-upper-bound"),
        E("C15", "constrained-returns-solution", "typevar.py", "        # If there are still multiple options, we fall back to Any.\n        return AnyValue(AnySource.inference)", "        # If there are still multiple options, we fall back to Any.\n        return solution", "BREAK", "constrained-return"),
        E("C15", "errors-dropped", "typevar.py", "        if isinstance(solution, CanAssignError):\n            errors.append(solution)\n            solution = AnyValue(AnySource.error)", "        if isinstance(solution, CanAssignError):\n            solution = AnyValue(AnySource.error)", "BREAK", "resolve_bounds_map::collects"),
    ]
    # ------------------------------------------------------------------ C16
    c += [
        E("C16", "delete-ascending", "node_visitor.py", "lines_to_remove = sorted(lines_to_remove, reverse=True)", "lines_to_remove = sorted(lines_to_remove)", "BREAK", "model::splice"),
        E("C16", "splice-before-first", "node_visitor.py", "                max_line = max(lines_to_remove)", "                max_line = min(lines_to_remove)", "BREAK", "model::splice"),
        E("C16", "apply-all-changes", "node_visitor.py", "        if changes:\n            change = changes[0]\n", "        for change in changes:\n", "BREAK", "first-change-only"),
    ]
    # ------------------------------------------------------------------ C17
    c += [
        E("C17", "regex-accepts-y", "format_strings.py", "(?P<conversion_type>[diouxXeEfFgGcrs%ba])", "(?P<conversion_type>[diouxXeEfFgGcrs%bay])", "BREAK", "conversion_type::'y'"),
        E("C17", "regex-loses-a", "format_strings.py", "(?P<conversion_type>[diouxXeEfFgGcrs%ba])", "(?P<conversion_type>[diouxXeEfFgGcrs%b])", "BREAK", "conversion_type::'a'"),
        E("C17", "format-conversion-extra", "format_strings.py", "_FORMAT_STRING_CONVERSIONS = {\"r\", \"s\", \"a\"}", "_FORMAT_STRING_CONVERSIONS = {\"r\", \"s\", \"a\", \"d\"}", "BREAK", "_FORMAT_STRING_CONVERSIONS"),
        E("C17", "result-always-str", "format_strings.py", "    return TypedValue(type(format_str)), maybe_replace_with_fstring(fs, args_node)", "    return TypedValue(str), maybe_replace_with_fstring(fs, args_node)", "BREAK", "result-type"),
    ]
    # ------------------------------------------------------------------ C18
    c += [
        E("C18", "priority-not-stored", "options.py", "            yield option_cls(\n                option_cls.parse(value, path), module_path, priority=priority\n            )\n\n    if disable_all", "            yield option_cls(option_cls.parse(value, path), module_path)\n\n    if disable_all", "BREAK", "instance-priority"),
        E("C18", "sort-key-swapped", "options.py", "            not self.from_command_line,  # command line options first\n            self.priority,  # lower priority number first\n", "            self.priority,  # lower priority number first\n            not self.from_command_line,  # command line options first\n", "BREAK", "sort_key"),
        E("C18", "shortest-prefix-first", "options.py", "            -len(self.applicable_to),  # longest options first", "            len(self.applicable_to),  # longest options first", "BREAK", "component2"),
        E("C18", "extend-same-depth", "options.py", "extended_path, priority=priority + 1, seen_paths=seen_paths", "extended_path, priority=priority, seen_paths=seen_paths", "BREAK", "extend-depth"),
        E("C18", "cli-not-marked", "name_check_visitor.py", "            value = kwargs.pop(name)\n            instances.append(option_cls(value, from_command_line=True))", "            value = kwargs.pop(name)\n            instances.append(option_cls(value))", "BREAK", "prepare_constructor_kwargs"),
        E("C18", "last-applicable-wins", "options.py", "        for instance in instances:\n            if instance.is_applicable_to(module_path):\n                return instance.value\n        raise NotFound", "        found = None\n        for instance in instances:\n            if instance.is_applicable_to(module_path):\n                found = instance\n        if found is not None:\n            return found.value\n        raise NotFound", "BREAK", "first-applicable"),
        E("C18", "concat-extend-form", "options.py", "            if instance.is_applicable_to(module_path):\n                values += instance.value\n        values += cls.default_value\n        return values", "            if instance.is_applicable_to(module_path):\n                values.extend(instance.value)\n        values.extend(cls.default_value)\n        return values", "KEEP"),
    ]
    # ------------------------------------------------------------------ C19
    c += [
        E("C19", "lt-reflects-to-ge", "name_check_visitor.py", "    ast.Lt: (\"less than\", \"__lt__\", None, \"__gt__\"),", "    ast.Lt: (\"less than\", \"__lt__\", None, \"__ge__\"),", "BREAK", "::Lt"),
        E("C19", "sub-radd", "name_check_visitor.py", "\"__sub__\", \"__isub__\", \"__rsub__\"", "\"__sub__\", \"__isub__\", \"__radd__\"", "BREAK", "::Sub"),
        E("C19", "error-when-left-fails-only", "name_check_visitor.py", "        if left_errors:\n            if right_errors:\n                self.show_error(\n                    source_node,\n                    f\"Unsupported operands for {description}: {left} and {right}\",", "        if left_errors:\n            if right_errors or True:\n                self.show_error(\n                    source_node,\n                    f\"Unsupported operands for {description}: {left} and {right}\",", "BREAK", "error-iff-both-failed"),
    ]
    # ------------------------------------------------------------------ C20
    c += [
        E("C20", "is-provided-counts-unknown", "type_evaluation.py", "                match = position is not DEFAULT and position is not UNKNOWN", "                match = position is not DEFAULT", "BREAK", "is_provided(UNKNOWN)"),
        E("C20", "posonly-default-args-marker", "signature.py", "                        position = UNKNOWN  # default or args", "                        position = ARGS  # default or args", "BREAK", "marker::POSITIONAL_ONLY"),
        E("C20", "negation-table-slip", "type_evaluation.py", "    ast.Gt: _Comparator(\">\", ast.LtE, operator.gt),", "    ast.Gt: _Comparator(\">\", ast.Lt, operator.gt),", "BREAK", "_OP_TO_DATA::Gt::negation"),
        E("C20", "else-evaluated-when-only-true", "type_evaluation.py", "        if condition.right_varmap is not None:\n            with self.ctx.narrow_variables(condition.right_varmap):\n                right_result = self.visit_block(node.orelse)\n        else:\n            right_result = None", "        with self.ctx.narrow_variables(condition.right_varmap):\n            right_result = self.visit_block(node.orelse)", "BREAK", "orelse-iff-right"),
        E("C20", "exclude-any-default-off", "type_evaluation.py", "            exclude_any = True\n            for keyword in node.keywords:", "            exclude_any = False\n            for keyword in node.keywords:", "BREAK", "is_of_type-default-exclude_any"),
    ]

    # ------------------------------------------------- behaviour-preserving edits
    c += [
        E("C02", "keep-rename-known_val", "stacked_scopes.py", "                known_val = KnownValue(self.value)\n                if isinstance(inner_value, AnyValue):\n                    yield known_val", "                literal = KnownValue(self.value)\n                known_val = literal\n                if isinstance(inner_value, AnyValue):\n                    yield literal", "KEEP"),
        E("C05", "keep-rename-positional_index", "signature.py", "        positional_index = 0\n        keywords_consumed: set[str] = set()", "        positional_index = 0  # index of the next positional argument\n        keywords_consumed: set[str] = set()", "KEEP"),
        E("C07", "keep-extract-annotation-local", "signature.py", "                    their_annotation = their_param.get_annotation()\n                    tv_map = their_annotation.can_assign(my_annotation, ctx)", "                    actual_type = their_param.get_annotation()\n                    their_annotation = actual_type\n                    tv_map = actual_type.can_assign(my_annotation, ctx)", "KEEP"),
        E("C09", "keep-rename-if-scopes", "name_check_visitor.py", "        with self._subscope_and_maybe_supress(definite_value is False) as body_scope:\n            self.add_constraint(node, constraint)\n            self._generic_visit_list(node.body)\n        self.yield_checker.reset_yield_checks()\n\n        with self._subscope_and_maybe_supress(definite_value is True) as else_scope:\n            self.add_constraint(node, constraint.invert())\n            self._generic_visit_list(node.orelse)\n        self.scopes.combine_subscopes([body_scope, else_scope])", "        with self._subscope_and_maybe_supress(definite_value is False) as then_scope:\n            self.add_constraint(node, constraint)\n            self._generic_visit_list(node.body)\n        self.yield_checker.reset_yield_checks()\n\n        with self._subscope_and_maybe_supress(definite_value is True) as other_scope:\n            self.add_constraint(node, constraint.invert())\n            self._generic_visit_list(node.orelse)\n        merged = [then_scope, other_scope]\n        self.scopes.combine_subscopes(merged)", "KEEP"),
        E("C10", "keep-rename-extra-kwargs", "signature.py", "            extra_kwargs = set(actual_args.keywords) - keywords_consumed\n            if extra_kwargs:\n                extra_kwargs_str = \", \".join(map(repr, sorted(extra_kwargs)))\n                if len(extra_kwargs) == 1:", "            unexpected = set(actual_args.keywords) - keywords_consumed\n            extra_kwargs = unexpected\n            if unexpected:\n                extra_kwargs_str = \", \".join(map(repr, sorted(unexpected)))\n                if len(extra_kwargs) == 1:", "KEEP"),
        E("C11", "keep-rename-this_line", "node_visitor.py", "            this_line = lines[lineno - 1]\n            if (\n                re.search(f\"{re.escape(ignore_comment)}(?!\\\\[)\", this_line)\n                or error_code is not None\n                and f\"{ignore_comment}[{error_code.name}]\" in this_line\n            ):", "            current_line = lines[lineno - 1]\n            if (\n                re.search(f\"{re.escape(ignore_comment)}(?!\\\\[)\", current_line)\n                or error_code is not None\n                and f\"{ignore_comment}[{error_code.name}]\" in current_line\n            ):", "KEEP"),
        E("C12", "keep-reorder-to_argument-arms", "signature.py", "        elif self.kind is ParameterKind.VAR_KEYWORD:\n            return val, KWARGS\n        elif self.kind is ParameterKind.VAR_POSITIONAL:\n            return val, ARGS", "        elif self.kind is ParameterKind.VAR_POSITIONAL:\n            return val, ARGS\n        elif self.kind is ParameterKind.VAR_KEYWORD:\n            return val, KWARGS", "KEEP"),
        E("C14", "keep-walk-values-loop-form", "value.py", "    def walk_values(self) -> Iterable[\"Value\"]:\n        yield self\n        for arg in self.args:\n            yield from arg.walk_values()", "    def walk_values(self) -> Iterable[\"Value\"]:\n        yield self\n        for member in self.args:\n            for inner in member.walk_values():\n                yield inner", "KEEP"),
        E("C16", "remove-chained-assignment", "name_check_visitor.py", "                    if len(statement.targets) == 1 and not isinstance(\n                        statement.targets[0], (ast.List, ast.Tuple)\n                    ):", "                    if not any(\n                        isinstance(target, (ast.List, ast.Tuple))\n                        for target in statement.targets\n                    ):", "BREAK", "single-target"),
        E("C16", "remove-pattern-target", "name_check_visitor.py", "                    if len(statement.targets) == 1 and not isinstance(\n                        statement.targets[0], (ast.List, ast.Tuple)\n                    ):", "                    if len(statement.targets) == 1:", "BREAK", "target-is-not-a-pattern"),
        E("C16", "keep-name-target-form", "name_check_visitor.py", "                    if len(statement.targets) == 1 and not isinstance(\n                        statement.targets[0], (ast.List, ast.Tuple)\n                    ):", "                    if len(statement.targets) == 1 and isinstance(\n                        statement.targets[0], ast.Name\n                    ):", "KEEP"),
        E("C17", "star-counted-once", "format_strings.py", "            if specifier.field_width == \"*\":\n                yield StarConversionSpecifier()\n            if specifier.precision == \"*\":\n                yield StarConversionSpecifier()", "            if \"*\" in (specifier.field_width, specifier.precision):\n                yield StarConversionSpecifier()", "BREAK", "W_STAR=1,P_STAR=1"),
        E("C17", "star-after-value", "format_strings.py", "            if specifier.precision == \"*\":\n                yield StarConversionSpecifier()\n            if specifier.conversion_type != \"%\":\n                yield specifier", "            if specifier.conversion_type != \"%\":\n                yield specifier\n            if specifier.precision == \"*\":\n                yield StarConversionSpecifier()", "BREAK", "P_STAR=1"),
        E("C17", "percent-consumes-argument", "format_strings.py", "            if specifier.conversion_type != \"%\":\n                yield specifier\n\n    def accept_tuple_args", "            yield specifier\n\n    def accept_tuple_args", "BREAK", "PERCENT=1"),
        E("C17", "keep-star-elif-free-form", "format_strings.py", "            if specifier.field_width == \"*\":\n                yield StarConversionSpecifier()\n            if specifier.precision == \"*\":", "            if \"*\" == specifier.field_width:\n                yield StarConversionSpecifier()\n            if specifier.precision == \"*\":", "KEEP"),
        E("C17", "field-index-trial-int", "format_strings.py", "    elif arg_name_str.isdecimal():\n        arg_name = int(arg_name_str)\n    else:\n        arg_name = arg_name_str", "    else:\n        try:\n            arg_name = int(arg_name_str)\n        except ValueError:\n            arg_name = arg_name_str", "BREAK", "under-isdecimal"),
        E("C17", "field-index-isdigit", "format_strings.py", "    elif arg_name_str.isdecimal():", "    elif arg_name_str.isdigit():", "BREAK", "under-isdecimal"),
        E("C02", "isinstance-not-runtime-check", "implementation.py", "narrowed_type, ctx.visitor, positive_only=False, runtime_check=True", "narrowed_type, ctx.visitor, positive_only=False", "BREAK", "predicate-is-runtime-check"),
        E("C02", "negative-drop-ignores-runtime-flag", "predicates.py", "                if self.runtime_check:\n                    return _non_instances(value, self.pattern_value)\n                return None", "                return None", "BREAK", "negative-drop"),
        E("C02", "promoted-table-loses-int-float", "predicates.py", "_PROMOTED_TYPES = {float: (int,), complex: (float, int)}", "_PROMOTED_TYPES = {complex: (float, int)}", "BREAK", "promoted-types::int->float"),
        E("C02", "promoted-table-extra", "predicates.py", "_PROMOTED_TYPES = {float: (int,), complex: (float, int)}", "_PROMOTED_TYPES = {float: (int,), complex: (float, int), int: (float,)}", "BREAK", "promoted-types::no-extra"),
        E("C02", "keep-runtime-flag-guard-form", "predicates.py", "                if self.runtime_check:\n                    return _non_instances(value, self.pattern_value)\n                return None", "                if not self.runtime_check:\n                    return None\n                return _non_instances(value, self.pattern_value)", "KEEP"),
        E("C13", "coro-wrap-only-annotated", "arg_spec.py", "                has_return_annotation = True\n            if is_async:\n                returns = make_coro_type(returns)", "                has_return_annotation = True\n                if is_async:\n                    returns = make_coro_type(returns)", "BREAK", "from_signature::coroutine-wrap"),
        E("C13", "def-route-wrap-only-annotated", "functions.py", "        if not visitor.is_generator:\n            result = make_coro_type(result)", "        if not visitor.is_generator and info.return_annotation is not None:\n            result = make_coro_type(result)", "BREAK", "compute_value_of_function::coroutine-wrap"),
        E("C13", "forwardref-cache-read", "annotations.py", "        with ctx.add_evaluation(val):\n", "        with ctx.add_evaluation(val):\n            if getattr(val, \"__forward_evaluated__\", False):\n                return _type_from_runtime(val.__forward_value__, ctx, is_typeddict=is_typeddict)\n", "BREAK", "reads-typing-forwardref-cache"),
        E("C15", "upper-bound-skipped-on-bottom", "typevar.py", "        elif isinstance(bound, UpperBound):\n            if top is TOP or top.is_assignable(bound.value, ctx):", "        elif isinstance(bound, UpperBound):\n            if bottom is not BOTTOM and bound.value.is_assignable(bottom, ctx):\n                continue\n            if top is TOP or top.is_assignable(bound.value, ctx):", "BREAK", "typevar::solve::model::"),
        E("C15", "lower-bound-skipped-on-top", "typevar.py", "            if bottom is BOTTOM or bound.value.is_assignable(bottom, ctx):\n                # New bound is more specific. Adopt it.", "            if top is not TOP and top.is_assignable(bound.value, ctx):\n                continue\n            if bottom is BOTTOM or bound.value.is_assignable(bottom, ctx):\n                # New bound is more specific. Adopt it.", "BREAK", "solution-misses-a-lower-bound"),
        E("C15", "keep-upper-arm-nested-form", "typevar.py", "            elif bound.value.is_assignable(top, ctx):\n                pass\n            else:\n                # Neither bound implies the other. We have to satisfy both.\n                extra_tops.append(bound.value)", "            elif not bound.value.is_assignable(top, ctx):\n                extra_tops.append(bound.value)", "KEEP"),
        E("C15", "unrelated-uppers-united-again", "typevar.py", "                extra_tops.append(bound.value)\n", "                top = unite_values(top, bound.value)\n", "BREAK", "unrelated-upper-bounds"),
        E("C15", "constraint-ignores-upper-bounds", "typevar.py", "        if top is not TOP:\n            # A constraint can only be chosen", "        if False:\n            # A constraint can only be chosen", "BREAK", "constraint-chosen-without-upper-check"),
        E("C15", "lower-bounds-intersected-not-united", "typevar.py", "                bottom = unite_values(bottom, bound.value)", "                pass", "BREAK", "solution-misses-a-lower-bound"),
        E("C15", "keep-rename-extra-tops", "typevar.py", "extra_tops", "unrelated_uppers", "KEEPALL"),
        E("C19", "index-range-abs", "implementation.py", "                        if -len(members) <= key.val < len(members):", "                        if abs(key.val) < len(members):", "BREAK", "in-range-test"),
        E("C19", "index-range-off-by-one-top", "implementation.py", "                        if -len(members) <= key.val < len(members):", "                        if -len(members) <= key.val <= len(members):", "BREAK", "in-range-test"),
        E("C19", "keep-index-range-split-form", "implementation.py", "                        if -len(members) <= key.val < len(members):", "                        if key.val < len(members) and key.val >= -len(members):", "KEEP"),
        E("C19", "memoised-perform", "name_check_visitor.py", "                    result = callee_wrapped.val(\n                        *[arg.val for arg in arg_values],\n                        **{key: value.val for key, value in kw_values},\n                    )", "                    result = _MEMO.get((callee_wrapped.val, tuple(arg.val for arg in arg_values)))", "BREAK", "performed"),
        E("C20", "version-truncated", "type_evaluation.py", "                    left_operand = sys.version_info\n", "                    left_operand = sys.version_info[:2]\n", "BREAK", "operand-for-sys.version_info"),
        E("C20", "keep-version-tuple-call", "type_evaluation.py", "                    left_operand = sys.version_info\n", "                    left_operand = tuple(sys.version_info)\n", "KEEP"),
        E("C20", "varmaps-union-of-keys", "type_evaluation.py", "    keys = set.intersection(*[set(m) for m in varmaps])", "    keys = set().union(*varmaps)", "BREAK", "absent-is-not-never"),
        E("C20", "keep-varmaps-intersection-loop", "type_evaluation.py", "    keys = set.intersection(*[set(m) for m in varmaps])", "    keys = set(varmaps[0])\n    for m in varmaps[1:]:\n        keys &= set(m)", "KEEP"),
        E("C05", "extra-keywords-skipped-when-star-kwargs-used", "signature.py", "        if not extra_keywords_consumed:\n", "        if not star_kwargs_consumed:\n", "BREAK", "star-accept::no-expansion-binds"),
        E("C05", "keyword-does-not-end-star-args", "signature.py", "                    star_args_exhausted = True\n", "                    if not star_args_consumed:\n                        star_args_exhausted = True\n", "BREAK", "star-accept::no-expansion-binds"),
        E("C05", "keyword-next-to-star-args-rejected-again", "signature.py", "                elif (\n                    actual_args.star_args is not None\n                    and not star_args_exhausted\n                    and param.name not in actual_args.keywords\n                ):\n", "                elif actual_args.star_args is not None and param.name in actual_args.keywords:\n                    self.show_call_error(\"both\", ctx)\n                    return None\n                elif (\n                    actual_args.star_args is not None\n                    and not star_args_exhausted\n                ):\n", "BREAK", "star-reject::both"),
        E("C05", "kwonly-missing-accepted-with-star-args", "signature.py", "                elif param.default is not None:\n                    bound_args[param.name] = DEFAULT, Composite(param.default)\n                elif actual_args.ellipsis:\n                    bound_args[param.name] = DEFAULT, ELLIPSIS_COMPOSITE\n                else:\n                    self.show_call_error(\n                        f\"Missing required argument '{param.name}'\", ctx\n                    )\n                    return None\n            elif param.kind is ParameterKind.VAR_POSITIONAL:", "                elif param.default is not None or actual_args.star_args is not None:\n                    bound_args[param.name] = DEFAULT, Composite(param.default)\n                elif actual_args.ellipsis:\n                    bound_args[param.name] = DEFAULT, ELLIPSIS_COMPOSITE\n                else:\n                    self.show_call_error(\n                        f\"Missing required argument '{param.name}'\", ctx\n                    )\n                    return None\n            elif param.kind is ParameterKind.VAR_POSITIONAL:", "BREAK", "star-accept::no-expansion-binds"),
        E("C05", "keep-rename-exhausted-flag", "signature.py", "star_args_exhausted", "star_args_ended", "KEEPALL"),
        E("C07", "kwonly-conflict-check-removed", "signature.py", "                    if (\n                        their_param.name in consumed_positional\n                        or their_param.name in filled_by_args\n                    ):", "                    if False:", "BREAK", "multiple-values::keyword-accepted-by-expected-through-KEYWORD_ONLY"),
        E("C07", "kwargs-arm-filters-by-consumed-positional", "signature.py", "                    and param.name not in consumed_required_pos_only\n", "                    and param.name not in consumed_positional\n", "BREAK", "unchecked-flow::into-actual-POSITIONAL_OR_KEYWORD::from-expected-VAR_KEYWORD"),
        E("C07", "posonly-default-obligation-dropped", "signature.py", "                    if my_param.default is not None and their_params[i].default is None:\n                        return CanAssignError(\n                            f\"positional-only param {my_param.name!r} has no default\"\n                        )\n", "", "BREAK", "unsound::missing-required"),
        E("C07", "pok-name-mismatch-accepted", "signature.py", "                    if my_param.name != their_params[i].name:\n                        return CanAssignError(\n                            f\"param name {their_params[i].name!r} does not match\"\n                            f\" {my_param.name!r}\"\n                        )\n", "", "BREAK", "unsound::"),
        E("C07", "kwonly-type-check-dropped", "signature.py", "                        tv_map = their_kwonly.get_annotation().can_assign(\n                            my_annotation, ctx\n                        )\n", "                        tv_map = {}\n", "BREAK", "unchecked-flow::into-actual-KEYWORD_ONLY"),
        E("C07", "keep-rename-filled-by-args", "signature.py", "filled_by_args", "reached_through_args", "KEEPALL"),
        E("C16", "offset-counts-plain-errors", "node_visitor.py", "                    if additions is not None:\n                        # a change without replacement lines does not edit the file\n                        offset += len(additions) - len(linenos)", "                    offset += len(additions or []) - len(linenos)", "BREAK", "patches-equal-splices"),
        E("C16", "patch-end-off-by-one", "node_visitor.py", "                            end_lineno + offset,", "                            end_lineno + offset - 1,", "BREAK", "patches-equal-splices"),
        E("C16", "additions-before-first-deleted-line", "node_visitor.py", "                max_line = max(lines_to_remove)", "                max_line = min(lines_to_remove) - 1", "BREAK", "model::splice"),
        E("C16", "second-change-applied-too", "node_visitor.py", "            change = changes[0]\n            additions = change.lines_to_add\n            if additions is not None:", "            change = changes[-1]\n            additions = change.lines_to_add\n            if additions is not None:", "BREAK", "first-change-only"),
        E("C16", "keep-splice-by-slice-assignment", "node_visitor.py", "                lines = [*lines[:max_line], *additions, *lines[max_line:]]", "                lines = lines[:max_line] + list(additions) + lines[max_line:]", "KEEP"),
        E("C18", "model-priority-not-stored", "options.py", "            yield option_cls(\n                option_cls.parse(value, path), module_path, priority=priority\n            )\n\n    if disable_all_default_error_codes:", "            yield option_cls(option_cls.parse(value, path), module_path)\n\n    if disable_all_default_error_codes:", "BREAK", "layering-model::effective-value"),
        E("C18", "model-first-match-becomes-last-match", "options.py", "        for instance in instances:\n            if instance.is_applicable_to(module_path):\n                return instance.value\n        raise NotFound", "        for instance in reversed(instances):\n            if instance.is_applicable_to(module_path):\n                return instance.value\n        raise NotFound", "BREAK", "layering-model::effective-value::boolean-option"),
        E("C18", "model-disable-all-ignores-enabled-codes", "options.py", "        error_codes_to_disable = all_error_codes - enabled_error_codes", "        error_codes_to_disable = all_error_codes", "KEEP"),  # the explicit `code = true` instance is yielded first and the sort is stable
        E("C18", "model-unknown-key-ignored", "options.py", "            except KeyError:\n                raise InvalidConfigOption(f\"Invalid configuration option {key!r}\")", "            except KeyError:\n                continue", "BREAK", "rejects::unknown-key"),
        E("C18", "model-int-accepts-bool-again", "options.py", "        if isinstance(data, int) and not isinstance(data, bool):", "        if isinstance(data, int):", "BREAK", "rejects::int-given-bool"),
        E("C18", "model-recursion-check-dropped", "options.py", "    if path in seen_paths:\n        raise InvalidConfigOption(\"Recursive config inclusion detected\")\n", "", "BREAK", "rejects::recursive-inclusion"),
        E("C18", "keep-model-sort-key-lambda-to-method", "options.py", "            name: sorted(instances, key=lambda i: i.sort_key())", "            name: sorted(instances, key=lambda inst: inst.sort_key())", "KEEP"),
        E("C17", "model-mixed-numbering-unreported", "implementation.py", "    if uses_automatic_numbering and uses_manual_numbering:", "    if False:", "BREAK", "cannot switch from"),
        E("C17", "model-empty-index-accepted", "format_strings.py", "                if not index_string:\n                    state.add_error(\"empty index in format string\")\n                    return \"\"\n", "", "BREAK", "Empty attribute"),
        E("C17", "model-lone-close-brace-accepted", "format_strings.py", "                state.add_error(\"single '}' encountered in format string\")", "                current_literal.append(\"}\")", "BREAK", "Single '}'"),
        E("C17", "model-out-of-range-index-unreported", "implementation.py", "            if index >= len(args):", "            if index > len(args):", "BREAK", "reported-when-cpython-raises::IndexError"),
        E("C17", "model-missing-keyword-unreported", "implementation.py", "            if field.arg_name not in kwargs:", "            if False:", "BREAK", "reported-when-cpython-raises::KeyError"),
        E("C17", "model-escape-braces-reported", "format_strings.py", "            if next_char == \"{\":\n                state.next()\n                current_literal.append(\"{\")\n            else:", "            if False:\n                pass\n            else:", "BREAK", "format-model::"),
        E("C17", "keep-model-parser-local-rename", "format_strings.py", "arg_name_chars", "field_name_chars", "KEEPALL"),
        E("C11", "model-prev-index-wraps-around", "node_visitor.py", "            while prev_index >= 0:\n", "            while prev_index >= -1:\n", "BREAK", "filter-model::"),
        E("C11", "model-wrong-index-marked-used", "node_visitor.py", "                    self.used_ignores.add(prev_index)\n", "                    self.used_ignores.add(prev_index + 1)\n", "BREAK", "used ignore comments"),
        E("C11", "model-prev-line-substring", "node_visitor.py", "                    prev_line == ignore_comment\n                    or error_code is not None", "                    ignore_comment in prev_line\n                    or error_code is not None", "BREAK", "filter-model::"),
        E("C11", "model-stack-walks-over-any-comment", "node_visitor.py", "                if not prev_line.startswith(f\"{ignore_comment}[\"):\n                    break", "                if not prev_line.startswith(\"#\"):\n                    break", "BREAK", "filter-model::reported"),
        E("C11", "model-file-level-needs-no-leading-position", "node_visitor.py", "            if not line.startswith(\"#\"):\n                return False\n            if (\n                line.strip() == ignore_comment", "            if (\n                line.strip() == ignore_comment", "BREAK", "filter-model::"),
        E("C11", "keep-model-prev-index-rename", "node_visitor.py", "prev_index", "above_index", "KEEPALL"),
        E("C16", "model-stacking-removed", "node_visitor.py", "                if not prev_line.startswith(f\"{ignore_comment}[\"):\n                    break\n                prev_index -= 1", "                break", "BREAK", "terminates-with-nothing-reported"),
        E("C16", "model-first-line-comment-on-own-line", "node_visitor.py", "                if all(line.startswith(\"#\") for line in lines[: lineno - 1]):", "                if False:", "BREAK", "each-comment-suppresses-exactly-one-diagnostic"),
        E("C16", "model-bare-ignore-inserted", "node_visitor.py", "                if error_code is not None:\n                    ignore = f\"{ignore_comment}[{error_code.name}]\"\n                else:\n                    ignore = ignore_comment\n                if all(", "                ignore = ignore_comment\n                if all(", "BREAK", "add-ignores-model::"),
        E("C16", "model-original-line-dropped", "node_visitor.py", "                    new_lines = [\"{}{}\\n\".format(\" \" * indentation, ignore), this_line]", "                    new_lines = [\"{}{}\\n\".format(\" \" * indentation, ignore)]", "BREAK", "add-ignores-model::"),
        E("C16", "model-trailing-ignore-covers-next-line", "node_visitor.py", "                    prev_line == ignore_comment\n                    or error_code is not None\n                    and prev_line == f\"{ignore_comment}[{error_code.name}]\"", "                    ignore_comment in prev_line", "BREAK", "add-ignores-model::"),
        E("C16", "keep-model-indentation-expression", "node_visitor.py", "                    new_lines = [\"{}{}\\n\".format(\" \" * indentation, ignore), this_line]", "                    new_lines = [\" \" * indentation + ignore + \"\\n\", this_line]", "KEEP"),
        E("C02", "model-promoted-int-lost-after-assert-is-instance", "stacked_scopes.py", "                        # A float may be an int at runtime (and a complex a float or int).\n                        for promoted in _PROMOTED_TYPES.get(inner_value.typ, ()):", "                        for promoted in ():", "BREAK", "constraint-model::is_instance::positive::keeps"),
        E("C02", "model-equals-bool-complement-wrong", "predicates.py", "                    return KnownValue(not self.pattern_val)", "                    return KnownValue(self.pattern_val)", "BREAK", "narrowing-model::EqualsPredicate::negative"),
        E("C02", "model-is-not-uses-equality", "stacked_scopes.py", "                    isinstance(inner_value, KnownValue)\n                    and inner_value.val is self.value\n                ):\n                    yield value", "                    isinstance(inner_value, KnownValue)\n                    and inner_value.val == self.value\n                ):\n                    yield value", "BREAK", "constraint-model::is_value::negative::keeps"),
        E("C02", "model-truthy-polarity-swapped", "stacked_scopes.py", "                if not boolability.is_safely_false():\n                    yield value\n            else:\n                if not boolability.is_safely_true():", "                if not boolability.is_safely_true():\n                    yield value\n            else:\n                if not boolability.is_safely_false():", "BREAK", "constraint-model::is_truthy"),
        E("C02", "model-one-of-applies-only-first", "stacked_scopes.py", "            for constraint in self.value:\n                yield from constraint.apply_to_value(value)", "            for constraint in self.value[:1]:\n                yield from constraint.apply_to_value(value)", "BREAK", "constraint-model::one_of"),
        E("C08", "model-remainder-not-handed-on", "signature.py", "                actual_args = ret.remaining_arguments\n", "                pass\n", "BREAK", "overload-model::union argument"),
        E("C08", "model-any-match-returned-at-once", "signature.py", "            elif ret.used_any_for_match:\n                any_rets.append(ret)\n", "            elif ret.used_any_for_match:\n                return ret.return_value\n", "BREAK", "overload-model::Any argument never selects"),
        E("C08", "model-error-overload-not-skipped", "signature.py", "            if ret.is_error:\n                continue\n            elif ret.remaining_arguments is not None:", "            if ret.remaining_arguments is not None:", "BREAK", "overload-model::"),
        E("C08", "model-union-rets-dropped-on-clean-match", "signature.py", "            if clean_ret is not None:\n                rets = [*union_rets, clean_ret]", "            if clean_ret is not None:\n                rets = [clean_ret]", "BREAK", "the type contains each member's own result"),
        E("C08", "keep-model-sigs-loop-form", "signature.py", "        last = len(sigs) - 1\n        for i, sig in enumerate(sigs):", "        last = len(sigs) - 1\n        for i in range(len(sigs)):\n            sig = sigs[i]", "KEEP"),
        E("C14", "model-unite-keeps-nested-union", "value.py", "        if isinstance(value, MultiValuedValue):\n            subvals = value.vals\n        elif isinstance(value, AnnotatedValue) and isinstance(\n            value.value, MultiValuedValue\n        ):", "        if False:\n            subvals = value.vals\n        elif isinstance(value, AnnotatedValue) and isinstance(\n            value.value, MultiValuedValue\n        ):", "BREAK", "union-model::"),
        E("C14", "model-unite-no-dedup", "value.py", "                if subval not in hashable_vals:\n                    hashable_vals[subval] = None\n            except Exception:\n                unhashable_vals.append(subval)\n    existing = list(hashable_vals) + unhashable_vals", "                unhashable_vals.append(subval)\n            except Exception:\n                unhashable_vals.append(subval)\n    existing = list(hashable_vals) + unhashable_vals", "BREAK", "union-model::equal-alternatives-merged"),
        E("C14", "model-unreachable-any-kept", "value.py", "    if num_unreachable:\n        existing = [val for i, val in enumerate(existing) if not reachabilities[i]]", "    if False:\n        existing = [val for i, val in enumerate(existing) if not reachabilities[i]]", "BREAK", "union-model::commutative"),
        E("C14", "model-single-value-wrapped-in-union", "value.py", "    if num == 1:\n        return existing[0]\n    else:\n        return MultiValuedValue(existing)", "    return MultiValuedValue(existing)", "BREAK", "identity-and-singleton"),
        E("C14", "model-empty-unite-returns-any", "value.py", "    if not values:\n        return NO_RETURN_VALUE\n    # Make sure order is consistent", "    if not values:\n        return AnyValue(AnySource.inference)\n    # Make sure order is consistent", "NOALARM"),
        E("C14", "model-annotated-union-loses-metadata", "value.py", "            subvals = [\n                annotate_value(subval, value.metadata) for subval in value.value.vals\n            ]\n        else:\n            subvals = [value]\n        for subval in subvals:\n            try:", "            subvals = list(value.value.vals)\n        else:\n            subvals = [value]\n        for subval in subvals:\n            try:", "BREAK", "union-model::"),
        E("C20", "model-not-does-not-reverse", "type_evaluation.py", "            ret = self.visit(node.operand)\n            return ret.reverse()", "            ret = self.visit(node.operand)\n            return ret", "BREAK", "evaluator-model::"),
        E("C20", "model-else-branch-sees-true-narrowing", "type_evaluation.py", "            with self.ctx.narrow_variables(condition.right_varmap):\n                right_result = self.visit_block(node.orelse)", "            with self.ctx.narrow_variables(condition.left_varmap):\n                right_result = self.visit_block(node.orelse)", "BREAK", "evaluator-model::"),
        E("C20", "model-partial-match-takes-only-true-branch", "type_evaluation.py", "            if condition.right_varmap is not None:\n                return CombinedReturn.make(left_result, right_result)\n            else:\n                return left_result", "            return left_result", "BREAK", "evaluator-model::result"),
        E("C20", "model-exclude-any-defaults-to-false", "type_evaluation.py", "            exclude_any = True\n            for keyword in node.keywords:", "            exclude_any = False\n            for keyword in node.keywords:", "BREAK", "evaluator-model::"),
        E("C20", "model-block-continues-after-definite-return", "type_evaluation.py", "            if isinstance(result, Value):\n                return CombinedReturn.make(*possible_returns, result)", "            if isinstance(result, Value):\n                possible_returns.append(result)\n                continue", "BREAK", "evaluator-model::"),
        E("C20", "model-and-short-circuit-dropped", "type_evaluation.py", "                    if result.left_varmap is None:\n                        # Condition returns False\n                        return ConditionReturn(\n                            right_varmap=result.right_varmap,\n                            condition=ConditionList(active),\n                        )\n                    elif result.right_varmap is None:\n                        # Condition returns True\n                        narrowed_varmap.update(result.left_varmap)", "                    if result.right_varmap is None or result.left_varmap is None:\n                        # Condition returns True\n                        narrowed_varmap.update(result.left_varmap or {})", "BREAK", "evaluator-model::"),
        E("C20", "keep-model-rename-active", "type_evaluation.py", "        active = []\n        is_and = isinstance(node.op, ast.And)", "        active = list()\n        is_and = isinstance(node.op, ast.And)", "KEEP"),
        E("C16", "keep-reversed-sorted", "node_visitor.py", "lines_to_remove = sorted(lines_to_remove, reverse=True)", "lines_to_remove = list(reversed(sorted(lines_to_remove)))", "KEEP"),
        E("C17", "keep-regex-class-order", "format_strings.py", "(?P<conversion_type>[diouxXeEfFgGcrs%ba])", "(?P<conversion_type>[abcdeEfFgGiorsuxX%])", "KEEP"),
        E("C18", "keep-sort-key-via-locals", "options.py", "        return (\n            not self.from_command_line,  # command line options first\n            self.priority,  # lower priority number first\n            -len(self.applicable_to),  # longest options first\n        )", "        return (\n            not self.from_command_line,\n            self.priority,\n            -len(self.applicable_to),\n        )", "KEEP"),
        E("C19", "keep-table-row-order", "name_check_visitor.py", "    ast.Add: (\"addition\", \"__add__\", \"__iadd__\", \"__radd__\"),\n    ast.Sub: (\"subtraction\", \"__sub__\", \"__isub__\", \"__rsub__\"),", "    ast.Sub: (\"subtraction\", \"__sub__\", \"__isub__\", \"__rsub__\"),\n    ast.Add: (\"addition\", \"__add__\", \"__iadd__\", \"__radd__\"),", "KEEP"),
        E("C20", "keep-rename-position", "type_evaluation.py", "            if name == \"is_provided\":\n                match = position is not DEFAULT and position is not UNKNOWN\n            elif name == \"is_positional\":\n                match = position is ARGS or isinstance(position, int)\n            elif name == \"is_keyword\":\n                match = position is KWARGS or isinstance(position, str)", "            if name == \"is_provided\":\n                match = not (position is DEFAULT or position is UNKNOWN)\n            elif name == \"is_positional\":\n                match = isinstance(position, int) or position is ARGS\n            elif name == \"is_keyword\":\n                match = isinstance(position, str) or position is KWARGS", "KEEP"),
        E("C04", "noalarm-rename-bounds_maps", "value.py", "            bounds_maps = []\n            errors = []\n            for val in my_vals:\n                can_assign = val.can_assign(other, ctx)\n                # Ignore any branches that don't match\n                if isinstance(can_assign, CanAssignError):\n                    errors.append(can_assign)\n                else:\n                    bounds_maps.append(can_assign)\n            if not bounds_maps:\n                return CanAssignError(\"Cannot assign to Union\", errors)\n            return intersect_bounds_maps(bounds_maps)", "            maps = []\n            errors = []\n            for val in my_vals:\n                can_assign = val.can_assign(other, ctx)\n                # Ignore any branches that don't match\n                if isinstance(can_assign, CanAssignError):\n                    errors.append(can_assign)\n                else:\n                    maps.append(can_assign)\n            if not maps:\n                return CanAssignError(\"Cannot assign to Union\", errors)\n            return intersect_bounds_maps(maps)", "NOALARM"),
        E("C15", "noalarm-rename-solution", "typevar.py", "        can_assigns = [option.can_assign(solution, ctx) for option in options]\n", "        checks = [option.can_assign(solution, ctx) for option in options]\n        can_assigns = checks\n", "NOALARM"),
        E("C06", "noalarm-rename-had_error", "signature.py", "            if tv_map is None:\n                had_error = True", "            if tv_map is None:\n                had_error = True  # remember the failure", "KEEP"),
        E("C08", "keep-sigs-filter-loop", "signature.py", "        sigs = [\n            sig\n            for sig, bound_args in zip(self.signatures, bound_args_per_overload)\n            if bound_args is not None\n        ]", "        sigs = [\n            sig\n            for sig, bound in zip(self.signatures, bound_args_per_overload)\n            if bound is not None\n        ]", "KEEP"),
        E("C13", "keep-reorder-form-arms", "annotations.py", "    elif is_typing_name(root, \"Final\"):\n        if len(members) != 1:\n            ctx.show_error(\"Final requires a single argument\")\n            return AnyValue(AnySource.error)\n        # TODO(#160): properly support Final\n        return _type_from_value(members[0], ctx)\n    elif is_typing_name(root, \"ClassVar\"):\n        if len(members) != 1:\n            ctx.show_error(\"ClassVar requires a single argument\")\n            return AnyValue(AnySource.error)\n        return _type_from_value(members[0], ctx)", "    elif is_typing_name(root, \"ClassVar\"):\n        if len(members) != 1:\n            ctx.show_error(\"ClassVar requires a single argument\")\n            return AnyValue(AnySource.error)\n        return _type_from_value(members[0], ctx)\n    elif is_typing_name(root, \"Final\"):\n        if len(members) != 1:\n            ctx.show_error(\"Final requires a single argument\")\n            return AnyValue(AnySource.error)\n        # TODO(#160): properly support Final\n        return _type_from_value(members[0], ctx)", "KEEP"),
        E("C03", "keep-promotion-split", "type_object.py", "            self.artificial_bases.add(float)\n            self.artificial_bases.add(complex)\n", "            self.artificial_bases.add(complex)\n            self.artificial_bases.add(float)\n", "KEEP"),
        E("C01", "keep-binop-loop-local", "name_check_visitor.py", "            possibilities.append(result)", "            computed = result\n            possibilities.append(computed)", "KEEP"),
    ]
    return c


CATALOGUE = _cat()


def _run_one(edit: Edit, src_root: str) -> Tuple[Edit, str, str]:
    """returns (edit, verdict, detail); verdict in ok | FAIL | skip"""
    path = os.path.join(src_root, "pyanalyze", edit.file)
    with open(path, encoding="utf-8") as f:
        src = f.read()
    if src.count(edit.old) < 1:
        return edit, "skip", "anchor text not present in the tree"
    if edit.kind == "KEEPALL":  # behaviour-preserving rename of every occurrence
        new_src = src.replace(edit.old, edit.new)
        edit = Edit(edit.prop, edit.name, edit.file, edit.old, edit.new, "KEEP", edit.expect, edit.count)
    else:
        new_src = src.replace(edit.old, edit.new, 1)
    try:
        compile(new_src, path, "exec")
    except SyntaxError as e:
        return edit, "FAIL", f"variant does not compile: {e}"
    tmp = tempfile.mkdtemp(prefix="sa-selftest-")
    try:
        shutil.copytree(os.path.join(src_root, "pyanalyze"), os.path.join(tmp, "pyanalyze"), ignore=shutil.ignore_patterns("test_*.py", "__pycache__", "stubs"))
        with open(os.path.join(tmp, "pyanalyze", edit.file), "w", encoding="utf-8") as f:
            f.write(new_src)
        env = dict(os.environ, VERIF_REPO=tmp, VERIF_SELFTEST="1", VERIF_TIER="quick")
        p = subprocess.run(
            [sys.executable, "-m", "sa.cli", edit.prop, "--tier", "quick", "--no-evidence"],
            cwd=VERIF,
            env=env,
            capture_output=True,
            text=True,
            timeout=600,
        )
        out = p.stdout + p.stderr
        if edit.kind == "NOALARM":
            # a rename the rule is anchored on: exit 2 (cannot recognise) is acceptable, a VIOLATION is not
            if p.returncode in (0, 2) and "VIOLATION" not in out:
                return edit, "ok", f"no alarm (exit {p.returncode})"
            return edit, "FAIL", f"behaviour-preserving rename raised a VIOLATION (exit {p.returncode})"
        if edit.kind == "KEEP":
            if p.returncode == 0:
                return edit, "ok", "silent"
            first = [l for l in out.splitlines() if "VIOLATION" in l or "ANALYSIS-ERROR" in l or ": R" in l][:2]
            return edit, "FAIL", f"behaviour-preserving edit raised exit {p.returncode}: {first}"
        if p.returncode != 1:
            return edit, "FAIL", f"expected a violation, got exit {p.returncode}: {out.strip().splitlines()[-1:]}"
        if edit.expect and edit.expect not in out:
            return edit, "FAIL", f"violation reported but none names `{edit.expect}`"
        return edit, "ok", "detected"
    finally:
        shutil.rmtree(tmp, ignore_errors=True)


def run_selftest(prop: str) -> Dict[str, object]:
    src_root = repo_root()
    edits = [e for e in CATALOGUE if e.prop == prop]
    results = []
    with concurrent.futures.ThreadPoolExecutor(max_workers=min(16, max(1, len(edits)))) as ex:
        for e, verdict, detail in ex.map(lambda ed: _run_one(ed, src_root), edits):
            results.append({"name": e.name, "kind": e.kind, "verdict": verdict, "detail": detail, "expect": e.expect})
    return {
        "edits": len(edits),
        "detected": sum(1 for r in results if r["kind"] == "BREAK" and r["verdict"] == "ok"),
        "silent": sum(1 for r in results if r["kind"] in ("KEEP", "KEEPALL", "NOALARM") and r["verdict"] == "ok"),
        "skipped": sum(1 for r in results if r["verdict"] == "skip"),
        "failed": [r for r in results if r["verdict"] == "FAIL"],
        "results": results,
    }
