"""E6 - table folding: evaluate literal tables from source without importing.

Names that are not tables fold to ``Sym("dotted.name")``; dict/list/tuple/set
literals fold to Python containers; dict/list/set comprehensions over folded
tables (``for k, (a, b, _) in T.items()``) are evaluated; subscripts into folded
dicts are resolved.  Anything else raises ``CannotFold``.
"""

from __future__ import annotations

import ast
from dataclasses import dataclass
from typing import Any, Dict, List, Optional

from .model import AnchorError, Program, dotted


class CannotFold(Exception):
    pass


@dataclass(frozen=True)
class Sym:
    name: str

    def __repr__(self) -> str:
        return self.name

    @property
    def last(self) -> str:
        return self.name.split(".")[-1]


class Folder:
    def __init__(self, prog: Program, module: str) -> None:
        self.prog = prog
        self.module = module
        self._cache: Dict[str, Any] = {}
        self._in_progress: set = set()

    def table(self, name: str) -> Any:
        if name in self._cache:
            return self._cache[name]
        if name in self._in_progress:
            raise CannotFold(f"recursive table {name}")
        self._in_progress.add(name)
        try:
            expr = self.prog.module_assign(self.module, name)
            val = self.fold(expr, {})
        finally:
            self._in_progress.discard(name)
        self._cache[name] = val
        return val

    def _is_module_table(self, name: str) -> bool:
        try:
            self.prog.module_assign(self.module, name)
            return True
        except AnchorError:
            return False

    def fold(self, node: ast.AST, env: Dict[str, Any]) -> Any:
        if isinstance(node, ast.Constant):
            return node.value
        if isinstance(node, ast.Name):
            if node.id in env:
                return env[node.id]
            if node.id in ("True", "False", "None"):
                return {"True": True, "False": False, "None": None}[node.id]
            if self._is_module_table(node.id):
                try:
                    return self.table(node.id)
                except CannotFold:
                    return Sym(node.id)
            return Sym(node.id)
        if isinstance(node, ast.Attribute):
            d = dotted(node)
            if d is not None:
                return Sym(d)
            raise CannotFold(ast.dump(node))
        if isinstance(node, ast.Tuple):
            return tuple(self._elts(node.elts, env))
        if isinstance(node, ast.List):
            return list(self._elts(node.elts, env))
        if isinstance(node, ast.Set):
            return set(self._elts(node.elts, env))
        if isinstance(node, ast.Dict):
            out: Dict[Any, Any] = {}
            for k, v in zip(node.keys, node.values):
                if k is None:
                    sub = self.fold(v, env)
                    if not isinstance(sub, dict):
                        raise CannotFold("** of non-dict")
                    out.update(sub)
                else:
                    out[self.fold(k, env)] = self.fold(v, env)
            return out
        if isinstance(node, ast.Subscript):
            base = self.fold(node.value, env)
            idx = self.fold(node.slice, env)
            try:
                return base[idx]
            except Exception as e:
                raise CannotFold(f"subscript: {e}")
        if isinstance(node, (ast.DictComp, ast.ListComp, ast.SetComp, ast.GeneratorExp)):
            return self._comp(node, env)
        if isinstance(node, ast.Call):
            d = dotted(node.func)
            if isinstance(node.func, ast.Attribute) and node.func.attr in ("items", "keys", "values") and not node.args:
                base = self.fold(node.func.value, env)
                if isinstance(base, dict):
                    return list(getattr(base, node.func.attr)())
            if d in ("frozenset", "set", "tuple", "list") and len(node.args) <= 1 and not node.keywords:
                if not node.args:
                    return {"frozenset": frozenset, "set": set, "tuple": tuple, "list": list}[d]()
                inner = self.fold(node.args[0], env)
                return {"frozenset": frozenset, "set": set, "tuple": tuple, "list": list}[d](inner)
            if d == "dict" and not node.args:
                return {k.arg: self.fold(k.value, env) for k in node.keywords if k.arg}
            # opaque call: symbol with its source form
            return Sym(ast.unparse(node))
        if isinstance(node, ast.UnaryOp) and isinstance(node.op, ast.USub):
            v = self.fold(node.operand, env)
            if isinstance(v, (int, float)):
                return -v
        if isinstance(node, ast.BinOp):
            l, r = self.fold(node.left, env), self.fold(node.right, env)
            try:
                if isinstance(node.op, ast.BitOr):
                    return l | r
                if isinstance(node.op, ast.Add):
                    return l + r
                if isinstance(node.op, ast.Sub):
                    return l - r
            except Exception as e:
                raise CannotFold(str(e))
        if isinstance(node, ast.Starred):
            raise CannotFold("starred outside container")
        if isinstance(node, ast.JoinedStr):
            parts = []
            for v in node.values:
                if isinstance(v, ast.Constant):
                    parts.append(str(v.value))
                elif isinstance(v, ast.FormattedValue):
                    parts.append(str(self.fold(v.value, env)))
            return "".join(parts)
        if isinstance(node, ast.Lambda):
            return Sym("lambda:" + ast.unparse(node.body))
        raise CannotFold(type(node).__name__ + ": " + ast.unparse(node)[:80])

    def _elts(self, elts: List[ast.expr], env: Dict[str, Any]) -> List[Any]:
        out: List[Any] = []
        for e in elts:
            if isinstance(e, ast.Starred):
                out.extend(self.fold(e.value, env))
            else:
                out.append(self.fold(e, env))
        return out

    def _bind(self, target: ast.AST, value: Any, env: Dict[str, Any]) -> None:
        if isinstance(target, ast.Name):
            env[target.id] = value
        elif isinstance(target, (ast.Tuple, ast.List)):
            vals = list(value)
            if len(vals) != len(target.elts):
                raise CannotFold("unpack length mismatch")
            for t, v in zip(target.elts, vals):
                self._bind(t, v, env)
        else:
            raise CannotFold("comprehension target")

    def _truth(self, node: ast.AST, env: Dict[str, Any]) -> bool:
        if isinstance(node, ast.Compare) and len(node.ops) == 1:
            l = self.fold(node.left, env)
            r = self.fold(node.comparators[0], env)
            op = node.ops[0]
            if isinstance(op, ast.Is):
                return l is r or (isinstance(l, Sym) and l == r)
            if isinstance(op, ast.IsNot):
                return not (l is r or (isinstance(l, Sym) and l == r))
            if isinstance(op, ast.Eq):
                return l == r
            if isinstance(op, ast.NotEq):
                return l != r
            if isinstance(op, ast.In):
                return l in r
            if isinstance(op, ast.NotIn):
                return l not in r
        raise CannotFold("comprehension condition " + ast.unparse(node))

    def _comp(self, node: Any, env: Dict[str, Any]) -> Any:
        results: List[Any] = []

        def rec(i: int, e: Dict[str, Any]) -> None:
            if i == len(node.generators):
                if isinstance(node, ast.DictComp):
                    results.append((self.fold(node.key, e), self.fold(node.value, e)))
                else:
                    results.append(self.fold(node.elt, e))
                return
            gen = node.generators[i]
            it = self.fold(gen.iter, e)
            if isinstance(it, Sym):
                raise CannotFold(f"iteration over opaque {it}")
            if isinstance(it, dict):
                it = list(it)
            for item in it:
                e2 = dict(e)
                self._bind(gen.target, item, e2)
                if all(self._truth(c, e2) for c in gen.ifs):
                    rec(i + 1, e2)

        rec(0, dict(env))
        if isinstance(node, ast.DictComp):
            return dict(results)
        if isinstance(node, ast.SetComp):
            return set(results)
        return list(results)
