"""E2 - statement-level control-flow graph with dominators / post-dominators.

Nodes are ast.stmt objects (compound statements are represented by their
header: the test of an if/while, the iterator of a for, the context
expression of a with, the entry of a try) plus three synthetic nodes ENTRY,
EXIT (normal return / fall-through) and RAISE (exceptional exit).

Exception edges: every statement inside a ``try`` body has an edge to each
handler and to the ``finally`` block; ``raise`` goes to the innermost handler /
finally or to RAISE.  Statements outside any ``try`` are *not* given implicit
exception edges by default (``implicit_raise=True`` adds an edge to the
innermost handler/finally/RAISE for every statement that contains a call).
"""

from __future__ import annotations

import ast
from typing import Dict, Iterable, List, Optional, Sequence, Set, Tuple


class Node:
    __slots__ = ("stmt", "label", "id")
    _n = 0

    def __init__(self, stmt: Optional[ast.AST], label: str) -> None:
        self.stmt = stmt
        self.label = label
        Node._n += 1
        self.id = Node._n

    def __repr__(self) -> str:
        ln = getattr(self.stmt, "lineno", "")
        return f"<{self.label}@{ln}>"


class CFG:
    def __init__(self, fn: ast.AST, *, implicit_raise: bool = False) -> None:
        self.fn = fn
        self.implicit_raise = implicit_raise
        self.entry = Node(None, "ENTRY")
        self.exit = Node(None, "EXIT")
        self.raise_exit = Node(None, "RAISE")
        self.succ: Dict[Node, List[Node]] = {self.entry: [], self.exit: [], self.raise_exit: []}
        self.pred: Dict[Node, List[Node]] = {self.entry: [], self.exit: [], self.raise_exit: []}
        self.node_of: Dict[int, Node] = {}  # id(stmt) -> node
        self.branch: Dict[Tuple[Node, Node], str] = {}  # edge label: "true"/"false"/"exc"
        # stacks
        self._handlers: List[List[Node]] = []  # targets for exceptions
        self._finally: List[Node] = []
        self._loops: List[Tuple[Node, List[Node]]] = []  # (continue target, break sources)
        body = getattr(fn, "body", [])
        tails = self._block(body, [self.entry])
        for t in tails:
            self._edge(t, self.exit)
        self._dom: Optional[Dict[Node, Set[Node]]] = None
        self._pdom: Optional[Dict[Node, Set[Node]]] = None

    # ---------------------------------------------------------------- build
    def _new(self, stmt: ast.AST, label: str) -> Node:
        n = Node(stmt, label)
        self.succ[n] = []
        self.pred[n] = []
        self.node_of.setdefault(id(stmt), n)
        return n

    def _edge(self, a: Node, b: Node, label: str = "") -> None:
        if b not in self.succ[a]:
            self.succ[a].append(b)
            self.pred[b].append(a)
        if label:
            self.branch[(a, b)] = label

    def _exc_targets(self) -> List[Node]:
        if self._handlers:
            return self._handlers[-1]
        return [self.raise_exit]

    def _block(self, stmts: Sequence[ast.stmt], preds: List[Node], first_label: str = "") -> List[Node]:
        cur = preds
        lab = first_label
        for st in stmts:
            cur = self._stmt(st, cur, lab)
            lab = ""
        return cur

    def _link(self, preds: List[Node], n: Node, label: str = "") -> None:
        for p in preds:
            self._edge(p, n, label)

    def _maybe_raise(self, n: Node, st: ast.AST) -> None:
        in_try = bool(self._handlers)
        if in_try or (self.implicit_raise and any(isinstance(x, ast.Call) for x in ast.walk(st))):
            for t in self._exc_targets():
                self._edge(n, t, "exc")

    def _stmt(self, st: ast.stmt, preds: List[Node], label: str) -> List[Node]:
        if isinstance(st, ast.If):
            n = self._new(st, "if")
            self._link(preds, n, label)
            self._maybe_raise(n, st.test)
            t_tail = self._block(st.body, [n], "true")
            if st.orelse:
                f_tail = self._block(st.orelse, [n], "false")
            else:
                f_tail = [n]
            return t_tail + f_tail
        if isinstance(st, (ast.For, ast.AsyncFor, ast.While)):
            n = self._new(st, "loop")
            self._link(preds, n, label)
            self._maybe_raise(n, st.iter if not isinstance(st, ast.While) else st.test)
            breaks: List[Node] = []
            self._loops.append((n, breaks))
            body_tail = self._block(st.body, [n], "true")
            self._loops.pop()
            for t in body_tail:
                self._edge(t, n)
            infinite = isinstance(st, ast.While) and isinstance(st.test, ast.Constant) and bool(st.test.value)
            out: List[Node] = [] if infinite else [n]
            if st.orelse and out:
                out = self._block(st.orelse, out, "false")
            return out + breaks
        if isinstance(st, (ast.With, ast.AsyncWith)):
            n = self._new(st, "with")
            self._link(preds, n, label)
            self._maybe_raise(n, st)
            return self._block(st.body, [n])
        if isinstance(st, ast.Try):
            n = self._new(st, "try")
            self._link(preds, n, label)
            fin_entry: Optional[Node] = None
            if st.finalbody:
                fin_entry = Node(None, "finally")
                self.succ[fin_entry] = []
                self.pred[fin_entry] = []
            handler_nodes = [self._new(h, "except") for h in st.handlers]
            targets = list(handler_nodes)
            if fin_entry is not None:
                targets.append(fin_entry)
            if not targets:
                targets = self._exc_targets()
            self._handlers.append(targets)
            body_tail = self._block(st.body, [n])
            self._handlers.pop()
            # exceptions inside handlers / else go to finally or outwards
            outer = [fin_entry] if fin_entry is not None else self._exc_targets()
            self._handlers.append(outer)
            else_tail = self._block(st.orelse, body_tail) if st.orelse else body_tail
            tails = list(else_tail)
            for h, hn in zip(st.handlers, handler_nodes):
                tails += self._block(h.body, [hn])
            self._handlers.pop()
            if fin_entry is not None:
                self._link(tails, fin_entry)
                ftail = self._block(st.finalbody, [fin_entry])
                # after finally: continue normally, and re-raise outwards
                for t in ftail:
                    for et in self._exc_targets():
                        self._edge(t, et, "exc")
                return ftail
            return tails
        # simple statements
        n = self._new(st, type(st).__name__.lower())
        self._link(preds, n, label)
        return self._simple(n, st)

    def _terminates(self, st: ast.stmt) -> bool:
        return isinstance(st, (ast.Return, ast.Raise, ast.Break, ast.Continue))

    def _simple_effects(self, n: Node, st: ast.stmt) -> None:
        self._simple(n, st)

    def _simple(self, n: Node, st: ast.stmt) -> List[Node]:
        if isinstance(st, ast.Return):
            self._maybe_raise(n, st)
            if self._finally_targets():
                pass
            self._edge(n, self.exit)
            return []
        if isinstance(st, ast.Raise):
            for t in self._exc_targets():
                self._edge(n, t, "exc")
            return []
        if isinstance(st, ast.Break):
            if self._loops:
                self._loops[-1][1].append(n)
            return []
        if isinstance(st, ast.Continue):
            if self._loops:
                self._edge(n, self._loops[-1][0])
            return []
        if isinstance(st, ast.Assert):
            self._maybe_raise(n, st)
            if isinstance(st.test, ast.Constant) and not st.test.value:
                for t in self._exc_targets():
                    self._edge(n, t, "exc")
                return []
            return [n]
        if isinstance(st, ast.Expr) and isinstance(st.value, ast.Call):
            f = st.value.func
            nm = f.attr if isinstance(f, ast.Attribute) else getattr(f, "id", "")
            if nm in ("assert_never", "exit", "_exit"):
                for t in self._exc_targets():
                    self._edge(n, t, "exc")
                return []
        self._maybe_raise(n, st)
        return [n]

    def _finally_targets(self) -> List[Node]:
        return []

    # ------------------------------------------------------------ dominance
    def nodes(self) -> List[Node]:
        return list(self.succ)

    def reachable(self) -> Set[Node]:
        seen = {self.entry}
        work = [self.entry]
        while work:
            x = work.pop()
            for s in self.succ[x]:
                if s not in seen:
                    seen.add(s)
                    work.append(s)
        return seen

    def dominators(self) -> Dict[Node, Set[Node]]:
        if self._dom is not None:
            return self._dom
        reach = self.reachable()
        nodes = [n for n in self.nodes() if n in reach]
        dom: Dict[Node, Set[Node]] = {n: set(nodes) for n in nodes}
        dom[self.entry] = {self.entry}
        changed = True
        while changed:
            changed = False
            for n in nodes:
                if n is self.entry:
                    continue
                ps = [p for p in self.pred[n] if p in reach]
                new = set.intersection(*[dom[p] for p in ps]) if ps else set()
                new = new | {n}
                if new != dom[n]:
                    dom[n] = new
                    changed = True
        self._dom = dom
        return dom

    def dominates(self, a: ast.AST, b: ast.AST) -> bool:
        """Every path from ENTRY to statement b passes through statement a."""
        na, nb = self.node_of.get(id(a)), self.node_of.get(id(b))
        if na is None or nb is None:
            raise KeyError("statement not in CFG")
        d = self.dominators()
        if nb not in d:
            return True  # unreachable
        return na in d[nb]

    def paths_avoiding(self, src: Node, dst: Node, avoid: Iterable[Node]) -> bool:
        """Is there a path src -> dst that does not pass through `avoid`?"""
        av = set(avoid)
        if src in av:
            return False
        seen = {src}
        work = [src]
        while work:
            x = work.pop()
            if x is dst:
                return True
            for s in self.succ[x]:
                if s not in seen and s not in av:
                    seen.add(s)
                    work.append(s)
        return dst in seen

    def node(self, stmt: ast.AST) -> Node:
        n = self.node_of.get(id(stmt))
        if n is None:
            raise KeyError(f"statement at line {getattr(stmt, 'lineno', '?')} not in CFG")
        return n

    def must_pass_through(self, src: ast.AST, via: Iterable[ast.AST], *, to_normal_exit: bool = True, to_raise: bool = False) -> bool:
        """Every path from statement `src` to the chosen exits passes through one of `via`."""
        s = self.node(src)
        av = [self.node(v) for v in via]
        ok = True
        if to_normal_exit and self.paths_avoiding(s, self.exit, av):
            ok = False
        if to_raise and self.paths_avoiding(s, self.raise_exit, av):
            ok = False
        return ok
