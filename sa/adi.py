"""E4 - abstract dispatch interpreter.

A structured abstract interpreter for one function body over *finite* domains:
sets of class names of an in-package hierarchy, enum member names, booleans.
It is used to decide which domain elements can reach a given statement
(failing default, yield, return) under hierarchy/enum narrowing.  Unknown
tests fork both ways; nothing is executed and no solver is involved.

Environment: dict key -> frozenset(atoms), where key is the dotted source form
of a name or attribute chain ("value", "self.positive", "param.kind").
"""

from __future__ import annotations

import ast
from dataclasses import dataclass, field
from typing import Callable, Dict, FrozenSet, List, Optional, Sequence, Set, Tuple

from .model import Program, dotted, last_attr, norm

Atoms = FrozenSet[str]
Env = Dict[str, Atoms]

TRUE = "True"
FALSE = "False"
BOOL: Atoms = frozenset({TRUE, FALSE})


def join_env(a: Optional[Env], b: Optional[Env]) -> Optional[Env]:
    if a is None:
        return b
    if b is None:
        return a
    out: Env = {}
    for k in set(a) | set(b):
        if k in a and k in b:
            out[k] = a[k] | b[k]
        # a key tracked on one side only is dropped (unknown on the other)
    return out


@dataclass
class Universe:
    """What a tracked key may range over when nothing is known."""

    kind: str  # "class" | "enum" | "bool"
    atoms: Atoms
    root: str = ""  # class root / enum class name


class Interp:
    def __init__(
        self,
        prog: Program,
        func: ast.FunctionDef,
        *,
        universes: Dict[str, Universe],
        summaries: Optional[Dict[str, Callable[["Interp", ast.Call, Env], Optional[Atoms]]]] = None,
        singletons: Optional[Dict[str, str]] = None,
        on_stmt: Optional[Callable[[ast.AST, Env], None]] = None,
        class_universe: Optional[Universe] = None,
        owner_class: Optional[str] = None,
        pseudo_bases: Optional[Dict[str, str]] = None,
        predicates: Optional[Dict[str, ast.FunctionDef]] = None,
    ) -> None:
        self.prog = prog
        self.func = func
        self.universes = dict(universes)
        self.summaries = summaries or {}
        # module-level singleton names -> the class atom they are an instance of
        self.singletons = singletons or {}
        self.on_stmt = on_stmt
        self.class_universe = class_universe
        self.owner_class = owner_class
        # pseudo atoms (e.g. "Never" = the NO_RETURN_VALUE singleton) -> class they are an instance of
        self.pseudo_bases = pseudo_bases or {}
        # boolean helper functions of one parameter whose single return expression is a condition
        self.predicates = predicates or {}
        self.returns: List[Tuple[ast.Return, Env]] = []
        self.yields: List[Tuple[ast.AST, Env]] = []
        self.fallthrough: Optional[Env] = None
        self.trace: List[str] = []

    # ------------------------------------------------------------ utilities
    def key_of(self, node: ast.AST) -> Optional[str]:
        if isinstance(node, ast.Call) and not node.args and not node.keywords:
            d = dotted(node.func)
            return d + "()" if d else None
        return dotted(node)

    def _is_sub(self, atom: str, cls: str) -> bool:
        if atom in self.pseudo_bases:
            return atom == cls or self.prog.is_subclass(self.pseudo_bases[atom], cls)
        return self.prog.is_subclass(atom, cls)

    def universe_for(self, key: str) -> Optional[Universe]:
        return self.universes.get(key)

    def enum_atom(self, node: ast.AST) -> Optional[Tuple[str, str]]:
        """ConstraintType.is_instance -> ("ConstraintType", "is_instance")"""
        d = dotted(node)
        if d and "." in d:
            parts = d.split(".")
            cls, mem = parts[-2], parts[-1]
            if cls in self.prog.classes and any(
                self.prog.is_subclass(cls, b) for b in ("Enum", "IntEnum", "Flag", "IntFlag")
            ):
                if mem in self.prog.enum_members(cls):
                    return cls, mem
        return None

    def classes_matching(self, spec: ast.AST, universe: Universe) -> Optional[Atoms]:
        """isinstance second argument -> subset of the universe it selects;
        None if it names something outside the hierarchy (unknown test)."""
        names: List[str] = []
        if isinstance(spec, ast.Tuple):
            elts = list(spec.elts)
        else:
            elts = [spec]
        for e in elts:
            d = dotted(e)
            if d is None:
                return None
            names.append(d.split(".")[-1])
        out: Set[str] = set()
        unknown = False
        for n in names:
            if n in self.prog.classes and any(a in self.prog.classes for a in universe.atoms):
                out.update(a for a in universe.atoms if (a in self.prog.classes or a in self.pseudo_bases) and self._is_sub(a, n))
                if n in universe.atoms:
                    out.add(n)
            elif n in universe.atoms:
                out.add(n)
            else:
                unknown = True
        if unknown:
            return None
        return frozenset(out)

    # ----------------------------------------------------------- expression
    def eval(self, node: ast.AST, env: Env) -> Optional[Atoms]:
        """Atoms the expression may evaluate to, or None (unknown)."""
        if isinstance(node, ast.Constant):
            if node.value is True:
                return frozenset({TRUE})
            if node.value is False:
                return frozenset({FALSE})
            return None
        k = self.key_of(node)
        if k is not None and k in env:
            return env[k]
        ea = self.enum_atom(node)
        if ea is not None:
            return frozenset({ea[1]})
        if isinstance(node, ast.Name) and node.id in self.singletons:
            return frozenset({self.singletons[node.id]})
        if isinstance(node, ast.IfExp):
            t, f = self.cond(node.test, env)
            a = self.eval(node.body, t) if t is not None else frozenset()
            b = self.eval(node.orelse, f) if f is not None else frozenset()
            if a is None or b is None:
                return None
            return a | b
        if isinstance(node, ast.Attribute):
            base = self.eval(node.value, env)
            if base is not None and self.class_universe is not None:
                return self.field_type(base, node.attr)
            return None
        if isinstance(node, ast.Call):
            name = last_attr(node)
            if name in self.summaries:
                return self.summaries[name](self, node, env)
            if (
                name is not None
                and self.class_universe is not None
                and name in self.class_universe.atoms
                and isinstance(node.func, ast.Name)
            ):
                return frozenset({name})
            return None
        if isinstance(node, ast.NamedExpr):
            return self.eval(node.value, env)
        return None

    def field_type(self, base: Atoms, attr: str) -> Optional[Atoms]:
        """Union over classes in `base` of the declared type of field `attr`
        when that type is a class of the tracked hierarchy."""
        assert self.class_universe is not None
        out: Set[str] = set()
        for c in base:
            found = None
            for ci in self.prog.mro(c):
                for f in ci.own_fields:
                    if f.name == attr:
                        found = f
                        break
                if found:
                    break
            if found is None or found.annotation is None:
                return None
            ann = norm(found.annotation).strip("'\"")
            if ann in self.prog.classes and ann in self.class_universe.atoms | {self.class_universe.root}:
                out.update(a for a in self.class_universe.atoms if self.prog.is_subclass(a, ann))
            else:
                return None
        return frozenset(out)

    # ------------------------------------------------------------ condition
    def cond(self, test: ast.AST, env: Env) -> Tuple[Optional[Env], Optional[Env]]:
        """(env if test true, env if test false); None = infeasible."""
        if isinstance(test, ast.UnaryOp) and isinstance(test.op, ast.Not):
            t, f = self.cond(test.operand, env)
            return f, t
        if isinstance(test, ast.BoolOp):
            if isinstance(test.op, ast.And):
                cur: Optional[Env] = env
                false_env: Optional[Env] = None
                for v in test.values:
                    if cur is None:
                        break
                    t, f = self.cond(v, cur)
                    false_env = join_env(false_env, f)
                    cur = t
                return cur, false_env
            else:
                cur = env
                true_env: Optional[Env] = None
                for v in test.values:
                    if cur is None:
                        break
                    t, f = self.cond(v, cur)
                    true_env = join_env(true_env, t)
                    cur = f
                return true_env, cur
        if isinstance(test, ast.NamedExpr):
            val = self.eval(test.value, env)
            k = self.key_of(test.target)
            if k is not None and val is not None:
                env = dict(env)
                env[k] = val
                self._adopt_universe(k, test.value, env)
            return self.cond(test.target, env) if k in env else (env, env)
        if isinstance(test, ast.Constant):
            if test.value:
                return env, None
            return None, env
        if (
            isinstance(test, ast.Call)
            and isinstance(test.func, ast.Name)
            and test.func.id in self.predicates
            and len(test.args) == 1
        ):
            k = self.key_of(test.args[0])
            pf = self.predicates[test.func.id]
            rets = [n for n in ast.walk(pf) if isinstance(n, ast.Return)]
            if k is not None and k in env and len(rets) == 1 and rets[0].value is not None and pf.args.args:
                pname = pf.args.args[0].arg
                sub = Interp(
                    self.prog,
                    pf,
                    universes={pname: self.universes[k]} if k in self.universes else {},
                    class_universe=self.class_universe,
                    singletons=self.singletons,
                    pseudo_bases=self.pseudo_bases,
                )
                t, f = sub.cond(rets[0].value, {pname: env[k]})
                te = self._narrow(env, k, t[pname]) if t is not None and pname in t else (env if t is not None else None)
                fe = self._narrow(env, k, f[pname]) if f is not None and pname in f else (env if f is not None else None)
                return te, fe
            return env, env
        if isinstance(test, ast.Call) and last_attr(test) == "isinstance" and len(test.args) == 2:
            k = self.key_of(test.args[0])
            if k is not None and k in env and k in self.universes and self.universes[k].kind == "class":
                sel = self.classes_matching(test.args[1], self.universes[k])
                if sel is not None:
                    return self._narrow(env, k, env[k] & sel), self._narrow(env, k, env[k] - sel)
                # isinstance against an unknown class: true branch unknown subset
                return env, env
            if k is None or k not in env:
                # an expression such as value.value: evaluate and narrow nothing
                return env, env
            return env, env
        if isinstance(test, ast.Compare) and len(test.ops) == 1:
            op = test.ops[0]
            left, right = test.left, test.comparators[0]
            if isinstance(op, (ast.Is, ast.IsNot, ast.Eq, ast.NotEq)):
                res = self._cmp_atom(left, right, env) or self._cmp_atom(right, left, env)
                if res is not None:
                    t, f = res
                    if isinstance(op, (ast.IsNot, ast.NotEq)):
                        return f, t
                    return t, f
            if isinstance(op, (ast.In, ast.NotIn)) and isinstance(right, (ast.Tuple, ast.List, ast.Set)):
                k = self.key_of(left)
                if k is not None and k in env:
                    atoms: Set[str] = set()
                    ok = True
                    for e in right.elts:
                        v = self._atom_of(e, k)
                        if v is None:
                            ok = False
                            break
                        atoms.add(v)
                    if ok:
                        sel = frozenset(atoms)
                        t = self._narrow(env, k, env[k] & sel)
                        f = self._narrow(env, k, env[k] - sel)
                        if isinstance(op, ast.NotIn):
                            return f, t
                        return t, f
            return env, env
        # bare truthiness of a tracked boolean / Optional key
        k = self.key_of(test)
        if k is not None and k in env and k in self.universes and self.universes[k].kind == "bool":
            return (
                self._narrow(env, k, env[k] & frozenset({TRUE})),
                self._narrow(env, k, env[k] & frozenset({FALSE})),
            )
        return env, env

    def _atom_of(self, node: ast.AST, key: str) -> Optional[str]:
        u = self.universes.get(key)
        if u is None:
            return None
        if u.kind == "enum":
            ea = self.enum_atom(node)
            if ea is not None and ea[0] == u.root:
                return ea[1]
            return None
        if u.kind == "bool":
            if isinstance(node, ast.Constant) and node.value is True:
                return TRUE
            if isinstance(node, ast.Constant) and node.value is False:
                return FALSE
            return None
        if u.kind == "class":
            # identity with a module-level singleton of a known class: narrowing
            # by identity says nothing about the class in the false branch.
            return None
        return None

    def _cmp_atom(self, a: ast.AST, b: ast.AST, env: Env) -> Optional[Tuple[Optional[Env], Optional[Env]]]:
        k = self.key_of(a)
        if k is None or k not in env:
            return None
        u = self.universes.get(k)
        if u is None:
            return None
        if u.kind == "class":
            # `x is SINGLETON`: true branch narrows to the singleton's class,
            # false branch keeps everything (other instances of the class exist).
            if isinstance(b, ast.Name) and b.id in self.singletons:
                cls = self.singletons[b.id]
                if cls in self.pseudo_bases:
                    # the singleton is its own atom: identity is exact
                    sel = frozenset({cls})
                    return self._narrow(env, k, env[k] & sel), self._narrow(env, k, env[k] - sel)
                sel = frozenset(x for x in env[k] if x == cls)
                return self._narrow(env, k, sel), env
            return None
        atom = self._atom_of(b, k)
        if atom is None:
            # comparing two tracked keys of the same universe
            kb = self.key_of(b)
            if kb is not None and kb in env and len(env[kb]) == 1:
                atom = next(iter(env[kb]))
            else:
                return None
        sel = frozenset({atom})
        return self._narrow(env, k, env[k] & sel), self._narrow(env, k, env[k] - sel)

    @staticmethod
    def _narrow(env: Env, key: str, atoms: Atoms) -> Optional[Env]:
        if not atoms:
            return None
        out = dict(env)
        out[key] = atoms
        return out

    # ------------------------------------------------------------ statements
    def run(self, env: Env) -> None:
        self.returns = []
        self.yields = []
        self._breaks: List[List[Optional[Env]]] = []
        self._conts: List[List[Optional[Env]]] = []
        self.fallthrough = self.block(self.func.body, dict(env))

    def _adopt_universe(self, key: str, value: ast.AST, env: Env) -> None:
        if key in self.universes:
            return
        # inherit from the (single) tracked key read by the value expression
        src_keys = []
        for n in ast.walk(value):
            k = self.key_of(n)
            if k is not None and k in self.universes:
                src_keys.append(k)
        kinds = {self.universes[k].kind for k in src_keys}
        if "class" in kinds and self.class_universe is not None:
            self.universes[key] = self.class_universe
        elif src_keys:
            self.universes[key] = self.universes[src_keys[0]]
        elif self.class_universe is not None:
            self.universes[key] = self.class_universe

    def _visit_exprs(self, node: ast.AST, env: Env) -> None:
        """Record yields nested in expressions of a statement."""
        for n in ast.walk(node):
            if isinstance(n, (ast.Yield, ast.YieldFrom)):
                self.yields.append((n, env))
                if self.on_stmt:
                    self.on_stmt(n, env)

    def assign(self, target: ast.AST, value: Optional[ast.AST], env: Env) -> Env:
        k = self.key_of(target)
        if k is None:
            return env
        env = dict(env)
        val = self.eval(value, env) if value is not None else None
        # invalidate keys that extend the assigned one (x.attr after x = ...)
        for other in list(env):
            if other != k and other.startswith(k + "."):
                if other in self.universes:
                    env[other] = self.universes[other].atoms
                else:
                    del env[other]
        if val is not None:
            env[k] = val
            if value is not None:
                self._adopt_universe(k, value, env)
            if k not in self.universes:
                del env[k]
        elif k in self.universes:
            env[k] = self.universes[k].atoms
        elif k in env:
            del env[k]
        return env

    def block(self, stmts: Sequence[ast.stmt], env: Optional[Env]) -> Optional[Env]:
        for st in stmts:
            if env is None:
                return None
            env = self.stmt(st, env)
        return env

    def stmt(self, st: ast.stmt, env: Env) -> Optional[Env]:
        if self.on_stmt:
            self.on_stmt(st, env)
        if isinstance(st, ast.Return):
            if st.value is not None:
                self._visit_exprs(st.value, env)
            self.returns.append((st, env))
            return None
        if isinstance(st, ast.Raise):
            return None
        if isinstance(st, ast.Assert):
            t, _ = self.cond(st.test, env)
            return t
        if isinstance(st, ast.Expr):
            self._visit_exprs(st.value, env)
            if isinstance(st.value, ast.Call) and last_attr(st.value) == "assert_never":
                return None
            return env
        if isinstance(st, ast.Assign):
            self._visit_exprs(st.value, env)
            for t in st.targets:
                if isinstance(t, (ast.Tuple, ast.List)):
                    for e in t.elts:
                        env = self.assign(e, None, env)
                else:
                    env = self.assign(t, st.value, env)
            return env
        if isinstance(st, ast.AnnAssign):
            if st.value is not None:
                self._visit_exprs(st.value, env)
                env = self.assign(st.target, st.value, env)
            return env
        if isinstance(st, ast.AugAssign):
            self._visit_exprs(st.value, env)
            return self.assign(st.target, None, env)
        if isinstance(st, ast.If):
            t, f = self.cond(st.test, env)
            out_t = self.block(st.body, t) if t is not None else None
            out_f = self.block(st.orelse, f) if f is not None else None
            return join_env(out_t, out_f)
        if isinstance(st, (ast.For, ast.AsyncFor)):
            self._visit_exprs(st.iter, env)
            self._breaks.append([])
            self._conts.append([])
            cur: Optional[Env] = env
            exit_env: Optional[Env] = env  # zero iterations
            for _ in range(3):
                if cur is None:
                    break
                body_env = self._clear_target(st.target, cur)
                out = self.block(st.body, body_env)
                for c in self._conts[-1]:
                    out = join_env(out, c)
                self._conts[-1] = []
                new_exit = join_env(exit_env, out)
                nxt = join_env(cur, out)
                if new_exit == exit_env and nxt == cur:
                    break
                exit_env, cur = new_exit, nxt
            breaks = self._breaks.pop()
            self._conts.pop()
            out2 = self.block(st.orelse, exit_env) if st.orelse else exit_env
            for b in breaks:
                out2 = join_env(out2, b)
            return out2
        if isinstance(st, ast.While):
            self._breaks.append([])
            self._conts.append([])
            cur = env
            exit_env = None
            for _ in range(3):
                if cur is None:
                    break
                t, f = self.cond(st.test, cur)
                exit_env = join_env(exit_env, f)
                out = self.block(st.body, t) if t is not None else None
                for c in self._conts[-1]:
                    out = join_env(out, c)
                self._conts[-1] = []
                nxt = join_env(cur, out)
                if nxt == cur:
                    break
                cur = nxt
            breaks = self._breaks.pop()
            self._conts.pop()
            out2 = self.block(st.orelse, exit_env) if st.orelse else exit_env
            for b in breaks:
                out2 = join_env(out2, b)
            return out2
        if isinstance(st, ast.Break):
            if self._breaks:
                self._breaks[-1].append(env)
            return None
        if isinstance(st, ast.Continue):
            if self._conts:
                self._conts[-1].append(env)
            return None
        if isinstance(st, (ast.With, ast.AsyncWith)):
            for item in st.items:
                self._visit_exprs(item.context_expr, env)
                if item.optional_vars is not None:
                    env = self.assign(item.optional_vars, None, env)
            return self.block(st.body, env)
        if isinstance(st, ast.Try):
            body_out = self.block(st.body, env)
            mid = join_env(env, body_out)
            outs: Optional[Env] = self.block(st.orelse, body_out) if st.orelse else body_out
            for h in st.handlers:
                outs = join_env(outs, self.block(h.body, mid))
            if st.finalbody:
                # finally runs on every exit; for fall-through use the join
                fin_in = outs if outs is not None else mid
                fin_out = self.block(st.finalbody, fin_in)
                return fin_out if outs is not None else None
            return outs
        if isinstance(st, (ast.FunctionDef, ast.AsyncFunctionDef, ast.ClassDef)):
            return env
        if isinstance(st, (ast.Pass, ast.Import, ast.ImportFrom, ast.Global, ast.Nonlocal, ast.Delete)):
            return env
        return env

    def _clear_target(self, target: ast.AST, env: Env) -> Env:
        env = dict(env)
        for n in ast.walk(target):
            k = self.key_of(n)
            if k is not None:
                for other in list(env):
                    if other == k or other.startswith(k + "."):
                        if other in self.universes:
                            env[other] = self.universes[other].atoms
                        else:
                            del env[other]
        return env


# ---------------------------------------------------------------- helpers


def class_universe(prog: Program, root: str, exclude: Sequence[str] = ()) -> Universe:
    atoms = frozenset(c for c in prog.subclasses(root) if c not in exclude)
    return Universe("class", atoms, root)


def enum_universe(prog: Program, enum_cls: str) -> Universe:
    return Universe("enum", frozenset(prog.enum_members(enum_cls)), enum_cls)


BOOL_UNIVERSE = Universe("bool", BOOL, "bool")


class UnarySummary:
    """Least-fixpoint summary atom -> set of atoms returned, for a function
    whose first parameter ranges over a class universe (e.g. the normaliser
    replace_known_sequence_value).  Recursive calls use the summary itself."""

    def __init__(
        self,
        prog: Program,
        func: ast.FunctionDef,
        cu: Universe,
        singletons: Dict[str, str],
        pseudo_bases: Optional[Dict[str, str]] = None,
    ) -> None:
        self.prog = prog
        self.func = func
        self.cu = cu
        self.singletons = singletons
        self.pseudo_bases = pseudo_bases or {}
        self.param = func.args.args[0].arg
        self.table: Dict[str, Set[str]] = {a: set() for a in cu.atoms}
        self._solve()

    def apply(self, atoms: Atoms) -> Atoms:
        out: Set[str] = set()
        for a in atoms:
            out |= self.table.get(a, set())
        return frozenset(out)

    def _summary(self, it: Interp, call: ast.Call, env: Env) -> Optional[Atoms]:
        if not call.args:
            return None
        base = it.eval(call.args[0], env)
        if base is None:
            base = self.cu.atoms
        return self.apply(base)

    def as_summary(self) -> Callable[[Interp, ast.Call, Env], Optional[Atoms]]:
        return self._summary

    def _solve(self) -> None:
        for _ in range(10):
            changed = False
            for a in sorted(self.cu.atoms):
                it = Interp(
                    self.prog,
                    self.func,
                    universes={self.param: self.cu},
                    class_universe=self.cu,
                    singletons=self.singletons,
                    summaries={self.func.name: self._summary},
                    pseudo_bases=self.pseudo_bases,
                )
                it.run({self.param: frozenset({a})})
                res: Set[str] = set()
                for r, env in it.returns:
                    if r.value is None:
                        continue
                    v = it.eval(r.value, env)
                    if v is None:
                        v = self.cu.atoms
                    res |= v
                if not res <= self.table[a]:
                    self.table[a] |= res
                    changed = True
            if not changed:
                break
