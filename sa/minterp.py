"""E8 - opaque-value abstract interpreter for one function body.

A function of /repo is interpreted *from its AST* over an abstract store in
which every type-level value (Value, Composite, messages, ...) is an opaque
token and only the control skeleton is concrete: small integers, booleans,
None, enum-member tokens, strings used as names, lists / dicts / sets of those,
and model objects with a fixed attribute table.  Nothing of pyanalyze is
imported or executed; the interpreter understands a closed list of statement
and expression forms and raises `Unsupported` (-> ANALYSIS-ERROR, exit 2) on
anything else, so a rewritten function is never silently mis-modelled.

Used to extract a finite transition system from `Signature.bind_arguments`
(C05) and to enumerate it exhaustively against a reference binder.
"""

from __future__ import annotations

import ast
from typing import Any, Callable, Dict, List, Optional, Sequence, Tuple

from .model import norm


_BUILTIN_TYPES = {t.__name__: t for t in (bool, int, float, complex, str, bytes, bytearray, tuple, list, dict, set, frozenset, object, type)}


NATIVE_MODULE_CALLS = {("inspect", "getattr_static"), ("inspect", "isfunction"), ("inspect", "isclass"), ("inspect", "ismethod"), ("ast", "parse"), ("ast", "walk"), ("ast", "dump")}
NATIVE_MODULE_CONSTRUCTORS = {("ast", "keyword"), ("ast", "Call"), ("ast", "Name"), ("ast", "Constant"), ("ast", "FormattedValue"), ("ast", "JoinedStr")}


class _OpaqueIter(Exception):
    pass


class Unsupported(Exception):
    def __init__(self, node: ast.AST, why: str = "") -> None:
        super().__init__(f"line {getattr(node, 'lineno', '?')}: unsupported form `{norm(node)[:80]}` {why}")
        self.node = node


class Opaque:
    """A value the abstraction does not look into (always truthy, equal only to itself)."""

    __slots__ = ("label",)

    def __init__(self, label: str) -> None:
        self.label = label

    def __repr__(self) -> str:
        return f"<{self.label}>"


class Sym:
    """Interned symbolic constant (enum members, marker singletons): identity == equality."""

    _pool: Dict[str, "Sym"] = {}
    __slots__ = ("name",)

    def __new__(cls, name: str) -> "Sym":
        s = cls._pool.get(name)
        if s is None:
            s = object.__new__(cls)
            s.name = name
            cls._pool[name] = s
        return s

    def __repr__(self) -> str:
        return self.name


class Obj:
    """Model object with a fixed attribute table."""

    def __init__(self, _kind: str, **attrs: Any) -> None:
        self.__dict__["_kind"] = _kind
        self.__dict__["_attrs"] = dict(attrs)

    def get(self, name: str, node: ast.AST) -> Any:
        try:
            return self._attrs[name]
        except KeyError:
            raise Unsupported(node, f"(model object {self._kind} has no attribute {name})")

    def __repr__(self) -> str:
        return f"{self._kind}({self._attrs})"


class _Return(Exception):
    def __init__(self, value: Any) -> None:
        self.value = value


class _Break(Exception):
    pass


class _Continue(Exception):
    pass


class AssertionFailed(Exception):
    pass


class ModelError(Exception):
    """The interpreted code itself fails on a model input (IndexError, KeyError, ...)."""


class PyRaise(Exception):
    """An exception raised by the interpreted code (`raise X(...)`, a missing dict key)."""

    def __init__(self, kind: str, value: Any = None) -> None:
        super().__init__(kind)
        self.kind = kind
        self.value = value


class _Yielded:
    """Marker wrapping the list of values an interpreted generator produced."""


class Interp:
    """Interprets the statements of one function.  `effects` receives
    (method name, receiver, evaluated args) for calls on `self` / model objects
    listed in `effect_methods`; everything else that is called and not in the
    builtin table yields an Opaque."""

    MAX_STEPS = 20000

    def __init__(
        self,
        env: Dict[str, Any],
        effect_methods: Dict[str, Callable[..., Any]],
        syms: Sequence[str] = (),
        funcs: Optional[Dict[str, Callable[..., Any]]] = None,
        isinstance_hook: Optional[Callable[[Any, str], Optional[bool]]] = None,
        method_defs: Optional[Dict[Tuple[str, str], ast.FunctionDef]] = None,
        module_defs: Optional[Dict[str, ast.FunctionDef]] = None,
        globals_: Optional[Dict[str, Any]] = None,
    ) -> None:
        self.env = env
        self.effect_methods = effect_methods
        self.steps = 0
        self.syms = set(syms)
        self.funcs = funcs or {}  # module-level functions given a model (name -> handler(args))
        self.isinstance_hook = isinstance_hook
        self.method_defs = method_defs or {}  # (model kind, method) -> source to interpret
        self.module_defs = module_defs or {}  # module-level functions interpreted from source
        self.globals = globals_ or {}  # module-level names given a model value (shared with callees)

    # ------------------------------------------------------------ statements
    def run(self, fn: ast.FunctionDef) -> Any:
        body = fn.body
        if body and isinstance(body[0], ast.Expr) and isinstance(body[0].value, ast.Constant) and isinstance(body[0].value.value, str):
            body = body[1:]
        is_gen = getattr(self, "cm", None) is None and any(isinstance(n, (ast.Yield, ast.YieldFrom)) for n in _walk_no_nested_defs(fn))
        if is_gen:
            # generators are run eagerly: the call returns the list of yielded values
            self.yielded: Optional[List[Any]] = []
        try:
            self.block(body)
        except _Return as r:
            return self.yielded if is_gen else r.value
        return self.yielded if is_gen else None

    def block(self, stmts: Sequence[ast.stmt]) -> None:
        for st in stmts:
            self.stmt(st)

    def stmt(self, st: ast.stmt) -> None:
        self.steps += 1
        if self.steps > self.MAX_STEPS:
            raise Unsupported(st, "(step budget exhausted)")
        if isinstance(st, ast.FunctionDef) and not st.decorator_list:
            # a nested function: a closure over the enclosing function's variables (read at call time)
            outer = self

            def closure(*a: Any, __fn: ast.FunctionDef = st, **k: Any) -> Any:
                saved = outer.globals
                outer.globals = {**saved, **outer.env}
                try:
                    return outer.call_def(__fn, list(a), __fn, k)
                finally:
                    outer.globals = saved

            self.env[st.name] = closure
        elif isinstance(st, ast.If):
            self.block(st.body if self.truth(self.ev(st.test)) else st.orelse)
        elif isinstance(st, ast.Assign):
            v = self.ev(st.value)
            for t in st.targets:
                self.assign(t, v)
        elif isinstance(st, ast.AnnAssign):
            if st.value is not None:
                self.assign(st.target, self.ev(st.value))
        elif isinstance(st, ast.AugAssign):
            cur = self.ev(st.target)
            rhs = self.ev(st.value)
            self.assign(st.target, self.binop(st.op, cur, rhs, st))
        elif isinstance(st, ast.Expr):
            self.ev(st.value)
        elif isinstance(st, ast.Return):
            raise _Return(self.ev(st.value) if st.value is not None else None)
        elif isinstance(st, ast.For):
            it = self.ev(st.iter)
            if isinstance(it, dict):
                it = list(it)
            if isinstance(it, type) and issubclass(it, __import__("enum").Enum):
                it = list(it)
            if not isinstance(it, (list, tuple, set, frozenset)):
                raise Unsupported(st, "(iteration over a non-collection)")
            broke = False
            for x in list(it):
                self.assign(st.target, x)
                try:
                    self.block(st.body)
                except _Continue:
                    continue
                except _Break:
                    broke = True
                    break
            if not broke:
                self.block(st.orelse)
        elif isinstance(st, ast.While):
            n = 0
            while self.truth(self.ev(st.test)):
                n += 1
                if n > 1000:
                    raise Unsupported(st, "(loop bound)")
                try:
                    self.block(st.body)
                except _Continue:
                    continue
                except _Break:
                    break
        elif isinstance(st, ast.Continue):
            raise _Continue()
        elif isinstance(st, ast.Break):
            raise _Break()
        elif isinstance(st, ast.Pass):
            pass
        elif isinstance(st, ast.Assert):
            if not self.truth(self.ev(st.test)):
                raise AssertionFailed(norm(st))
        elif isinstance(st, ast.With):
            entered: List[Any] = []
            exc: Optional[BaseException] = None
            try:
                for item in st.items:
                    v = self.ev(item.context_expr)
                    if isinstance(v, Obj) and "__enter__" in v._attrs:
                        entered.append(v)
                        v = v._attrs["__enter__"]()
                    if item.optional_vars is not None:
                        self.assign(item.optional_vars, v)
                self.block(st.body)
            except BaseException as ex:
                exc = ex
                raise
            finally:
                for cm in reversed(entered):
                    cm._attrs["__exit__"](exc if isinstance(exc, PyRaise) else None)
        elif isinstance(st, ast.Raise):
            if st.exc is None:
                raise Unsupported(st, "(bare raise)")
            if isinstance(st.exc, ast.Name):
                raise PyRaise(st.exc.id, None)
            v = self.ev(st.exc)
            kind = v._kind if isinstance(v, Obj) else (norm(st.exc.func) if isinstance(st.exc, ast.Call) else "Exception")
            raise PyRaise(kind.split(".")[0] if isinstance(st.exc, ast.Call) and isinstance(st.exc.func, ast.Attribute) else kind, v)
        elif isinstance(st, ast.Try) and st.finalbody:
            inner = ast.Try(body=st.body, handlers=st.handlers, orelse=st.orelse, finalbody=[])
            ast.copy_location(inner, st)
            try:
                if st.handlers:
                    self.stmt(inner)
                else:
                    self.block(st.body)
            finally:
                self.block(st.finalbody)
        elif isinstance(st, ast.Try):
            try:
                self.block(st.body)
            except PyRaise as pr:
                for h in st.handlers:
                    names: List[str] = []
                    if h.type is None:
                        names = ["*"]
                    elif isinstance(h.type, ast.Tuple):
                        names = [norm(x) for x in h.type.elts]
                    else:
                        names = [norm(h.type)]
                    if "*" in names or "Exception" in names or "BaseException" in names or pr.kind in names:
                        if h.name:
                            self.env[h.name] = pr.value if pr.value is not None else Opaque(pr.kind)
                        self.block(h.body)
                        break
                else:
                    raise
            else:
                self.block(st.orelse)
        elif isinstance(st, ast.Delete):
            for t in st.targets:
                if not isinstance(t, ast.Subscript):
                    raise Unsupported(st, "(del of a non-subscript)")
                c = self.ev(t.value)
                k = self.ev(t.slice)
                if not isinstance(c, (list, dict)):
                    raise Unsupported(st, "(del on a non-container)")
                try:
                    del c[k]
                except (IndexError, KeyError):
                    raise ModelError(f"line {st.lineno}: `{norm(st)}` fails in the model (index {k!r} of a container of size {len(c)})")
        else:
            raise Unsupported(st)

    def assign(self, target: ast.AST, v: Any) -> None:
        if isinstance(target, ast.Name):
            self.env[target.id] = v
        elif isinstance(target, (ast.Tuple, ast.List)):
            if isinstance(v, Opaque):
                for e in target.elts:
                    self.assign(e, Opaque(v.label + "[i]"))
                return
            if isinstance(v, (set, frozenset)):
                v = list(v)
            stars = [i for i, e in enumerate(target.elts) if isinstance(e, ast.Starred)]
            if len(stars) == 1 and isinstance(v, (tuple, list)):
                i = stars[0]
                after = len(target.elts) - i - 1
                if len(v) < len(target.elts) - 1:
                    raise PyRaise("ValueError", None)
                for e, x in zip(target.elts[:i], v[:i]):
                    self.assign(e, x)
                self.assign(target.elts[i].value, list(v[i:len(v) - after]))  # type: ignore[attr-defined]
                for e, x in zip(target.elts[i + 1:], v[len(v) - after:] if after else []):
                    self.assign(e, x)
                return
            if not isinstance(v, (tuple, list)) or len(v) != len(target.elts):
                raise Unsupported(target, "(unpacking shape)")
            for e, x in zip(target.elts, v):
                self.assign(e, x)
        elif isinstance(target, ast.Subscript):
            c = self.ev(target.value)
            k = self.ev(target.slice)
            if not isinstance(c, (dict, list)):
                raise Unsupported(target, "(subscript store on a non-container)")
            try:
                c[k] = v
            except TypeError as ex:
                raise PyRaise("TypeError", None)
        elif isinstance(target, ast.Attribute):
            o = self.ev(target.value)
            if not isinstance(o, Obj):
                raise Unsupported(target, "(attribute store on a non-model object)")
            if target.attr not in o._attrs:
                raise Unsupported(target, f"(model object {o._kind} has no field {target.attr})")
            o._attrs[target.attr] = v
        else:
            raise Unsupported(target, "(assignment target)")

    # ----------------------------------------------------------- expressions
    def truth(self, v: Any) -> bool:
        if isinstance(v, (Opaque, Sym, Obj)):
            return True
        return bool(v)

    def ev(self, e: ast.AST) -> Any:
        if isinstance(e, ast.Constant):
            return e.value
        if isinstance(e, ast.Name):
            if e.id in self.env:
                return self.env[e.id]
            if e.id in self.globals:
                return self.globals[e.id]
            if e.id in self.syms:
                return Sym(e.id)
            if e.id in ("True", "False", "None"):
                return {"True": True, "False": False, "None": None}[e.id]
            if e.id in _BUILTIN_TYPES:
                return _BUILTIN_TYPES[e.id]
            return Opaque(e.id)
        if isinstance(e, ast.Attribute):
            base = self.ev(e.value)
            if isinstance(base, Obj):
                return base.get(e.attr, e)
            if isinstance(base, ast.AST) or base is ast or isinstance(base, __import__("types").ModuleType):
                try:
                    return getattr(base, e.attr)
                except AttributeError:
                    raise PyRaise("AttributeError", e.attr)
            if isinstance(base, Opaque):
                if isinstance(e.value, ast.Name) and e.value.id[:1].isupper():
                    return Sym(f"{e.value.id}.{e.attr}")  # enum member / class constant
                return Opaque(f"{base.label}.{e.attr}")
            if self.globals.get("__native_getattr__") and not isinstance(base, (Sym, str, bytes, int, float, list, tuple, dict, set, frozenset)):
                # models whose inputs are real runtime objects (typing forms, classes) read their attributes as the code does
                try:
                    return getattr(base, e.attr)
                except AttributeError:
                    raise PyRaise("AttributeError", e.attr)
            raise Unsupported(e, "(attribute of a concrete value)")
        if isinstance(e, ast.JoinedStr):
            if self.globals.get("__concrete_fstrings__"):
                parts: List[str] = []
                for v in e.values:
                    if isinstance(v, ast.Constant) and isinstance(v.value, str):
                        parts.append(v.value)
                    elif isinstance(v, ast.FormattedValue) and v.conversion == -1 and v.format_spec is None:
                        x = self.ev(v.value)
                        if isinstance(x, (str, int)) and not isinstance(x, bool):
                            parts.append(str(x))
                        else:
                            parts = None  # type: ignore[assignment]
                            break
                    else:
                        parts = None  # type: ignore[assignment]
                        break
                if parts is not None:
                    return "".join(parts)
            const = "".join(v.value if isinstance(v, ast.Constant) and isinstance(v.value, str) else "{}" for v in e.values)
            return Opaque("str:" + const)
        if isinstance(e, ast.Tuple):
            return tuple(self.elts(e.elts))
        if isinstance(e, ast.List):
            return list(self.elts(e.elts))
        if isinstance(e, ast.Set):
            return set(self.elts(e.elts))
        if isinstance(e, ast.Dict):
            out: Dict[Any, Any] = {}
            for k, v in zip(e.keys, e.values):
                if k is None:
                    d = self.ev(v)
                    if not isinstance(d, dict):
                        raise Unsupported(e, "(dict unpacking of a non-dict)")
                    out.update(d)
                    continue
                out[self.ev(k)] = self.ev(v)
            return out
        if isinstance(e, ast.UnaryOp):
            v = self.ev(e.operand)
            if isinstance(e.op, ast.Not):
                return not self.truth(v)
            if isinstance(v, (int, float, complex)) and not isinstance(v, (Obj, Opaque, Sym)):
                try:
                    if isinstance(e.op, ast.USub):
                        return -v
                    if isinstance(e.op, ast.UAdd):
                        return +v
                    if isinstance(e.op, ast.Invert):
                        return ~v  # type: ignore[operator]
                except TypeError:
                    raise PyRaise("TypeError", None)
            raise Unsupported(e)
        if isinstance(e, ast.BoolOp):
            if isinstance(e.op, ast.And):
                v: Any = True
                for x in e.values:
                    v = self.ev(x)
                    if not self.truth(v):
                        return v
                return v
            v = False
            for x in e.values:
                v = self.ev(x)
                if self.truth(v):
                    return v
            return v
        if isinstance(e, ast.Compare):
            left = self.ev(e.left)
            for op, r in zip(e.ops, e.comparators):
                right = self.ev(r)
                if not self.compare(op, left, right, e):
                    return False
                left = right
            return True
        if isinstance(e, ast.IfExp):
            return self.ev(e.body) if self.truth(self.ev(e.test)) else self.ev(e.orelse)
        if isinstance(e, ast.BinOp):
            return self.binop(e.op, self.ev(e.left), self.ev(e.right), e)
        if isinstance(e, ast.Subscript):
            c = self.ev(e.value)
            if isinstance(e.slice, ast.Slice):
                if isinstance(c, Opaque):
                    return Opaque(c.label + "[:]")
                lo = self.ev(e.slice.lower) if e.slice.lower is not None else None
                hi = self.ev(e.slice.upper) if e.slice.upper is not None else None
                if not isinstance(c, (list, tuple, str, bytes)):
                    raise Unsupported(e, "(slice of a non-sequence)")
                return c[lo:hi]
            k = self.ev(e.slice)
            if isinstance(c, Opaque):
                return Opaque(c.label + "[]")
            try:
                return c[k]
            except KeyError:
                raise PyRaise("KeyError", k)
            except IndexError:
                raise PyRaise("IndexError", k)
            except TypeError:
                raise Unsupported(e, "(subscript out of the model)")
        if isinstance(e, ast.Call):
            return self.call(e)
        if isinstance(e, (ast.ListComp, ast.SetComp, ast.GeneratorExp, ast.DictComp)):
            return self.comp(e)
        if isinstance(e, ast.Yield) and getattr(self, "cm", None) is not None:
            cm = self.cm
            cm.value = self.ev(e.value) if e.value is not None else None
            cm.to_main.set()
            cm.to_gen.wait()
            cm.to_gen.clear()
            if cm.resume_exc is not None:
                raise cm.resume_exc
            return None
        if isinstance(e, ast.Yield):
            if getattr(self, "yielded", None) is None:
                raise Unsupported(e, "(yield outside a modelled generator)")
            self.yielded.append(self.ev(e.value) if e.value is not None else None)  # type: ignore[union-attr]
            return None
        if isinstance(e, ast.YieldFrom):
            if getattr(self, "yielded", None) is None:
                raise Unsupported(e, "(yield from outside a modelled generator)")
            v = self.ev(e.value)
            if isinstance(v, Opaque):
                raise Unsupported(e, "(yield from an opaque value)")
            self.yielded.extend(list(v))  # type: ignore[union-attr]
            return None
        if isinstance(e, ast.Lambda):
            params = [a.arg for a in e.args.args]
            outer = self

            def fn_(*args: Any) -> Any:
                sub = Interp(dict(outer.env), outer.effect_methods, tuple(outer.syms), outer.funcs, outer.isinstance_hook, outer.method_defs, outer.module_defs, outer.globals)
                sub.env.update(dict(zip(params, args)))
                return sub.ev(e.body)

            return fn_
        if isinstance(e, ast.Starred):
            raise Unsupported(e, "(starred outside a call)")
        raise Unsupported(e)

    def elts(self, elts: Sequence[ast.AST]) -> List[Any]:
        out: List[Any] = []
        for x in elts:
            if isinstance(x, ast.Starred):
                v = self.ev(x.value)
                if isinstance(v, Opaque):
                    out.append(Opaque("*" + v.label))
                else:
                    out.extend(list(v))
            else:
                out.append(self.ev(x))
        return out

    def compare(self, op: ast.cmpop, a: Any, b: Any, node: ast.AST) -> bool:
        if isinstance(op, ast.Is):
            return a is b if not _both_prim(a, b) else (a == b and type(a) is type(b))
        if isinstance(op, ast.IsNot):
            return not self.compare(ast.Is(), a, b, node)
        if isinstance(op, (ast.Eq, ast.NotEq)):
            if isinstance(a, Opaque) or isinstance(b, Opaque):
                res = a is b
            else:
                res = a == b
            return res if isinstance(op, ast.Eq) else not res
        if isinstance(op, (ast.In, ast.NotIn)):
            if isinstance(b, Opaque):
                raise Unsupported(node, "(membership in an opaque value)")
            if isinstance(b, Obj):
                md = self.method_defs.get((b._kind, "__contains__"))
                if md is None:
                    raise Unsupported(node, f"(membership in a model object {b._kind} without __contains__)")
                res = self.truth(self.call_def(md, [b, a], node))
                return res if isinstance(op, ast.In) else not res
            try:
                res = a in b
            except Exception as ex:  # e.g. an unhashable model value looked up in a dict
                raise PyRaise(type(ex).__name__, None)
            return res if isinstance(op, ast.In) else not res
        if isinstance(a, tuple) and isinstance(b, tuple) and all(isinstance(x, (int, str)) and not isinstance(x, bool) for x in tuple(a) + tuple(b)):
            # version tuples (sys.version_info against a literal)
            try:
                if isinstance(op, ast.LtE):
                    return tuple(a) <= tuple(b)
                if isinstance(op, ast.Lt):
                    return tuple(a) < tuple(b)
                if isinstance(op, ast.GtE):
                    return tuple(a) >= tuple(b)
                if isinstance(op, ast.Gt):
                    return tuple(a) > tuple(b)
            except TypeError:
                raise PyRaise("TypeError", None)
        if isinstance(a, (set, frozenset)) and isinstance(b, (set, frozenset)):
            if isinstance(op, ast.LtE):
                return a <= b
            if isinstance(op, ast.Lt):
                return a < b
            if isinstance(op, ast.GtE):
                return a >= b
            if isinstance(op, ast.Gt):
                return a > b
        if isinstance(a, int) and isinstance(b, int):
            if isinstance(op, ast.Lt):
                return a < b
            if isinstance(op, ast.LtE):
                return a <= b
            if isinstance(op, ast.Gt):
                return a > b
            if isinstance(op, ast.GtE):
                return a >= b
        raise Unsupported(node, "(comparison)")

    def binop(self, op: ast.operator, a: Any, b: Any, node: ast.AST) -> Any:
        hook = self.globals.get("__binop__")
        if hook is not None:
            r = hook(op, a, b)
            if r is not NotImplemented:
                return r
        if isinstance(a, Opaque) or isinstance(b, Opaque):
            return Opaque("binop")
        if isinstance(op, ast.Add) and type(a) is type(b) and isinstance(a, (int, list, tuple, str, bytes)):
            return a + b
        if isinstance(op, ast.Mult) and isinstance(a, (str, list, tuple)) and isinstance(b, int) and not isinstance(b, bool):
            return a * b
        if isinstance(op, ast.Mult) and isinstance(a, int) and isinstance(b, int):
            return a * b
        if isinstance(op, ast.Mod) and isinstance(a, str):
            return Opaque("str")
        if isinstance(op, ast.Sub) and isinstance(a, int) and isinstance(b, int):
            return a - b
        if isinstance(op, ast.Sub) and isinstance(a, (set, frozenset)) and isinstance(b, (set, frozenset)):
            return a - b
        if isinstance(op, ast.Sub) and isinstance(a, list) and isinstance(b, (set, frozenset)):
            # `d.keys() - s`: this engine represents a keys view as a list
            try:
                return set(a) - b
            except TypeError:
                raise PyRaise("TypeError", None)
        if isinstance(op, ast.BitOr) and isinstance(a, (set, frozenset)) and isinstance(b, (set, frozenset)):
            return a | b
        if isinstance(op, ast.BitAnd) and isinstance(a, (set, frozenset)) and isinstance(b, (set, frozenset)):
            return a & b
        raise Unsupported(node, "(binary operator)")

    def comp(self, e: ast.AST) -> Any:
        gens = e.generators  # type: ignore[attr-defined]
        results: List[Any] = []

        def rec(i: int) -> None:
            if i == len(gens):
                if isinstance(e, ast.DictComp):
                    results.append((self.ev(e.key), self.ev(e.value)))
                else:
                    results.append(self.ev(e.elt))  # type: ignore[attr-defined]
                return
            g = gens[i]
            it = self.ev(g.iter)
            if isinstance(it, Opaque):
                raise _OpaqueIter()
            if isinstance(it, dict):
                it = list(it)
            if isinstance(it, type) and issubclass(it, __import__("enum").Enum):
                it = list(it)
            for x in list(it):
                self.assign(g.target, x)
                if all(self.truth(self.ev(c)) for c in g.ifs):
                    rec(i + 1)

        # a comprehension has its own scope: its targets do not leak into (or clobber names of) the function
        targets = {n.id for g in gens for n in ast.walk(g.target) if isinstance(n, ast.Name)}
        missing = object()
        saved = {t: self.env.get(t, missing) for t in targets}
        opaque = False
        try:
            rec(0)
        except _OpaqueIter:
            opaque = True  # what is built from an opaque iterable is opaque (not: empty)
        finally:
            for t, v in saved.items():
                if v is missing:
                    self.env.pop(t, None)
                else:
                    self.env[t] = v
        if opaque:
            return Opaque("comprehension")
        try:
            if isinstance(e, ast.DictComp):
                return dict(results)
            if isinstance(e, ast.SetComp):
                return set(results)
        except TypeError:
            raise PyRaise("TypeError", None)  # an unhashable element / key, as in CPython
        return list(results)

    def call(self, e: ast.Call) -> Any:
        f = e.func
        # builtins on concrete values
        if isinstance(f, ast.Name):
            nm = f.id
            if nm in ("len", "set", "list", "tuple", "sorted", "bool", "int", "dict", "frozenset", "any", "all", "enumerate", "zip", "range", "max", "min", "sum", "reversed") and nm not in self.env:
                args = self.elts(e.args)
                kwargs = {k.arg: self.ev(k.value) for k in e.keywords if k.arg}
                if any(isinstance(a, Opaque) for a in args):
                    return Opaque(nm)
                try:
                    if nm == "sorted":
                        if "key" in kwargs and callable(kwargs["key"]):
                            return sorted(args[0], key=kwargs["key"], reverse=bool(kwargs.get("reverse", False)))
                        if "key" in kwargs:
                            raise Unsupported(e, "(sorted with an opaque key)")
                        try:
                            return sorted(args[0], reverse=bool(kwargs.get("reverse", False)))
                        except TypeError:
                            return sorted(args[0], key=repr, reverse=bool(kwargs.get("reverse", False)))
                    if nm in ("max", "min") and set(kwargs) == {"default"} and len(args) == 1:
                        return {"max": max, "min": min}[nm](args[0], default=kwargs["default"])
                    if kwargs:
                        raise Unsupported(e, "(keyword arguments to a builtin)")
                    if nm in ("max", "min", "sum"):
                        if len(args) == 1 and not args[0] and nm != "sum":
                            raise ModelError(f"line {e.lineno}: {nm}() of an empty sequence in the model")
                        return {"max": max, "min": min, "sum": sum}[nm](*args)
                    if nm == "reversed":
                        return list(reversed(args[0]))
                    if nm in ("enumerate", "zip", "range"):
                        return list({"enumerate": enumerate, "zip": zip, "range": range}[nm](*args))
                    if nm in ("any", "all"):
                        return {"any": any, "all": all}[nm](self.truth(x) for x in args[0])
                    if nm == "int":
                        try:
                            return int(*args)
                        except ValueError:
                            raise PyRaise("ValueError", None)
                    return {"len": len, "set": set, "list": list, "tuple": tuple, "bool": self.truth, "dict": dict, "frozenset": frozenset}[nm](*args)
                except (TypeError, ValueError):
                    if nm == "len" and len(args) == 1 and not isinstance(args[0], (Obj, Sym, Opaque)):
                        raise PyRaise("TypeError", None)  # len() of a concrete object without __len__
                    raise Unsupported(e, "(builtin on a model value)")
            if (nm in self.env and (callable(self.env[nm]) or isinstance(self.env[nm], Obj))) or (nm not in self.env and nm in self.globals and (callable(self.globals[nm]) or isinstance(self.globals[nm], Obj))):
                target = self.env[nm] if nm in self.env else self.globals[nm]
                args = self.elts(e.args)
                kwargs = {k.arg: self.ev(k.value) for k in e.keywords if k.arg}
                if isinstance(target, Obj):
                    ctor = target.get("__call__", e)
                    return ctor(*args, **kwargs)
                try:
                    return target(*args, **kwargs)
                except (Unsupported, PyRaise, ModelError, AssertionFailed, _Return, _Break, _Continue):
                    raise
                except Exception as ex:  # a native callable of the model raised: a Python exception of the interpreted code
                    raise PyRaise(type(ex).__name__, None)
            if nm == "type" and len(e.args) == 1 and nm not in self.env:
                v = self.ev(e.args[0])
                if isinstance(v, Obj):
                    return Sym(v._kind)  # the class of a model object is the symbol its class name evaluates to
                if isinstance(v, (Opaque, Sym)):
                    raise Unsupported(e, "(type() of a model object)")
                return type(v)
            if nm == "next" and len(e.args) == 1 and nm not in self.env and isinstance(e.args[0], ast.Call) and isinstance(e.args[0].func, ast.Name) and e.args[0].func.id == "iter" and len(e.args[0].args) == 1:
                c = self.ev(e.args[0].args[0])
                if isinstance(c, (list, tuple)):
                    if not c:
                        raise PyRaise("StopIteration", None)
                    return c[0]
                if isinstance(c, (set, frozenset, dict)):
                    if not c:
                        raise PyRaise("StopIteration", None)
                    # an arbitrary element, chosen reproducibly (see set.pop)
                    return sorted(c, key=lambda v: (type(v).__name__, repr(v)))[0]
            if nm == "getattr" and len(e.args) in (2, 3) and nm not in self.env and self.globals.get("__native_getattr__"):
                o = self.ev(e.args[0])
                a = self.ev(e.args[1])
                if isinstance(a, str) and not isinstance(o, (Opaque, Sym)):
                    if isinstance(o, Obj):
                        if a in o._attrs:
                            return o._attrs[a]
                        if len(e.args) == 3:
                            return self.ev(e.args[2])
                        raise PyRaise("AttributeError", a)
                    try:
                        return getattr(o, a)
                    except AttributeError:
                        if len(e.args) == 3:
                            return self.ev(e.args[2])
                        raise PyRaise("AttributeError", a)
                    except Exception as ex:  # a property / __getattr__ of the runtime object raised
                        raise PyRaise(type(ex).__name__, None)
                raise Unsupported(e, "(getattr on an abstract value)")
            if nm == "hasattr" and len(e.args) == 2 and nm not in self.env:
                o = self.ev(e.args[0])
                a = self.ev(e.args[1])
                if isinstance(o, Obj) and isinstance(a, str):
                    return a in o._attrs
                if o is None:
                    return False
                if not isinstance(o, (Opaque, Sym)) and isinstance(a, str):
                    return hasattr(o, a)
                raise Unsupported(e, "(hasattr on a non-model value)")
            if nm == "issubclass" and len(e.args) == 2 and nm not in self.env:
                a0, a1 = self.ev(e.args[0]), self.ev(e.args[1])
                if isinstance(a0, type) and (isinstance(a1, type) or (isinstance(a1, tuple) and all(isinstance(x, type) for x in a1))):
                    return issubclass(a0, a1)
                raise Unsupported(e, "(issubclass on a model value)")
            if nm == "defaultdict" and len(e.args) in (1, 2) and isinstance(e.args[0], ast.Name) and e.args[0].id in ("list", "set", "dict"):
                import collections as _c

                dd = _c.defaultdict({"list": list, "set": set, "dict": dict}[e.args[0].id])
                if len(e.args) == 2:
                    init = self.ev(e.args[1])
                    if not isinstance(init, dict):
                        raise Unsupported(e, "(defaultdict initialiser)")
                    dd.update(init)
                return dd
            if nm == "repr" and len(e.args) == 1 and not e.keywords and nm not in self.env and nm not in self.funcs:
                v0 = self.ev(e.args[0])
                if isinstance(v0, (str, bytes, int, float, bool, type(None))):
                    return repr(v0)  # repr() of a primitive of the model is its real repr
                return Opaque("repr")
            if nm == "map" and len(e.args) == 2 and isinstance(e.args[0], ast.Name) and nm not in self.env:
                xs = self.ev(e.args[1])
                if isinstance(xs, Opaque):
                    return Opaque("map")
                out = []
                for x in list(xs):
                    self.env["__map_arg__"] = x
                    call = ast.copy_location(ast.Call(func=e.args[0], args=[ast.Name(id="__map_arg__", ctx=ast.Load())], keywords=[]), e)
                    ast.fix_missing_locations(call)
                    out.append(self.call(call))
                self.env.pop("__map_arg__", None)
                return out
            if nm == "isinstance" and len(e.args) == 2:
                v0 = self.ev(e.args[0])
                classes0 = e.args[1].elts if isinstance(e.args[1], ast.Tuple) else [e.args[1]]
                native = {"bool": bool, "int": int, "str": str, "list": list, "tuple": tuple, "dict": dict, "float": float, "set": set, "type": type, "super": super, "bytes": bytes, "bytearray": bytearray, "frozenset": frozenset, "complex": complex}
                if not isinstance(v0, (Obj, Opaque, Sym)) and all(norm(c) in native for c in classes0):
                    return any(isinstance(v0, native[norm(c)]) for c in classes0)
                if isinstance(v0, (Sym, Obj)) and all(norm(c) in native for c in classes0):
                    return False  # a model object is never an instance of a builtin container / scalar class
            if nm == "isinstance" and len(e.args) == 2 and (not isinstance(e.args[1], ast.Name) or isinstance(self.globals.get(e.args[1].id), (type, tuple))):
                v0 = self.ev(e.args[0])
                if not isinstance(v0, (Obj, Opaque, Sym)):
                    try:
                        c0 = self.ev(e.args[1])
                    except Unsupported:
                        c0 = None
                    if isinstance(c0, type) or (isinstance(c0, tuple) and all(isinstance(x, type) for x in c0)):
                        return isinstance(v0, c0)
            if nm == "isinstance":
                if self.isinstance_hook is not None and len(e.args) == 2:
                    v = self.ev(e.args[0])
                    classes = e.args[1].elts if isinstance(e.args[1], ast.Tuple) else [e.args[1]]
                    verdicts = [self.isinstance_hook(v, norm(c)) for c in classes]
                    if all(x is not None for x in verdicts):
                        return any(verdicts)
                raise Unsupported(e, "(isinstance on a model value)")
            if nm in self.funcs and nm not in self.env:
                h = self.funcs[nm]
                if getattr(h, "wants_kwargs", False):
                    return h(self.elts(e.args), {k.arg: self.ev(k.value) for k in e.keywords if k.arg})
                return h(self.elts(e.args))
            if nm in self.module_defs and nm not in self.env:
                return self.call_def(self.module_defs[nm], self.elts(e.args), e, {k.arg: self.ev(k.value) for k in e.keywords if k.arg})
            # any other function: opaque result (constructors, unite_values, ...)
            for a in e.args:
                if not isinstance(a, ast.Starred):
                    self.ev(a)
            return Opaque(nm)
        if isinstance(f, ast.Attribute) and isinstance(f.value, ast.Call) and isinstance(f.value.func, ast.Name) and f.value.func.id == "super" and not f.value.args:
            resolver = self.globals.get("__super__")
            cur = getattr(self, "current_fn", None)
            if resolver is None or cur is None:
                raise Unsupported(e, "(super() outside a modelled method)")
            target_fn = resolver(cur, f.attr)
            if target_fn is None:
                raise Unsupported(e, f"(super().{f.attr} not found)")
            self_name = cur.args.args[0].arg
            return self.call_def(target_fn, [self.env[self_name]] + self.elts(e.args), e, {k.arg: self.ev(k.value) for k in e.keywords if k.arg})
        if isinstance(f, ast.Attribute):
            recv = self.ev(f.value)
            meth = f.attr
            if isinstance(recv, Obj) or (isinstance(f.value, ast.Name) and f.value.id == "self"):
                h = self.effect_methods.get(meth)
                if h is not None:
                    return h(recv, self.elts(e.args))
                if isinstance(recv, Obj):
                    md = self.method_defs.get((recv._kind, meth))
                    if md is not None:
                        return self.call_def(md, [recv] + self.elts(e.args), e, {k.arg: self.ev(k.value) for k in e.keywords if k.arg})
                    v = recv.get(meth, e)
                    if callable(v):
                        return v(*self.elts(e.args), **{k.arg: self.ev(k.value) for k in e.keywords if k.arg})
                return Opaque(meth)
            args = self.elts(e.args)
            if (recv is dict or recv is __import__("collections").OrderedDict) and meth == "fromkeys" and len(args) == 1 and isinstance(args[0], (list, tuple, set, frozenset, dict)):
                try:
                    return dict.fromkeys(args[0])
                except TypeError:
                    raise PyRaise("TypeError", None)
            if recv is set and meth in ("intersection", "union") and all(isinstance(a, (set, frozenset)) for a in args) and args:
                return getattr(set, meth)(*args)
            if isinstance(recv, dict) and meth == "update" and len(args) == 1 and isinstance(args[0], dict):
                recv.update(args[0])
                return None
            if isinstance(recv, list) and meth == "pop" and len(args) <= 1:
                try:
                    return recv.pop(*args)
                except IndexError:
                    raise PyRaise("IndexError", None)
            if isinstance(recv, (set, frozenset)) and meth in ("union", "intersection", "difference", "issubset", "issuperset", "isdisjoint") and all(isinstance(a, (set, frozenset, dict, list, tuple)) for a in args):
                return getattr(recv, meth)(*[set(a) for a in args])
            if recv is type and meth in ("mro", "__subclasses__") and len(args) == 1 and isinstance(args[0], type):
                return list(getattr(type, meth)(args[0]))
            if recv is ast and meth in ("iter_fields", "iter_child_nodes", "copy_location", "fix_missing_locations", "walk", "dump", "unparse") and args and all(isinstance(a, ast.AST) for a in args):
                r = getattr(ast, meth)(*args)
                return r if isinstance(r, (ast.AST, str)) else list(r)
            if recv is ast and meth == "parse" and args and isinstance(args[0], str):
                try:
                    return ast.parse(*args, **{k.arg: self.ev(k.value) for k in e.keywords if k.arg})
                except SyntaxError:
                    raise PyRaise("SyntaxError", None)
            if isinstance(recv, set) and meth == "pop" and not args:
                # an arbitrary element: the choice is made reproducible (first in repr order); code whose
                # result depended on it would be order-dependent, which is C10's subject, not this engine's
                if not recv:
                    raise PyRaise("KeyError", None)
                x = sorted(recv, key=lambda v: (type(v).__name__, repr(v) if not isinstance(v, ast.AST) else f"{getattr(v, 'lineno', 0):06d}:{getattr(v, 'col_offset', 0):06d}:{type(v).__name__}"))[0]
                recv.discard(x)
                return x
            if isinstance(recv, set) and meth in ("add", "discard", "update"):
                try:
                    getattr(recv, meth)(*args)
                except TypeError:
                    raise PyRaise("TypeError", None)  # unhashable element, as in CPython
                return None
            if isinstance(recv, list) and meth in ("append", "extend"):
                getattr(recv, meth)(*args)
                return None
            if isinstance(recv, (list, tuple)) and meth == "count" and len(args) == 1 and (args[0] is None or isinstance(args[0], bool)):
                return sum(1 for x in recv if x is args[0])
            if isinstance(recv, list) and meth == "index":
                for i, x in enumerate(recv):
                    if x is args[0]:
                        return i
                raise Unsupported(e, "(list.index miss)")
            if isinstance(recv, dict) and meth in ("setdefault", "pop") and 1 <= len(args) <= 2:
                try:
                    return getattr(recv, meth)(*args)
                except KeyError:
                    raise PyRaise("KeyError", None)
                except TypeError:
                    raise PyRaise("TypeError", None)
            if isinstance(recv, __import__("types").MappingProxyType) and meth in ("items", "values", "keys", "get"):
                r = getattr(recv, meth)(*args)
                return list(r) if meth != "get" else r
            if isinstance(recv, dict) and meth in ("items", "values", "keys", "get"):
                r = getattr(recv, meth)(*args)
                return list(r) if meth != "get" else r
            if isinstance(recv, str) and meth in ("split", "rsplit", "partition", "rpartition", "strip", "startswith", "endswith", "lower", "upper", "replace", "isdigit", "isdecimal", "isnumeric", "isidentifier", "lstrip", "rstrip", "splitlines", "index", "find", "rfind", "count", "removeprefix", "removesuffix", "title", "capitalize") and not any(isinstance(a, Opaque) for a in args):
                return getattr(recv, meth)(*args)
            if isinstance(recv, bytes) and meth in ("endswith", "startswith", "decode", "split", "strip", "index", "find", "count", "lower", "upper") and not any(isinstance(a, Opaque) for a in args):
                try:
                    return getattr(recv, meth)(*args)
                except (UnicodeDecodeError, ValueError) as ex:
                    raise PyRaise(type(ex).__name__, None)
            if isinstance(recv, str) and meth == "join" and len(args) == 1 and isinstance(args[0], (list, tuple)) and all(isinstance(x, str) for x in args[0]):
                return recv.join(args[0])
            if isinstance(recv, str) and meth == "format":
                if self.globals.get("__concrete_fstrings__") and args and all(isinstance(a, (str, int)) and not isinstance(a, bool) for a in args) and not e.keywords:
                    try:
                        return recv.format(*args)
                    except (IndexError, KeyError, ValueError):
                        raise PyRaise("ValueError", None)
                return Opaque("str:" + recv)
            if isinstance(recv, str) and meth == "join":
                return Opaque("str")
            if isinstance(recv, (Opaque, Sym)):
                return Opaque(meth)
            if isinstance(recv, __import__("re").Pattern) and meth in ("split", "match", "search", "fullmatch", "findall", "sub") and all(isinstance(a, (str, bytes, int)) for a in args):
                r = getattr(recv, meth)(*args)
                if meth in ("match", "search", "fullmatch") and r is not None:
                    raise Unsupported(e, "(match object of a compiled pattern)")
                return r
            if isinstance(recv, __import__("types").ModuleType) and (recv.__name__, meth) in NATIVE_MODULE_CALLS and not any(isinstance(a, (Obj, Opaque, Sym)) for a in args):
                try:
                    r = getattr(recv, meth)(*args)  # a pure inspection function of the standard library on real objects
                except SyntaxError:
                    raise PyRaise("SyntaxError", None)
                return list(r) if meth == "walk" else r
            if isinstance(recv, __import__("types").ModuleType) and (recv.__name__, meth) in NATIVE_MODULE_CONSTRUCTORS:
                kwargs = {k.arg: self.ev(k.value) for k in e.keywords if k.arg}
                return getattr(recv, meth)(*args, **kwargs)  # building a syntax-tree node
            raise Unsupported(e, "(method on a concrete value)")
        if not isinstance(f, (ast.Name, ast.Attribute)):
            callee = self.ev(f)
            if isinstance(callee, type) and issubclass(callee, ast.AST):
                # type(node)(**fields): building a syntax node is a native operation
                kwargs: Dict[str, Any] = {}
                for k in e.keywords:
                    if k.arg is None:
                        d = self.ev(k.value)
                        if not isinstance(d, dict):
                            raise Unsupported(e, "(** of a non-dict)")
                        kwargs.update(d)
                    else:
                        kwargs[k.arg] = self.ev(k.value)
                return callee(*self.elts(e.args), **kwargs)
        raise Unsupported(e, "(call)")


def call_def(self: "Interp", fn: ast.FunctionDef, args: List[Any], node: ast.AST, kwargs: Optional[Dict[str, Any]] = None) -> Any:
    """Interpret another function of the model (positional and keyword arguments, constant defaults)."""
    pos = fn.args.posonlyargs + fn.args.args
    names = [a.arg for a in pos]
    env0: Dict[str, Any] = {}
    defaults = fn.args.defaults
    for a, d in zip(pos[len(pos) - len(defaults):], defaults):
        env0[a.arg] = self.ev(d)
    for a, d in zip(fn.args.kwonlyargs, fn.args.kw_defaults):
        if d is not None:
            env0[a.arg] = self.ev(d)
    if len(args) > len(names):
        if fn.args.vararg is None:
            raise Unsupported(node, f"(arity of {fn.name})")
        env0[fn.args.vararg.arg] = tuple(args[len(names):])
        args = args[: len(names)]
    elif fn.args.vararg is not None:
        env0[fn.args.vararg.arg] = ()
    env0.update(dict(zip(names, args)))
    env0.update(kwargs or {})
    missing = [a.arg for a in pos + fn.args.kwonlyargs if a.arg not in env0]
    if missing:
        raise Unsupported(node, f"(missing arguments {missing} for {fn.name})")
    sub = Interp(env0, self.effect_methods, tuple(self.syms), self.funcs, self.isinstance_hook, self.method_defs, self.module_defs, self.globals)
    sub.current_fn = fn  # type: ignore[attr-defined]
    if any((isinstance(d, ast.Name) and d.id == "contextmanager") or (isinstance(d, ast.Attribute) and d.attr == "contextmanager") for d in fn.decorator_list):
        return _context_manager(sub, fn)
    sub.steps = self.steps
    res = sub.run(fn)
    self.steps = sub.steps
    return res


class _CM:
    """A @contextmanager function of the model: its body runs in a helper thread up to
    the yield, the with-body runs in the caller, then the body is resumed (an exception of
    the with-body is raised at the yield so that finally blocks run)."""

    def __init__(self, sub: "Interp", fn: ast.FunctionDef) -> None:
        import threading

        self.sub, self.fn = sub, fn
        self.to_main, self.to_gen = threading.Event(), threading.Event()
        self.value: Any = None
        self.exc: Optional[BaseException] = None
        self.resume_exc: Optional[BaseException] = None
        self.done = False
        self.thread = threading.Thread(target=self._run, daemon=True)

    def _run(self) -> None:
        try:
            self.sub.cm = self  # type: ignore[attr-defined]
            self.sub.run(self.fn)
        except BaseException as e:  # noqa: BLE001
            self.exc = e
        finally:
            self.done = True
            self.to_main.set()

    def enter(self) -> Any:
        self.thread.start()
        self.to_main.wait()
        self.to_main.clear()
        if self.done:
            if self.exc is not None:
                raise self.exc
            raise ModelError(f"context manager {self.fn.name} did not yield")
        return self.value

    def exit(self, exc: Optional[BaseException]) -> None:
        self.resume_exc = exc
        self.to_gen.set()
        self.to_main.wait()
        self.thread.join()
        if self.exc is not None and self.exc is not exc:
            raise self.exc


def _context_manager(sub: "Interp", fn: ast.FunctionDef) -> "Obj":
    cm = _CM(sub, fn)
    return Obj("ContextManager", __enter__=cm.enter, __exit__=cm.exit)


Interp.call_def = call_def  # type: ignore[attr-defined]


def _walk_no_nested_defs(fn: ast.AST):
    stack = list(ast.iter_child_nodes(fn))
    while stack:
        n = stack.pop()
        yield n
        if not isinstance(n, (ast.FunctionDef, ast.AsyncFunctionDef, ast.Lambda, ast.ClassDef)):
            stack.extend(ast.iter_child_nodes(n))


def _both_prim(a: Any, b: Any) -> bool:
    prim = (int, str, bool, type(None))
    return isinstance(a, prim) and isinstance(b, prim)
