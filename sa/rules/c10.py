"""C10 - diagnostics are deterministic and independent of prior checks.

R10.1 no unordered source reaches an order-observable sink
R10.2 per-check state is restored on every exit (pairing)
R10.3 identity-keyed stores do not outlive a check
"""

from __future__ import annotations

import ast
from typing import Dict, List, Optional, Set, Tuple

from ..model import AnchorError, Program, dotted, last_attr, norm, parent, walk_no_nested
from ..report import Check, guard
from ..unordered import MINMAX, ORDER_INSENSITIVE_CONSUMERS, FunctionCtx, SetTyping, Sink
from .common import calls_in, guards_of, stmt_of

# --------------------------------------------------------------- R10.1 idioms

COMMUTATIVE_METHODS = {"add", "update", "discard", "remove", "difference_update", "intersection_update", "setdefault"}
CONST_RETURNS = (ast.Constant,)


def _consumer(node: ast.AST) -> Optional[ast.Call]:
    """The call that directly consumes `node` as an argument."""
    p = parent(node)
    if isinstance(p, ast.Call) and any(node is a for a in p.args):
        return p
    if isinstance(p, ast.Starred):
        pp = parent(p)
        if isinstance(pp, ast.Call):
            return pp
    return None


def _order_insensitive_consumer(node: ast.AST) -> Optional[str]:
    c = _consumer(node)
    if c is None:
        p = parent(node)
        # `x in [f(e) for e in S]`
        if isinstance(p, ast.Compare) and any(node is cmp for cmp in p.comparators) and all(isinstance(o, (ast.In, ast.NotIn)) for o in p.ops):
            return "membership test"
        return None
    name = last_attr(c)
    if isinstance(c.func, ast.Name) and name in ORDER_INSENSITIVE_CONSUMERS:
        if name == "sorted":
            return "sorted(...)"
        return f"{name}(...)"
    if isinstance(c.func, ast.Name) and name in MINMAX and not any(k.arg == "key" for k in c.keywords):
        return f"{name}(...) without key"
    if isinstance(c.func, ast.Attribute) and name in ("update", "union", "intersection", "difference", "issubset", "issuperset", "isdisjoint", "difference_update", "intersection_update") :
        return f"set.{name}(...)"
    if isinstance(c.func, ast.Name) and name in ("list", "tuple", "iter", "map", "filter", "enumerate", "chain"):
        # list(...) of a generator is itself a materialisation: look one level up
        return _order_insensitive_consumer(c)
    if isinstance(c.func, ast.Attribute) and name == "from_iterable":
        return _order_insensitive_consumer(c)
    return None


def _body_order_sensitive(ctx: FunctionCtx, loop: ast.For) -> Optional[str]:
    """None if every effect of the loop body commutes across iterations, else
    the first order-sensitive effect."""
    targets = {n.id for n in ast.walk(loop.target) if isinstance(n, ast.Name)}

    def stmt_reason(st: ast.stmt) -> Optional[str]:
        if isinstance(st, ast.Expr):
            v = st.value
            if isinstance(v, ast.Constant):
                return None
            if isinstance(v, ast.Call) and isinstance(v.func, ast.Attribute):
                m = v.func.attr
                recv_kind = ctx.kind(v.func.value)
                if m in COMMUTATIVE_METHODS and (recv_kind in ("set", "dictset") or m in ("add", "discard")):
                    return None
                if m == "add" or m == "discard":
                    return None
                return f"call .{m}(...) with unknown effect order"
            if isinstance(v, ast.Call):
                return f"call {last_attr(v)}(...) with unknown effect order"
            if isinstance(v, (ast.Yield, ast.YieldFrom)):
                return "yield inside the loop"
            return None
        if isinstance(st, ast.If):
            for s in st.body + st.orelse:
                r = stmt_reason(s)
                if r:
                    return r
            return None
        if isinstance(st, ast.Continue) or isinstance(st, ast.Pass) or isinstance(st, ast.Assert):
            return None
        if isinstance(st, ast.Return):
            if st.value is None or _is_const_expr(st.value):
                return None  # existential scan; checked against fall-through below
            return "returns a value that depends on which element is met first"
        if isinstance(st, ast.Break):
            return "break: later statements see which element was met first"
        if isinstance(st, ast.AugAssign):
            if isinstance(st.op, (ast.BitOr, ast.BitAnd)) and ctx.kind(st.target) in ("set", "dictset"):
                return None
            if isinstance(st.op, ast.BitOr) or isinstance(st.op, ast.Add) and isinstance(st.value, ast.Constant) and isinstance(st.value.value, int):
                return None
            return f"augmented assignment {norm(st)[:40]}"
        if isinstance(st, ast.Assign):
            # assignment to loop-local temporaries is fine; anything that
            # survives the iteration is last-writer-wins
            for t in st.targets:
                for n in ast.walk(t):
                    if isinstance(n, ast.Name) and isinstance(n.ctx, ast.Store):
                        if _used_after(loop, n.id):
                            return f"`{n.id}` assigned in the loop and read after it (last iteration wins)"
                    if isinstance(n, ast.Subscript) and isinstance(n.ctx, ast.Store):
                        # per-key store where the key is the loop element commutes
                        # but leaves an insertion-ordered dict behind
                        base = n.value
                        if isinstance(base, ast.Name) and _dict_only_looked_up(ctx, base.id):
                            continue
                        return f"dict/list store `{norm(n)[:40]}` builds an insertion order from the set order"
                    if isinstance(n, ast.Attribute) and isinstance(n.ctx, ast.Store):
                        return f"attribute store {norm(n)[:40]}"
            return None
        if isinstance(st, (ast.For, ast.While, ast.With, ast.Try)):
            for s in ast.iter_child_nodes(st):
                if isinstance(s, ast.stmt):
                    r = stmt_reason(s)
                    if r:
                        return r
            return None
        if isinstance(st, ast.Raise):
            return "raise: which element triggers it first decides the message"
        return f"statement {type(st).__name__}"

    for st in loop.body:
        r = stmt_reason(st)
        if r:
            return r
    # existential scans must return one constant from the body
    rets = [n for st in loop.body for n in ast.walk(st) if isinstance(n, ast.Return)]
    consts = {norm(r.value) if r.value is not None else "None" for r in rets}
    if len(consts) > 1:
        return "returns different constants depending on the element met first"
    return None


def _is_const_expr(e: ast.AST) -> bool:
    if isinstance(e, ast.Constant):
        return True
    if isinstance(e, (ast.Dict, ast.List, ast.Tuple, ast.Set)):
        return not (getattr(e, "keys", None) or getattr(e, "elts", None))
    if isinstance(e, ast.Attribute) and isinstance(e.value, ast.Name) and e.value.id[:1].isupper():
        return True  # enum member / class constant
    return False


def _used_after(loop: ast.AST, name: str) -> bool:
    fn = parent(loop)
    while fn is not None and not isinstance(fn, (ast.FunctionDef, ast.AsyncFunctionDef, ast.Module)):
        fn = parent(fn)
    if fn is None:
        return True
    end = getattr(loop, "end_lineno", loop.lineno)
    for n in ast.walk(fn):
        if isinstance(n, ast.Name) and n.id == name and isinstance(n.ctx, ast.Load) and n.lineno > end:
            return True
    return False


def _dict_only_looked_up(ctx: FunctionCtx, name: str) -> bool:
    """idiom (e): local dict `name` is only subscripted / .get / `in` / passed
    as **kwargs-like mapping, never iterated, returned, or handed on."""
    for n in ctx._walk():
        if isinstance(n, ast.Name) and n.id == name and isinstance(n.ctx, ast.Load):
            p = parent(n)
            if isinstance(p, ast.Subscript) and p.value is n:
                continue
            if isinstance(p, ast.Attribute) and p.attr in ("get", "__contains__", "setdefault", "pop") and p.value is n:
                continue
            if isinstance(p, ast.Compare) and any(n is c for c in p.comparators) and all(isinstance(o, (ast.In, ast.NotIn)) for o in p.ops):
                continue
            if isinstance(p, ast.Call) and isinstance(p.func, ast.Attribute) and p.func.attr == "substitute_typevars" and len(p.args) == 1:
                continue  # substitution maps are consulted by key only (R14.2 checks the implementations)
            return False
    return True


def _dictcomp_only_looked_up(ctx: FunctionCtx, comp: ast.AST) -> Optional[str]:
    """idiom (e) for `{k: v for k in S}`: result bound to a local that is only
    looked up, or returned from a function whose result is documented/used as a
    substitution map (lookups only) - the latter goes through the exception table."""
    p = parent(comp)
    if isinstance(p, ast.Assign) and len(p.targets) == 1 and isinstance(p.targets[0], ast.Name):
        if _dict_only_looked_up(ctx, p.targets[0].id):
            return f"dict `{p.targets[0].id}` is only subscripted/.get/in"
    return None


def _singleton_guard(node: ast.AST, src: ast.AST, fn: ast.AST) -> bool:
    want = norm(src)
    for g, pol in guards_of(node, fn):
        t = norm(g)
        if pol and t in (f"len({want}) == 1", f"1 == len({want})"):
            return True
        if not pol and t in (f"len({want}) > 1", f"len({want}) != 1", f"len({want}) >= 2"):
            return True
    return False


def _worklist(ctx: FunctionCtx, s: Sink) -> Optional[str]:
    """idiom (a): while S: x = S.pop() ... with only set/bool outputs."""
    n = s.node
    loop = None
    p = parent(n)
    while p is not None and p is not ctx.fn:
        if isinstance(p, ast.While):
            loop = p
            break
        p = parent(p)
    if loop is None or norm(loop.test) != norm(s.source_expr):
        return None
    for st in ast.walk(loop):
        if isinstance(st, ast.Call) and isinstance(st.func, ast.Attribute):
            m = st.func.attr
            if m in ("append", "extend", "insert", "show_error", "join"):
                return None
        if isinstance(st, (ast.Yield, ast.YieldFrom, ast.Break)):
            return None
        if isinstance(st, ast.Return) and st.value is not None and not isinstance(st.value, (ast.Constant, ast.Name)):
            return None
    return "work-list: elements are popped until empty; outputs are sets / a constant"


# Sites that remain after idiom discharge and were read one by one.
# key: (module, qualname, sink kind, origin)  ->  reason the order cannot be observed
R101_EXCEPTIONS: Dict[Tuple[str, str, str, str], str] = {
    ("boolability", "get_boolability", "minmax-key", "set-comprehension"): (
        "min over Boolability members keyed by their distinct enum values: no ties, result independent of order"
    ),
    ("find_unused", "UnusedObjectFinder._has_import_star_usage_inner", "comp:GeneratorExp", "attr:import_stars[]"): (
        "consumed by _UsageKind.aggregate = max() over an enum; the recursion guard only yields the minimum element"
    ),
    ("options", "_parse_config_section", "loop", "(call:get_all_error_codes-set())"): (
        "each iteration yields an option instance of a different option name; Options.from_option_list groups "
        "instances per name and sorts each group with sort_key"
    ),
    ("patma", "<module>", "comp:ListComp", "set-literal"): (
        "SpecialClassPatternValue is only used as the receiver of is_assignable (exists over members, boolean result)"
    ),
    ("signature", "Signature.check_call_with_bound_args", "call-arg:resolve_bounds_map", "attr:all_typevars"): (
        "seeds a TypeVarMap (substitution map) that consumers consult by key only"
    ),
    ("type_evaluation", "unite_varmaps", "comp:DictComp", "name:set.intersection()"): (
        "VarMap is consulted by variable name (varmap.get / {**a, **b}); never iterated for output"
    ),
    ("type_object", "TypeObject.can_assign", "loop", "attr:artificial_bases"): (
        "first-success scan over int's artificial bases {float, complex}, reached only when int itself is "
        "incompatible with the protocol; float and complex share no member that int lacks, so at most one of them "
        "can succeed where int failed on a non-generic protocol; latent for generic protocols, no failing input exists"
    ),
    ("value", "intersect_bounds_maps", "materialise:tuple", "values(call:items)"): (
        "the tuple becomes OrBound.bounds; typevar.solve skips OrBound and nothing renders it"
    ),
}

# ----------------------------------------------------------------------------


def classify(st: SetTyping, ctx: FunctionCtx, s: Sink) -> Tuple[bool, str]:
    """(discharged?, reason)"""
    k = s.kind
    node = s.node
    if k == "loop":
        why = _body_order_sensitive(ctx, node)  # type: ignore[arg-type]
        if why is None:
            return True, "loop body effects commute (set/bool accumulation or constant existential return)"
        return False, why
    if k.startswith("comp:"):
        ckind = k[5:]
        if ckind == "SetComp":
            return True, "result is a set"
        r = _order_insensitive_consumer(node)
        if r:
            return True, f"consumed by {r}"
        if ckind == "DictComp":
            r2 = _dictcomp_only_looked_up(ctx, node)
            if r2:
                return True, r2
            return False, "dict built in set order (key order observable if iterated/printed)"
        if ckind == "GeneratorExp":
            c = _consumer(node)
            if c is not None and last_attr(c) == "join":
                return False, "joined into a string in set order"
            return False, "generator over a set consumed order-sensitively"
        return False, "list built in set order"
    if k.startswith("materialise:"):
        r = _order_insensitive_consumer(node)
        if r:
            return True, f"consumed by {r}"
        if k == "materialise:iter":
            c = _consumer(node)
            if c is not None and last_attr(c) == "next" and _singleton_guard(node, s.source_expr, ctx.fn):
                return True, "next(iter(S)) under a len(S) == 1 guard"
        return False, f"{k[12:]}(...) of a set fixes an arbitrary order"
    if k == "unpack":
        if _singleton_guard(node, s.source_expr, ctx.fn) and len(node.targets[0].elts) == 1:  # type: ignore[attr-defined]
            return True, "single-element unpack under a len(S) == 1 guard"
        return False, "tuple-unpacking a set"
    if k == "pop":
        r = _worklist(ctx, s)
        if r:
            return True, r
        return False, "set.pop() returns an arbitrary element"
    if k == "join":
        return False, "joined into a string in set order"
    if k == "format":
        return False, "set rendered into a string"
    if k == "star":
        c = node if isinstance(node, ast.Call) else None
        if c is not None and isinstance(c.func, ast.Name) and last_attr(c) in ORDER_INSENSITIVE_CONSUMERS | {"max", "min"}:
            return True, "starred into an order-insensitive consumer"
        if c is not None and isinstance(c.func, ast.Attribute) and isinstance(c.func.value, ast.Name) and c.func.value.id in ("set", "frozenset"):
            return True, "starred into set algebra"
        return False, "set starred into an argument list / display"
    if k == "minmax-key":
        return False, "min/max with key over a set: ties are broken by set order"
    if k == "sorted-by-id":
        return False, s.detail
    if k == "yield-from":
        return False, "generator yields elements in set order"
    if k.startswith("call-arg:"):
        inner: Sink = s.inner  # type: ignore[attr-defined]
        ictx: FunctionCtx = s.inner_ctx  # type: ignore[attr-defined]
        ok, why = classify(st, ictx, inner)
        if ok:
            return True, f"callee use is order-insensitive: {why}"
        return False, f"{s.detail}: {why}"
    return False, "unclassified sink"


def r10_1(prog: Program, chk: Check) -> None:
    chk.rule(
        "R10.1",
        "no set/frozenset-typed value reaches a construct whose result depends on iteration order, unless "
        "discharged by an order-insensitivity idiom or a read-and-recorded exception",
        floor=15,
    )
    st = SetTyping(prog)
    depth = 2 if chk.tier == "thorough" else 1
    sinks = st.sinks(depth)
    chk.analysed["set_typed_fields"] = sorted(f"{c}.{f}" for (c, f), k in st.class_field_kind.items() if k)
    chk.analysed["set_returning_functions"] = sorted(f"{m}::{q}" for (m, q), k in st.func_ret_qual.items() if k == "set")
    chk.analysed["unordered_sink_sites"] = len(sinks)
    if len(chk.analysed["set_typed_fields"]) < 15:
        chk.error(f"R10.1: only {len(chk.analysed['set_typed_fields'])} set-typed fields recognised (typing engine drift)")
    counts: Dict[str, int] = {}
    for s in sorted(sinks, key=lambda s: (s.module, s.lineno, s.kind)):
        mod = prog.module(s.module)
        fn = _unit_node(prog, s)
        ctx = st.ctx_for(mod, fn, s.qualname)
        ok, why = classify(st, ctx, s)
        base = f"{s.module}::{s.qualname}::{s.kind}::{s.origin}"
        counts[base] = counts.get(base, 0) + 1
        key = base + (f"#{counts[base]}" if counts[base] > 1 else "")
        exc = R101_EXCEPTIONS.get((s.module, s.qualname, s.kind, s.origin))
        if not ok and exc:
            ok, why = True, f"exception: {exc}"
        chk.ob(
            "R10.1",
            key,
            ok,
            prog.site(mod, s.node),
            f"unordered value `{norm(s.source_expr)[:60]}` ({s.origin}) -> [{s.kind}]: {why}",
            witness={"source": norm(s.source_expr), "sink": norm(s.node)[:200], "detail": s.detail},
        )
    # exception entries must still match a site (stale entries are analysis errors)
    live = {(s.module, s.qualname, s.kind, s.origin) for s in sinks}
    for e in R101_EXCEPTIONS:
        if e not in live:
            chk.notes.append(f"R10.1 exception entry no longer matches any site: {e}")


def _unit_node(prog: Program, s: Sink) -> ast.AST:
    n: Optional[ast.AST] = s.node
    while n is not None:
        if isinstance(n, (ast.FunctionDef, ast.AsyncFunctionDef)) and prog.qualname_of(prog.module(s.module), n) == s.qualname:
            return n
        if isinstance(n, ast.Module):
            return n
        n = parent(n)
    raise AnchorError("sink without unit")


def run(prog: Program, chk: Check) -> None:
    r10_1(prog, chk)


# --------------------------------------------------------------------- R10.2
INVERSE = {
    "append": {"pop", "remove"},
    "add": {"remove", "discard", "pop"},
    "pop": {"append", "add", "insert"},
    "extend": {"pop"},
}


def _self_rooted(e: ast.AST) -> Optional[str]:
    d = dotted(e)
    if d and (d.startswith("self.") or d.startswith("cls.")):
        return d
    return None


def _mutations(fn: ast.AST) -> List[Tuple[ast.AST, str, str]]:
    """(node, receiver, op) for mutations of self-rooted state in fn."""
    out: List[Tuple[ast.AST, str, str]] = []
    for n in walk_no_nested(fn):
        if isinstance(n, ast.Call) and isinstance(n.func, ast.Attribute):
            r = _self_rooted(n.func.value)
            if r and n.func.attr in ("append", "add", "pop", "remove", "discard", "extend", "insert", "clear", "update"):
                out.append((n, r, n.func.attr))
        elif isinstance(n, ast.Delete):
            for t in n.targets:
                if isinstance(t, ast.Subscript):
                    r = _self_rooted(t.value)
                    if r:
                        out.append((n, r, "del"))
        elif isinstance(n, ast.AugAssign):
            r = _self_rooted(n.target)
            if r:
                out.append((n, r, "augassign"))
        elif isinstance(n, ast.Assign):
            for t in n.targets:
                r = _self_rooted(t)
                if r:
                    out.append((n, r, "assign"))
    return out


def _in_finally(node: ast.AST, fn: ast.AST) -> Optional[ast.Try]:
    child = node
    p = parent(node)
    while p is not None and p is not fn:
        if isinstance(p, ast.Try) and any(_contains(s, child) for s in p.finalbody):
            return p
        child = p
        p = parent(p)
    return None


def _contains(root: ast.AST, node: ast.AST) -> bool:
    return any(n is node for n in ast.walk(root))


def _enclosing_with_or_try_finally(node: ast.AST, fn: ast.AST) -> Optional[str]:
    child = node
    p = parent(node)
    while p is not None and p is not fn:
        if isinstance(p, (ast.With, ast.AsyncWith)) and any(_contains(s, child) for s in p.body):
            return "with"
        if isinstance(p, ast.Try) and p.finalbody and any(_contains(s, child) for s in p.body):
            return "try-finally"
        child = p
        p = parent(p)
    return None


def r10_2(prog: Program, chk: Check) -> None:
    chk.rule(
        "R10.2",
        "state that outlives a node visit is restored on every exit: context managers yield inside "
        "try/finally (or a with), manual push/pop and save/restore pairs restore in a finally block, "
        "qcore.override is only used as a with-item",
        floor=15,
    )
    n_cm = 0
    for m, q, fn in prog.iter_functions():
        mod = prog.module(m)
        decs = [norm(d) for d in fn.decorator_list]
        is_cm = any(d.split(".")[-1] in ("contextmanager", "asynccontextmanager") for d in decs)
        muts = _mutations(fn)
        yields = [n for n in walk_no_nested(fn) if isinstance(n, ast.Yield)]
        if is_cm:
            n_cm += 1
            for i, y in enumerate(yields):
                before = [
                    (n, r, op)
                    for n, r, op in muts
                    if n.lineno < y.lineno and _in_finally(n, fn) is None
                ]
                guard = _enclosing_with_or_try_finally(y, fn)
                key = f"{m}::{q}::contextmanager-yield" + (f"#{i + 1}" if len(yields) > 1 else "")
                if not before:
                    chk.ob(
                        "R10.2",
                        key,
                        True,
                        prog.site(mod, y),
                        "no self-rooted state is mutated before the yield (restoration is delegated to nested context managers)",
                        nontrivial=guard is not None,
                    )
                    continue
                ok = guard == "try-finally"
                why = ""
                if ok:
                    # the finally must touch each receiver mutated before the yield
                    t = None
                    child = y
                    p = parent(y)
                    while p is not None and p is not fn:
                        if isinstance(p, ast.Try) and p.finalbody and any(_contains(s, child) for s in p.body):
                            t = p
                            break
                        child = p
                        p = parent(p)
                    fin_recv = {r for n, r, op in muts if t is not None and any(_contains(s, n) for s in t.finalbody)}
                    missing = sorted({r for _, r, _ in before} - fin_recv)
                    if missing:
                        ok = False
                        why = f"finally does not restore {missing}"
                else:
                    why = f"yield is not inside try/finally although {sorted({r for _, r, _ in before})} is mutated before it"
                chk.ob("R10.2", key, ok, prog.site(mod, y), why or "yield inside try/finally restoring the mutated receivers")
            continue
        if fn.name in ("__init__", "__post_init__"):
            continue
        # manual push/pop pairs on the same receiver
        by_recv: Dict[str, List[Tuple[ast.AST, str]]] = {}
        for n, r, op in muts:
            by_recv.setdefault(r, []).append((n, op))
        for r, ops in sorted(by_recv.items()):
            opnames = {op for _, op in ops}
            pairs = [(a, b) for a in opnames for b in INVERSE.get(a, ()) if b in opnames]
            if not pairs:
                continue
            ordered = sorted(ops, key=lambda t: t[0].lineno)
            first_op = ordered[0][1]
            restores = [n for n, op in ops if op in INVERSE.get(first_op, ())]
            if not restores:
                continue
            for i, rn in enumerate(restores):
                chk.ob(
                    "R10.2",
                    f"{m}::{q}::push-pop::{r}" + (f"#{i + 1}" if len(restores) > 1 else ""),
                    _in_finally(rn, fn) is not None,
                    prog.site(mod, rn),
                    f"`{norm(rn)[:60]}` undoes an earlier {first_op} on {r} but is not in a finally block: an exception leaves the stack unbalanced for the rest of the process",
                )
        # save/restore of an attribute: old = self.x ... self.x = old
        saved: Dict[str, str] = {}
        for n in walk_no_nested(fn):
            if isinstance(n, ast.Assign) and len(n.targets) == 1 and isinstance(n.targets[0], ast.Name):
                r = _self_rooted(n.value)
                if r:
                    saved[n.targets[0].id] = r
        for n, r, op in muts:
            if op == "assign" and isinstance(n.value, ast.Name) and saved.get(n.value.id) == r:  # type: ignore[attr-defined]
                chk.ob(
                    "R10.2",
                    f"{m}::{q}::save-restore::{r}",
                    _in_finally(n, fn) is not None,
                    prog.site(mod, n),
                    f"`{norm(n)[:60]}` restores {r} from a saved copy but is not in a finally block",
                )
    chk.analysed["contextmanager_functions"] = n_cm
    # qcore.override only as a with item / enter_context argument / returned as a context manager
    n_ov = 0
    for mod in prog.modules.values():
        for c in calls_in(mod.tree, "override"):
            d = dotted(c.func)
            if d not in ("qcore.override", "override"):
                continue
            n_ov += 1
            p = parent(c)
            ok = isinstance(p, ast.withitem) or isinstance(p, ast.Return)
            if isinstance(p, ast.Call) and last_attr(p) == "enter_context":
                ok = True
            if not ok:
                # ctx = override(...) [possibly inside a conditional expression]; with ctx: ...
                a = p
                while isinstance(a, (ast.IfExp, ast.BoolOp)):
                    a = parent(a)
                if isinstance(a, ast.Assign) and len(a.targets) == 1 and isinstance(a.targets[0], ast.Name):
                    nm = a.targets[0].id
                    f = a
                    while f is not None and not isinstance(f, (ast.FunctionDef, ast.AsyncFunctionDef)):
                        f = parent(f)
                    if f is not None:
                        for w in walk_no_nested(f):
                            if isinstance(w, ast.withitem) and isinstance(w.context_expr, ast.Name) and w.context_expr.id == nm:
                                ok = True
            q = prog.qualname_of(mod, c)
            attr = norm(c.args[1]) if len(c.args) > 1 else "?"
            if not ok:
                chk.ob(
                    "R10.2",
                    f"{mod.name}::{q}::override-not-entered::{attr}",
                    False,
                    prog.site(mod, c),
                    "qcore.override(...) is called but not used as a with-item: the attribute is never restored (or never set)",
                )
    chk.analysed["qcore_override_sites"] = n_ov
    chk.ob(
        "R10.2",
        "package::qcore.override::all-entered",
        n_ov > 0,
        "pyanalyze",
        "qcore.override sites enumerated",
        nontrivial=False,
    )


# --------------------------------------------------------------------- R10.3
def r10_3(prog: Program, chk: Check) -> None:
    chk.rule(
        "R10.3",
        "stores keyed by id(x) on long-lived objects either keep x alive and re-verify identity on read, "
        "or are paired add/remove (R10.2)",
        floor=2,
    )
    for m, q, fn in prog.iter_functions():
        mod = prog.module(m)
        for n in walk_no_nested(fn):
            # R[id(e)] = V
            if isinstance(n, ast.Assign) and len(n.targets) == 1 and isinstance(n.targets[0], ast.Subscript):
                t = n.targets[0]
                r = _self_rooted(t.value)
                if r and isinstance(t.slice, ast.Call) and dotted(t.slice.func) == "id" and t.slice.args:
                    obj = norm(t.slice.args[0])
                    keeps = any(norm(x) == obj for x in ast.walk(n.value))
                    # readers must compare identity
                    cls = q.split(".")[0]
                    readers_ok = True
                    readers = 0
                    for m2, q2, f2 in prog.iter_functions():
                        if m2 != m or not q2.startswith(cls + "."):
                            continue
                        for c in calls_in(f2, "get", nested=False):
                            if _self_rooted(c.func.value) == r and c.args and isinstance(c.args[0], ast.Call) and dotted(c.args[0].func) == "id":  # type: ignore[attr-defined]
                                readers += 1
                                has_is = any(
                                    isinstance(x, ast.Compare) and any(isinstance(o, (ast.Is, ast.IsNot)) for o in x.ops)
                                    for x in walk_no_nested(f2)
                                )
                                readers_ok = readers_ok and has_is
                    chk.ob(
                        "R10.3",
                        f"{m}::{q}::id-keyed-store::{r}",
                        keeps and readers_ok and readers > 0,
                        prog.site(mod, n),
                        f"{r}[id({obj})]: value keeps the object alive={keeps}, {readers} reader(s) re-verify identity={readers_ok}",
                    )
            # R.add(id(e)) : must be removed in a finally in the same function
            if isinstance(n, ast.Call) and isinstance(n.func, ast.Attribute) and n.func.attr == "add" and n.args:
                r = _self_rooted(n.func.value)
                a0 = n.args[0]
                is_id = isinstance(a0, ast.Call) and dotted(a0.func) == "id"
                if not is_id and isinstance(a0, ast.Name):
                    for x in walk_no_nested(fn):
                        if isinstance(x, ast.Assign) and len(x.targets) == 1 and isinstance(x.targets[0], ast.Name) and x.targets[0].id == a0.id:
                            if isinstance(x.value, ast.Call) and dotted(x.value.func) == "id":
                                is_id = True
                if r and is_id:
                    removes = [
                        c
                        for c in calls_in(fn, None, nested=False)
                        if isinstance(c.func, ast.Attribute) and c.func.attr in ("remove", "discard") and _self_rooted(c.func.value) == r
                    ]
                    ok = bool(removes) and all(_in_finally(c, fn) is not None for c in removes)
                    chk.ob(
                        "R10.3",
                        f"{m}::{q}::id-set::{r}",
                        ok,
                        prog.site(mod, n),
                        f"{r}.add(id(...)) must be removed in a finally block of the same function (ids are reused after collection)",
                    )


def run(prog: Program, chk: Check) -> None:  # noqa: F811
    r10_1(prog, chk)
    r10_2(prog, chk)
    r10_3(prog, chk)


# --------------------------------------------------------------------- R10.4
# context fields that may be dropped from the key of a cache living on a shared object
R104_DROPPABLE = {
    ("_ConstrainedValue", "resolution_cache"): {"fallback_value": "the fallback only matters for values without definition nodes, which are looked up in the parent scope every time"},
}


def r10_4(prog: Program, chk: Check) -> None:
    chk.rule(
        "R10.4",
        "caches that live on objects shared between scopes/files (a dataclass with a module-level singleton "
        "instance) are keyed by the whole lookup context: no distinguishing field is dropped from the key",
        floor=1,
    )
    # dataclasses with a dict-typed cache field and a module-level instance
    shared: Dict[str, Set[str]] = {}
    for mod in prog.modules.values():
        for st in mod.tree.body:
            if isinstance(st, ast.Assign) and isinstance(st.value, ast.Call) and isinstance(st.value.func, ast.Name) and st.value.func.id in prog.classes:
                ci = prog.cls(st.value.func.id)
                for f in prog.all_fields(ci.name):
                    if f.annotation is not None and norm(f.annotation).startswith(("dict[", "Dict[")) and not f.init:
                        shared.setdefault(ci.name, set()).add(f.name)
    chk.analysed["shared_cache_fields"] = {k: sorted(v) for k, v in shared.items()}
    n = 0
    kcount: Dict[Tuple[str, str], int] = {}
    for m, q, fn in prog.iter_functions():
        for st in walk_no_nested(fn):
            if not (isinstance(st, ast.Assign) and len(st.targets) == 1 and isinstance(st.targets[0], ast.Subscript)):
                continue
            t = st.targets[0]
            if not isinstance(t.value, ast.Attribute):
                continue
            owners = [c for c, flds in shared.items() if t.value.attr in flds]
            if not owners:
                continue
            cname = owners[0]
            key = t.slice
            srcs = [key]
            if isinstance(key, ast.Name):
                from .common import local_assignments

                srcs = local_assignments(fn, key.id) or [key]
            for s in srcs:
                n += 1
                kcount[(m, q)] = kcount.get((m, q), 0) + 1
                dropped: List[str] = []
                whole = False
                if isinstance(s, ast.Call) and last_attr(s) == "replace" and s.args:
                    dropped = [k.arg for k in s.keywords if k.arg]
                    whole = True
                elif isinstance(s, ast.Name):
                    whole = True
                allowed = R104_DROPPABLE.get((cname, t.value.attr), {})
                bad = [d for d in dropped if d not in allowed]
                chk.ob(
                    "R10.4",
                    f"{m}::{q}::shared-cache-key::{cname}.{t.value.attr}#{kcount[(m, q)]}",
                    whole and not bad,
                    prog.site(m, st),
                    f"{cname}.{t.value.attr} is shared by every scope (module-level instance exists) but its key `{norm(s)[:60]}` drops {bad or 'unknown parts'} of the lookup context: "
                    "a result computed for one function/file is returned for another",
                )
    if n == 0:
        raise AnchorError("R10.4: no store into a shared cache field found")


_run_123 = run


# --------------------------------------------------------------------- R10.5
def r10_5(prog: Program, chk: Check) -> None:
    import copy

    from ..minterp import AssertionFailed, Interp, ModelError, Obj, PyRaise, Sym, Unsupported

    chk.rule(
        "R10.5",
        "the merges of bounds maps are pure, as a finite model: unify_bounds_maps and intersect_bounds_maps are interpreted from their AST on every sequence of up to three maps "
        "over two type variables whose bound lists have 0-2 elements; the input maps and their lists are the same afterwards (a successful protocol match is cached and handed out "
        "again: a merge that extends a caller's list leaks the bounds of one call into every later one), the result does not share a list with an input, and merging the same "
        "inputs twice gives equal results",
        floor=3,
    )
    fns = {name: prog.func("value", name) for name in ("unify_bounds_maps", "intersect_bounds_maps")}

    class B(Obj):
        def key(self):
            return (self._kind, self._attrs.get("name"), tuple(self._attrs.get("bounds", ())) if self._kind == "OrBound" else None)

        def __eq__(self, other):
            return isinstance(other, B) and self.key() == other.key()

        def __hash__(self):
            return hash(self.key())

    def or_bound(args):
        return B("OrBound", bounds=tuple(tuple(x) for x in args[0]))

    import itertools

    tvs = (Sym("T"), Sym("U"))
    lists = [[], ["b1"], ["b1", "b2"], ["b3"]]
    maps = []
    for lt, lu in itertools.product([None] + lists, [None] + lists[:2]):
        m = {}
        if lt is not None:
            m[tvs[0]] = [B("Bound", name=x) for x in lt]
        if lu is not None:
            m[tvs[1]] = [B("Bound", name=x) for x in lu]
        maps.append(m)
    mutated, shared, unstable, crashes = [], [], [], []
    n = 0
    for fname, fn in fns.items():
        for k in (1, 2, 3):
            for combo in itertools.product(range(len(maps)), repeat=k):
                if k == 3 and (combo[0] + combo[1] + combo[2]) % 3:
                    continue
                n += 1
                inputs = [{tv: list(bs) for tv, bs in maps[i].items()} for i in combo]
                snapshot = [{tv: list(bs) for tv, bs in m.items()} for m in inputs]
                it = Interp({}, {}, (), {"OrBound": or_bound}, lambda v, c: None, {}, {}, {})
                d = {"function": fname, "maps": [{str(tv): [b._attrs["name"] for b in bs] for tv, bs in m.items()} for m in snapshot]}
                try:
                    r1 = it.call_def(fn, [inputs], fn)
                    after_first = [{tv: list(bs) for tv, bs in m.items()} for m in inputs]
                    r2 = it.call_def(fn, [inputs], fn)
                except Unsupported as u:
                    raise AnchorError(f"{fname} cannot be modelled: {u}")
                except (AssertionFailed, PyRaise, ModelError) as e:
                    crashes.append({**d, "error": str(e)})
                    continue
                if after_first != snapshot or [{tv: list(bs) for tv, bs in m.items()} for m in inputs] != snapshot:
                    mutated.append({**d, "maps_after": [{str(tv): [b._attrs.get("name", "<or>") for b in bs] for tv, bs in m.items()} for m in inputs]})
                if isinstance(r1, dict) and any(v is bs for v in r1.values() for m in inputs for bs in m.values()):
                    shared.append(d)
                if r1 != r2:
                    unstable.append(d)
    chk.model_evaluations += n
    chk.analysed["bounds_merge_model"] = {"merges": n}
    site = prog.site("value", fns["unify_bounds_maps"])
    for lst in (mutated, shared, unstable, crashes):
        lst.sort(key=lambda x: (len(repr(x["maps"])), repr(x)))
    chk.ob("R10.5", "value::bounds-merge-model::the input maps are unchanged", not mutated, site, f"{n} merges, {len(mutated)} mutate an input" + (f"; smallest: {mutated[0]}" if mutated else ""), witness=mutated[:4])
    chk.ob("R10.5", "value::bounds-merge-model::the result shares no list with an input", not shared, site, f"{len(shared)} results alias an input list" + (f"; smallest: {shared[0]}" if shared else ""), witness=shared[:4])
    chk.ob("R10.5", "value::bounds-merge-model::merging twice gives equal results", not unstable, site, f"{len(unstable)} merges differ on repetition" + (f"; smallest: {unstable[0]}" if unstable else ""), witness=unstable[:4])
    chk.ob("R10.5", "value::bounds-merge-model::no-crash", not crashes, site, f"{len(crashes)} crashes" + (f"; first: {crashes[0]}" if crashes else ""), witness=crashes[:3])


# --------------------------------------------------------------------- R10.6
# parameters that are the environment of the computation, not part of the question
R106_ENVIRONMENT = {"ctx", "self"}


def r10_6(prog: Program, chk: Check) -> None:
    from .common import local_assignments

    chk.rule(
        "R10.6",
        "memo caches on long-lived objects are keyed by the whole question: in a method that looks a key up in `self.<...cache...>` and stores its result under it, the key names "
        "every parameter of the method (other than the context) that the method reads - a parameter that is left out makes the first answer the answer for every later value of it "
        "(a protocol match remembered for SupportsAbs[int] returned for SupportsAbs[str])",
        floor=3,
    )
    n = 0
    for cname, ci in sorted(prog.classes.items()):
        for mname, fn in ci.methods.items():
            params = [a.arg for a in fn.args.args[1:] + fn.args.kwonlyargs if a.arg not in R106_ENVIRONMENT]
            stores = [
                st for st in walk_no_nested(fn)
                if isinstance(st, ast.Assign) and len(st.targets) == 1 and isinstance(st.targets[0], ast.Subscript) and isinstance(st.targets[0].value, ast.Attribute)
                and norm(st.targets[0].value.value) == "self" and "cache" in st.targets[0].value.attr
            ]
            for st in stores:
                cache = norm(st.targets[0].value)
                looked_up = any(
                    (isinstance(x, ast.Call) and isinstance(x.func, ast.Attribute) and x.func.attr == "get" and norm(x.func.value) == cache)
                    or (isinstance(x, ast.Compare) and any(isinstance(o, (ast.In, ast.NotIn)) for o in x.ops) and norm(x.comparators[0]) == cache)
                    or (isinstance(x, ast.Subscript) and isinstance(x.ctx, ast.Load) and norm(x.value) == cache)
                    for x in walk_no_nested(fn)
                )
                if not looked_up:
                    continue
                key = st.targets[0].slice
                key_names = {x.id for x in ast.walk(key) if isinstance(x, ast.Name)}
                for _ in range(3):  # the key may be built in locals
                    for nm in list(key_names):
                        for v in local_assignments(fn, nm) or []:
                            key_names |= {x.id for x in ast.walk(v) if isinstance(x, ast.Name)}
                read = {x.id for x in walk_no_nested(fn) if isinstance(x, ast.Name) and isinstance(x.ctx, ast.Load)}
                missing = [p for p in params if p in read and p not in key_names]
                n += 1
                chk.ob(
                    "R10.6",
                    f"{ci.module if isinstance(ci.module, str) else ci.module.name}::{cname}.{mname}::memo-key::{cache}",
                    not missing,
                    prog.site(ci.module, st),
                    f"`{cache}[{norm(key)[:50]}]` remembers the result of {mname}({', '.join(params)}) without {missing} in the key: the first answer is returned for every later value of {missing}",
                )
    chk.analysed["memo_caches"] = n



# ------------------------------------------------------------------- R10.7
_MUTABLE_FACTORIES = ("dict", "list", "set", "defaultdict", "collections.defaultdict", "OrderedDict", "collections.OrderedDict", "deque", "collections.deque")


def _shared_on_replace(prog: Program, cname: str) -> List[str]:
    """init=True fields of a dataclass (own and inherited) whose default is a fresh mutable container:
    dataclasses.replace() passes the *same* container to the copy."""
    out = []
    for f in prog.all_fields(cname):
        d = f.default
        if f.is_classvar or f.init is False or not (isinstance(d, ast.Call) and norm(d.func) in ("field", "dataclasses.field")):
            continue
        fac = next((k.value for k in d.keywords if k.arg == "default_factory"), None)
        if fac is None:
            continue
        text = norm(fac)
        if text in _MUTABLE_FACTORIES or (isinstance(fac, ast.Lambda) and isinstance(fac.body, (ast.Dict, ast.List, ast.Set, ast.Call)) and (not isinstance(fac.body, ast.Call) or norm(fac.body.func) in _MUTABLE_FACTORIES)):
            out.append(f.name)
    return out


def copies_share_no_state(prog: Program, chk: Check, rule: str) -> None:
    chk.rule(
        rule,
        "a copy made with dataclasses.replace() shares no mutable state with the original: replace() hands every init field of the original to the copy, so a field whose default "
        "is a fresh dict / list / set (a memo, a collector) becomes one container for both objects - what the per-module view of an Options object or a specialised signature "
        "remembers would leak into every other copy and make a file's diagnostics depend on what was checked before it. For every replace(obj, ...) call the classes obj can be "
        "(the enclosing class and its subclasses for `self`; otherwise the dataclasses that have all the named fields - reported when every one of them has such a field) have no "
        "such field, unless the call passes it",
        floor=8,
    )
    n = 0
    for m, q, fn in prog.iter_functions():
        for call in walk_no_nested(fn):
            if not (isinstance(call, ast.Call) and norm(call.func) in ("replace", "dataclasses.replace") and call.args):
                continue
            kws = [k.arg for k in call.keywords if k.arg]
            recv = call.args[0]
            if isinstance(recv, ast.Name) and recv.id == "self" and "." in q and q.split(".")[0] in prog.classes:
                cands = [c for c in prog.subclasses(q.split(".")[0]) if prog.classes[c].is_dataclass]
            else:
                cands = [c for c, ci in prog.classes.items() if ci.is_dataclass and kws and all(any(f.name == k and f.init is not False for f in prog.all_fields(c)) for k in kws)]
            if not cands:
                continue
            n += 1
            shared = {c: [f for f in _shared_on_replace(prog, c) if f not in kws] for c in cands}
            bad = {c: fs for c, fs in shared.items() if fs}
            if len(bad) < len(cands) and not (isinstance(recv, ast.Name) and recv.id == "self"):
                bad = {}  # the receiver's class is not known: it may be one of the candidates without such a field
            chk.ob(
                rule,
                f"{m}::{q}::replace({norm(recv)[:30]}, {', '.join(kws)})",
                not bad,
                prog.site(m, call),
                f"`{norm(call)[:70]}` copies {sorted(bad)} whose field(s) {sorted({f for fs in bad.values() for f in fs})} hold a mutable container created per object: the copy and the original share it",
            )
    chk.analysed["replace_calls"] = n


def r10_7(prog: Program, chk: Check) -> None:
    copies_share_no_state(prog, chk, "R10.7")

def run(prog: Program, chk: Check) -> None:  # noqa: F811
    guard(chk, _run_123, prog, chk)
    guard(chk, r10_4, prog, chk)
    guard(chk, r10_5, prog, chk)
    guard(chk, r10_6, prog, chk)
    guard(chk, r10_7, prog, chk)
