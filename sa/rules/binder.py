"""Shared model of Signature.bind_arguments for C05 (binding order) and C20
(argument-kind markers): roles, atoms, actions, per-kind arms."""

from __future__ import annotations

import ast
from typing import Dict, List, Optional, Sequence, Tuple

from ..guarded import Evaluator, Trace, truth_table
from ..model import AnchorError, Program, dotted, last_attr, norm, parent, walk_no_nested

MARKERS = {"DEFAULT", "ARGS", "KWARGS", "UNKNOWN"}


class Binder:
    def __init__(self, prog: Program) -> None:
        self.prog = prog
        self.fn = prog.func("signature", "Signature.bind_arguments")
        # roles
        self.A = None
        for a in self.fn.args.args:
            if a.annotation is not None and "ActualArguments" in norm(a.annotation):
                self.A = a.arg
        if self.A is None:
            raise AnchorError("bind_arguments: no parameter annotated ActualArguments")
        # the binding loop: the loop over the parameters that advances an index into <actuals>.positionals
        # (other loops over the parameters, e.g. one that only counts them, are not it)
        self.loop = None
        self.IDX = None
        candidates = [n for n in walk_no_nested(self.fn) if isinstance(n, ast.For) and norm(n.iter) == "self.parameters.values()" and isinstance(n.target, ast.Name)]
        if not candidates:
            raise AnchorError("bind_arguments: loop over self.parameters.values() not found")
        for loop in candidates:
            for n in ast.walk(loop):
                if isinstance(n, ast.Compare) and len(n.ops) == 1 and isinstance(n.ops[0], ast.Lt) and isinstance(n.left, ast.Name):
                    r = n.comparators[0]
                    if isinstance(r, ast.Call) and last_attr(r) == "len" and r.args and self._is_A(r.args[0], "positionals"):
                        self.loop = loop
                        self.IDX = n.left.id
        if self.loop is None or self.IDX is None:
            raise AnchorError("bind_arguments: positional index variable not found")
        self.P = self.loop.target.id
        self.bound = None
        for n in ast.walk(self.loop):
            if isinstance(n, ast.Assign) and isinstance(n.targets[0], ast.Subscript) and self._is_P(n.targets[0].slice, "name") and isinstance(n.targets[0].value, ast.Name):
                self.bound = n.targets[0].value.id
        if self.bound is None:
            raise AnchorError("bind_arguments: bound-args mapping not found")
        from .common import need_locals

        need_locals(self.fn, "keywords_consumed", "definitely_provided", "position", "positionals", "items")
        self.arms = self._arms()
        # optional flag: "*args can no longer fill a parameter" - set in the
        # positional-or-keyword arm on a path where the parameter is passed by keyword
        self.exhausted_flag: Optional[str] = None
        for n in ast.walk(ast.Module(body=list(self.arms.get("POSITIONAL_OR_KEYWORD", [])), type_ignores=[])):
            if isinstance(n, ast.Assign) and len(n.targets) == 1 and isinstance(n.targets[0], ast.Name) and isinstance(n.value, ast.Constant) and n.value.value is True:
                nm = n.targets[0].id
                if nm.endswith("_consumed"):
                    continue
                p = parent(n)
                if isinstance(p, ast.If) and self.atom_of(p.test) == ("HAS_KW", True):
                    self.exhausted_flag = nm

    def _is_A(self, e: ast.AST, attr: str) -> bool:
        return isinstance(e, ast.Attribute) and e.attr == attr and isinstance(e.value, ast.Name) and e.value.id == self.A

    def _is_P(self, e: ast.AST, attr: str) -> bool:
        return isinstance(e, ast.Attribute) and e.attr == attr and isinstance(e.value, ast.Name) and e.value.id == self.P

    def _arms(self) -> Dict[str, List[ast.stmt]]:
        arms: Dict[str, List[ast.stmt]] = {}
        cur: Optional[ast.stmt] = self.loop.body[0] if self.loop.body else None
        while isinstance(cur, ast.If):
            t = cur.test
            kind = None
            if isinstance(t, ast.Compare) and len(t.ops) == 1 and isinstance(t.ops[0], (ast.Is, ast.Eq)) and self._is_P(t.left, "kind"):
                d = dotted(t.comparators[0])
                if d and d.startswith("ParameterKind."):
                    kind = d.split(".")[1]
            if kind is None:
                raise AnchorError(f"bind_arguments: unexpected arm test {norm(t)}")
            arms[kind] = cur.body
            if len(cur.orelse) == 1 and isinstance(cur.orelse[0], ast.If):
                cur = cur.orelse[0]
            else:
                break
        return arms

    # ---------------------------------------------------------------- atoms
    def atom_of(self, test: ast.AST) -> Optional[Tuple[str, bool]]:
        if isinstance(test, ast.Compare) and len(test.ops) == 1:
            op, l, r = test.ops[0], test.left, test.comparators[0]
            if isinstance(op, ast.Lt) and isinstance(l, ast.Name) and l.id == self.IDX and isinstance(r, ast.Call) and last_attr(r) == "len" and r.args and self._is_A(r.args[0], "positionals"):
                return "HAS_POS", True
            is_none = isinstance(r, ast.Constant) and r.value is None
            if is_none and isinstance(op, (ast.Is, ast.IsNot)):
                pol = isinstance(op, ast.IsNot)
                if self._is_A(l, "star_args"):
                    return "STAR_ARGS", pol
                if self._is_A(l, "star_kwargs"):
                    return "STAR_KWARGS", pol
                if self._is_P(l, "default"):
                    return "HAS_DEFAULT", pol
                if self._is_A(l, "param_spec"):
                    return "PARAM_SPEC_ARG", pol
            if isinstance(op, (ast.In, ast.NotIn)):
                pol = isinstance(op, ast.In)
                if self._is_P(l, "name") and self._is_A(r, "keywords"):
                    return "HAS_KW", pol
                if self._is_P(l, "name") and self._is_A(r, "pos_or_keyword_params"):
                    return "POK_NAME", pol
                if isinstance(l, ast.Name) and l.id == self.IDX and self._is_A(r, "pos_or_keyword_params"):
                    return "POK_IDX", pol
        if self._is_A(test, "ellipsis"):
            return "ELLIPSIS", True
        if isinstance(test, ast.Name) and getattr(self, "exhausted_flag", None) and test.id == self.exhausted_flag:
            return "STAR_EXHAUSTED", True
        if isinstance(test, ast.Name) and test.id == "definitely_provided":
            return "DEF_PROVIDED", True
        if isinstance(test, ast.Name) and test.id == "positionals":
            return "EXTRA_POS", True
        if isinstance(test, ast.Name) and test.id == "items":
            return "EXTRA_KW", True
        return None

    # -------------------------------------------------------------- actions
    def action_of(self, st: ast.stmt, tr: Trace) -> Optional[List[str]]:
        if isinstance(st, ast.Assign) and len(st.targets) == 1:
            t = st.targets[0]
            if isinstance(t, ast.Subscript) and isinstance(t.value, ast.Name) and t.value.id == self.bound:
                v = st.value
                first = v.elts[0] if isinstance(v, ast.Tuple) and v.elts else v
                return ["BIND:" + self._marker(first, tr)]
            if isinstance(t, ast.Name):
                if t.id == "position":
                    tr.markers["position"] = self._marker(st.value, tr)
                    return None
                if t.id.endswith("_consumed") and isinstance(st.value, ast.Constant) and st.value.value is True:
                    return ["FLAG:" + t.id]
                if t.id == getattr(self, "exhausted_flag", None) and isinstance(st.value, ast.Constant) and st.value.value is True:
                    return ["FLAG:star_exhausted"]
            return None
        if isinstance(st, ast.AugAssign) and isinstance(st.target, ast.Name) and st.target.id == self.IDX:
            return ["INC_POS"]
        if isinstance(st, ast.Expr) and isinstance(st.value, ast.Call):
            c = st.value
            nm = last_attr(c)
            if nm == "show_call_error":
                return ["ERROR"]
            if nm == "add" and isinstance(c.func, ast.Attribute) and norm(c.func.value) == "keywords_consumed":
                return ["CONSUME_KW"]
            return None
        if isinstance(st, ast.While):
            # *args absorbs the remaining positionals
            if self.atom_of(st.test) == ("HAS_POS", True):
                return ["ABSORB_POSITIONALS"]
            return None
        if isinstance(st, ast.For):
            if self._is_A(getattr(st.iter, "func", ast.Name(id="")).value if isinstance(st.iter, ast.Call) and isinstance(st.iter.func, ast.Attribute) else ast.Name(id=""), "keywords"):
                skip_consumed = any(
                    isinstance(n, ast.If) and "keywords_consumed" in norm(n.test) and any(isinstance(x, ast.Continue) for x in n.body)
                    for n in st.body
                )
                return ["ABSORB_KEYWORDS" + ("" if skip_consumed else "_INCLUDING_CONSUMED")]
            return None
        if isinstance(st, ast.Assert) and isinstance(st.test, ast.Constant) and st.test.value is False:
            return ["ASSERT_FALSE"]
        return None

    def _marker(self, e: ast.AST, tr: Trace) -> str:
        if isinstance(e, ast.Name):
            if e.id == self.IDX:
                return "POS_INDEX"
            if e.id in MARKERS:
                return e.id
            if e.id == "position":
                return tr.markers.get("position", "?")
        if self._is_P(e, "name"):
            return "KW_NAME"
        return "?" + norm(e)[:20]

    def table(self, kind: str, atoms: Sequence[str], fixed: Dict[str, bool]) -> Tuple[Dict, Evaluator]:
        if kind not in self.arms:
            raise AnchorError(f"bind_arguments: no arm for ParameterKind.{kind}")
        ev = Evaluator(self.atom_of, self.action_of)
        return truth_table(self.arms[kind], atoms, fixed, ev), ev


def core(actions: Sequence[str]) -> Tuple[str, ...]:
    """Drop bookkeeping flags: the observable decision."""
    return tuple(a for a in actions if not a.startswith("FLAG:"))
