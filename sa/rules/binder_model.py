"""Finite transition system of Signature.bind_arguments, extracted by the
opaque-value interpreter (sa/minterp.py), and the reference binder of the
language reference (section Calls) it is compared with.

Domain: signatures are sequences of (kind, has_default) in def order,
parameter i is named p<i>; a call shape is (number of definite positionals,
set of definite keyword names, *args of unknown length?, **kwargs with unknown
keys?).  Values are opaque.
"""

from __future__ import annotations

import ast
import itertools
from typing import Any, Dict, FrozenSet, Iterable, Iterator, List, Optional, Sequence, Tuple

from ..minterp import AssertionFailed, Interp, Obj, Opaque, Sym, Unsupported
from ..model import AnchorError, Program

PO, POK, VP, KO, VK = "POSITIONAL_ONLY", "POSITIONAL_OR_KEYWORD", "VAR_POSITIONAL", "KEYWORD_ONLY", "VAR_KEYWORD"
Param = Tuple[str, bool]  # kind, has_default
Shape = Tuple[int, FrozenSet[str], bool, bool]  # npos, keywords, star_args, star_kwargs
UNKNOWN_KW = "zz"


def signatures(max_params: int) -> Iterator[Tuple[Param, ...]]:
    """Every def-legal parameter list of up to max_params parameters."""
    for n_po in range(0, max_params + 1):
        for n_pok in range(0, max_params + 1 - n_po):
            for has_vp in (False, True):
                for n_ko in range(0, max_params + 1 - n_po - n_pok - has_vp):
                    for has_vk in (False, True):
                        if n_po + n_pok + has_vp + n_ko + has_vk > max_params:
                            continue
                        n_pos = n_po + n_pok
                        # positional defaults form a suffix
                        for first_default in range(0, n_pos + 1):
                            for ko_defaults in itertools.product((False, True), repeat=n_ko):
                                ps: List[Param] = []
                                for i in range(n_pos):
                                    ps.append((PO if i < n_po else POK, i >= first_default))
                                if has_vp:
                                    ps.append((VP, False))
                                for d in ko_defaults:
                                    ps.append((KO, d))
                                if has_vk:
                                    ps.append((VK, False))
                                yield tuple(ps)


def shapes(sig: Sequence[Param], max_pos: int, max_kw: int) -> Iterator[Shape]:
    names = [f"p{i}" for i, (k, _) in enumerate(sig) if k in (PO, POK, KO)] + [UNKNOWN_KW]
    for npos in range(0, max_pos + 1):
        for r in range(0, min(max_kw, len(names)) + 1):
            for kws in itertools.combinations(names, r):
                for sa in (False, True):
                    for sk in (False, True):
                        yield npos, frozenset(kws), sa, sk


# ------------------------------------------------------------------ reference
def cpython_outcome(sig: Sequence[Param], npos: int, kws: Iterable[str]) -> str:
    """Outcome of f(*[v]*npos, **{k: v for k in kws}) per the language reference
    (section Calls): "binds" or the TypeError category."""
    filled = set()
    pos_params = [i for i, (k, _) in enumerate(sig) if k in (PO, POK)]
    has_vp = any(k == VP for k, _ in sig)
    has_vk = any(k == VK for k, _ in sig)
    if npos > len(pos_params) and not has_vp:
        return "too-many-positionals"
    for i in pos_params[:npos]:
        filled.add(i)
    name_to_i = {f"p{i}": i for i, (k, _) in enumerate(sig) if k in (POK, KO)}
    for kw in kws:
        if kw in name_to_i:
            i = name_to_i[kw]
            if i in filled:
                return "multiple-values"
            filled.add(i)
        elif not has_vk:
            return "unexpected-keyword"  # also: a positional-only parameter passed by name
    for i, (k, d) in enumerate(sig):
        if k in (PO, POK, KO) and i not in filled and not d:
            return "missing-required"
    return "binds"


def cpython_binds(sig: Sequence[Param], npos: int, kws: Iterable[str]) -> bool:
    return cpython_outcome(sig, npos, kws) == "binds"


def expansions_bruteforce(sig: Sequence[Param], shape: Shape) -> Tuple[bool, bool, FrozenSet[str]]:
    """Enumerative definition, used to cross-check `expansions` on small domains.
    (some expansion binds, some expansion that takes >= 1 element from every
    star argument binds, the TypeError categories met over all expansions)."""
    npos, kws, sa, sk = shape
    n = len(sig)
    extra_pos = range(0, n + 2) if sa else (0,)
    cand = [f"p{i}" for i, (k, _) in enumerate(sig) if k in (PO, POK, KO) and f"p{i}" not in kws]
    cand.append("yy")  # a key no parameter is named after
    any_ok = nonempty_ok = False
    kw_sets: List[Tuple[str, ...]] = [()]
    if sk:
        kw_sets = [c for r in range(0, len(cand) + 1) for c in itertools.combinations(cand, r)]
    reasons = set()
    for a in extra_pos:
        for extra in kw_sets:
            o = cpython_outcome(sig, npos + a, list(kws) + list(extra))
            if o == "binds":
                any_ok = True
                if (not sa or a >= 1) and (not sk or len(extra) >= 1):
                    nonempty_ok = True
            else:
                reasons.add(o)
    return any_ok, nonempty_ok, frozenset(reasons)


def expansions(sig: Sequence[Param], shape: Shape) -> Tuple[bool, bool, FrozenSet[str]]:
    """Closed form of `expansions_bruteforce`: for each number of elements taken
    from *args, extra keywords can only repair `missing-required` (by naming
    exactly the missing keyword-capable parameters)."""
    npos, kws, sa, sk = shape
    n = len(sig)
    pos_params = [i for i, (k, _) in enumerate(sig) if k in (PO, POK)]
    has_vk = any(k == VK for k, _ in sig)
    any_ok = nonempty_ok = False
    reasons = set()
    for a in (range(0, n + 2) if sa else (0,)):
        o = cpython_outcome(sig, npos + a, kws)
        star_args_nonempty = (not sa) or a >= 1
        if o == "binds":
            any_ok = True
            if not sk:
                nonempty_ok = nonempty_ok or star_args_nonempty
            else:
                filled = set(pos_params[: npos + a])
                spare = any(k in (POK, KO) and i not in filled and f"p{i}" not in kws for i, (k, _) in enumerate(sig))
                if (spare or has_vk) and star_args_nonempty:
                    nonempty_ok = True
        elif o == "missing-required" and sk:
            filled = set(pos_params[: npos + a])
            missing = [i for i, (k, d) in enumerate(sig) if k in (PO, POK, KO) and not d and i not in filled and not (k != PO and f"p{i}" in kws)]
            if any(sig[i][0] == PO for i in missing):
                reasons.add(o)
            else:
                any_ok = True
                if star_args_nonempty:
                    nonempty_ok = True
        else:
            reasons.add(o)
    return any_ok, nonempty_ok, frozenset(reasons)


def expansions_bind(sig: Sequence[Param], shape: Shape) -> Tuple[bool, bool]:
    a, b, _ = expansions(sig, shape)
    return a, b


# ------------------------------------------------------------ extracted model
SYMS = ("DEFAULT", "ARGS", "KWARGS", "UNKNOWN", "ELLIPSIS_COMPOSITE", "ELLIPSIS")


class BinderModel:
    def __init__(self, prog: Program) -> None:
        self.prog = prog
        self.fn = prog.func("signature", "Signature.bind_arguments")
        a = [x.arg for x in self.fn.args.args]
        if len(a) != 3:
            raise AnchorError("bind_arguments: expected (self, actual_args, ctx)")
        self.p_self, self.p_actual, self.p_ctx = a

    def run(self, sig: Sequence[Param], shape: Shape) -> Tuple[str, List[str]]:
        """-> ("accept" | "reject", the call errors shown (message templates))"""
        npos, kws, sa, sk = shape
        params: Dict[str, Obj] = {}
        for i, (kind, d) in enumerate(sig):
            name = f"p{i}"
            params[name] = Obj(
                "SigParameter",
                name=name,
                kind=Sym(f"ParameterKind.{kind}"),
                default=Opaque(f"default:{name}") if d else None,
                annotation=Opaque(f"ann:{name}"),
                is_unnamed=lambda: False,
            )
        errors: List[Any] = []
        actual = Obj(
            "ActualArguments",
            positionals=[(True, Opaque(f"arg{i}")) for i in range(npos)],
            star_args=Opaque("star_args") if sa else None,
            keywords={k: (True, Opaque(f"kw:{k}")) for k in sorted(kws)},
            star_kwargs=Opaque("star_kwargs") if sk else None,
            kwargs_required=bool(sk),
            pos_or_keyword_params=frozenset(), min_star_args=0,
            ellipsis=False,
            param_spec=None,
        )
        self_obj = Obj("Signature", parameters=params, callable=None)

        def show_call_error(recv: Any, args: List[Any]) -> None:
            m = args[0] if args else None
            if isinstance(m, Opaque):
                errors.append(m.label[4:] if m.label.startswith("str:") else m.label)
            else:
                errors.append(str(m))

        env = {self.p_self: self_obj, self.p_actual: actual, self.p_ctx: Opaque("ctx")}
        it = Interp(env, {"show_call_error": show_call_error}, SYMS)
        try:
            res = it.run(self.fn)
        except Unsupported as u:
            raise AnchorError(f"bind_arguments cannot be modelled: {u}")
        except AssertionFailed as af:
            raise AnchorError(f"bind_arguments: assertion reached in the model: {af}")
        if res is None:
            return "reject", errors
        if not isinstance(res, dict):
            raise AnchorError("bind_arguments returned something that is neither None nor the bound-arguments mapping")
        return "accept", errors


def fmt_sig(sig: Sequence[Param]) -> str:
    out = []
    seen_po = False
    for i, (k, d) in enumerate(sig):
        nm = f"p{i}" + ("=d" if d else "")
        if k == PO:
            seen_po = True
            out.append(nm)
            continue
        if seen_po:
            out.append("/")
            seen_po = False
        if k == VP:
            out.append("*" + nm)
        elif k == VK:
            out.append("**" + nm)
        elif k == KO:
            if not any(x == "*" or x.startswith("*p") for x in out):
                out.append("*")
            out.append(nm)
        else:
            out.append(nm)
    if seen_po:
        out.append("/")
    return "def f(" + ", ".join(out) + ")"


def fmt_shape(shape: Shape) -> str:
    npos, kws, sa, sk = shape
    parts = [f"a{i}" for i in range(npos)]
    if sa:
        parts.append("*lst")
    parts += [f"{k}=v" for k in sorted(kws)]
    if sk:
        parts.append("**dct")
    return "f(" + ", ".join(parts) + ")"
