"""Finite model of configuration layering (C18): _parse_config_section,
parse_config_file, Options.from_option_list, Options.get_value_for and the
ConfigOption methods they call are interpreted from their AST on small stacks of
configuration files (dict literals standing for parsed TOML), and the effective
value for every queried module is compared with the documented layering."""

from __future__ import annotations

import ast
import itertools
from typing import Any, Dict, Iterator, List, Optional, Sequence, Tuple

from ..minterp import AssertionFailed, Interp, ModelError, Obj, Opaque, PyRaise, Sym, Unsupported
from ..model import AnchorError, Program

ERROR_CODES = ("code_a", "code_b", "code_off")
DEFAULT_OFF = ("code_off",)  # an error code that is disabled by default (like missing_f / use_fstrings)
MODULES: Tuple[Tuple[str, ...], ...] = ((), ("a",), ("a", "b"), ("a", "c"), ("ab",), ("a", "b", "c"))
OVERRIDE_PREFIXES = (("a",), ("a", "b"))


class ConfigModel:
    def __init__(self, prog: Program) -> None:
        self.prog = prog
        f = lambda q: prog.func("options", q)  # noqa: E731
        self.module_defs = {
            "parse_config_file": f("parse_config_file"),
            "_parse_config_section": f("_parse_config_section"),
        }
        self.method_defs: Dict[Tuple[str, str], ast.FunctionDef] = {}
        for kind, base in (("BoolCls", "BooleanOption"), ("IntCls", "IntegerOption"), ("ListCls", "StringSequenceOption")):
            self.method_defs[(kind, "parse")] = f(f"{base}.parse")
        self.method_defs[("BoolCls", "get_value_from_instances")] = f("ConfigOption.get_value_from_instances")
        self.method_defs[("IntCls", "get_value_from_instances")] = f("ConfigOption.get_value_from_instances")
        self.method_defs[("ListCls", "get_value_from_instances")] = f("ConcatenatedOption.get_value_from_instances")
        self.method_defs[("Option", "is_applicable_to")] = f("ConfigOption.is_applicable_to")
        self.method_defs[("Option", "sort_key")] = f("ConfigOption.sort_key")
        self.method_defs[("OptionsCls", "from_option_list")] = f("Options.from_option_list")
        self.method_defs[("Options", "get_value_for")] = f("Options.get_value_for")
        self.method_defs[("Options", "_get_value_for_no_default")] = f("Options._get_value_for_no_default")
        self.method_defs[("Options", "for_module")] = f("Options.for_module")
        self.method_defs[("Options", "is_error_code_enabled")] = f("Options.is_error_code_enabled")
        # how the command line becomes option instances
        self.prepare = prog.func("name_check_visitor", "NameCheckVisitor.prepare_constructor_kwargs")
        # dataclass field defaults of ConfigOption, read from the class body
        ci = prog.cls("ConfigOption")
        self.field_defaults: Dict[str, Any] = {}
        for fi in prog.all_fields("ConfigOption"):
            pass
        for st in ci.node.body:
            if isinstance(st, ast.AnnAssign) and isinstance(st.target, ast.Name) and st.value is not None and "ClassVar" not in ast.unparse(st.annotation):
                try:
                    self.field_defaults[st.target.id] = ast.literal_eval(st.value)
                except ValueError:
                    raise AnchorError(f"ConfigOption.{st.target.id}: non-literal default")
        self.field_order = [st.target.id for st in ci.node.body if isinstance(st, ast.AnnAssign) and isinstance(st.target, ast.Name) and "ClassVar" not in ast.unparse(st.annotation)]
        if self.field_order[:1] != ["value"] or "applicable_to" not in self.field_order or "priority" not in self.field_order:
            raise AnchorError(f"ConfigOption fields are {self.field_order}")

    # ---------------------------------------------------------------- classes
    def _option_class(self, kind: str, name: str, default: Any) -> Obj:
        cls = Obj(kind, name=name, default_value=default, should_create_command_line_option=True)

        def construct(*args: Any, **kwargs: Any) -> Obj:
            vals = dict(self.field_defaults)
            for k, v in zip(self.field_order, args):
                vals[k] = v
            vals.update(kwargs)
            missing = [k for k in self.field_order if k not in vals]
            if missing:
                raise ModelError(f"ConfigOption constructed without {missing}")
            return Obj("Option", name=name, cls=cls, **vals)

        cls._attrs["__call__"] = construct
        return cls

    def registry(self) -> Dict[str, Obj]:
        reg = {
            "flag": self._option_class("BoolCls", "flag", False),
            "num": self._option_class("IntCls", "num", 7),
            "names": self._option_class("ListCls", "names", ["dflt"]),  # a non-empty built-in default: it is appended once, after everything configured
        }
        for c in ERROR_CODES:
            reg[c] = self._option_class("BoolCls", c, c not in DEFAULT_OFF)  # error codes are enabled by default, except the opt-in ones
        return reg

    # ------------------------------------------------------------------- run
    def _options_constructor(self) -> Any:
        """Options(...) as the generated dataclass __init__ does it: fields and defaults read from the class body."""
        ci = self.prog.cls("Options")
        fields: List[Tuple[str, Any]] = []
        for st in ci.node.body:
            if not (isinstance(st, ast.AnnAssign) and isinstance(st.target, ast.Name)) or "ClassVar" in ast.unparse(st.annotation):
                continue
            v = st.value
            if v is None:
                fields.append((st.target.id, ...))
            elif isinstance(v, ast.Call) and ast.unparse(v.func).endswith("field"):
                kws = {k.arg: k.value for k in v.keywords}
                if "default_factory" in kws and isinstance(kws["default_factory"], ast.Name) and kws["default_factory"].id in ("dict", "list", "set"):
                    fields.append((st.target.id, {"dict": dict, "list": list, "set": set}[kws["default_factory"].id]))
                elif "default" in kws:
                    fields.append((st.target.id, ("const", ast.literal_eval(kws["default"]))))
                else:
                    raise AnchorError(f"Options.{st.target.id}: field() without a default the model understands")
            else:
                fields.append((st.target.id, ("const", ast.literal_eval(v))))

        def construct(*args: Any, **kwargs: Any) -> Obj:
            vals: Dict[str, Any] = {}
            for (name, _), a in zip(fields, args):
                vals[name] = a
            vals.update(kwargs)
            for name, d in fields:
                if name in vals:
                    continue
                if d is ...:
                    raise ModelError(f"Options constructed without {name}")
                vals[name] = d[1] if isinstance(d, tuple) else d()
            return Obj("Options", **vals)

        return construct

    def effective(self, files: Sequence[Dict[str, Any]], cmdline: Dict[str, Any], queries: Sequence[Tuple[str, Tuple[str, ...]]], enabled_queries: bool = False) -> Any:
        """files[0] is the main file; file i names file i+1 in its extend_config key
        (placed where the dict literal puts it).  Returns {query: value} or ("error", kind)."""
        reg = self.registry()
        paths = [Obj("Path", idx=i) for i in range(len(files))]
        for i, p in enumerate(paths):
            p._attrs["resolve"] = (lambda strict=False, me=p: me)
            p._attrs["open"] = (lambda mode="r", me=p: Obj("File", path=me))
            p._attrs["parent"] = Obj("Dir", of=p)
        for i, p in enumerate(paths):
            d = p.get("parent", None)
            # path.parent / "<name>" -> the extended file's Path
            d._attrs["__truediv__"] = None

        def load(fobj: Any) -> Any:
            return {"tool": {"pyanalyze": files[fobj.get("path", None).get("idx", None)]}}

        tomli = Obj("tomli", load=load)
        config_option = Obj("ConfigOptionCls", registry=reg)
        options_cls = Obj("OptionsCls")
        options_cls._attrs["__call__"] = self._options_constructor()

        def isinstance_hook(v: Any, cls: str) -> Optional[bool]:
            return None

        def dc_replace(args: List[Any], kwargs: Any = None) -> Any:
            src = args[0]
            if not (isinstance(src, Obj) and src._kind == "Options"):
                raise AnchorError("configuration model: dataclasses.replace on something other than Options")
            return Obj("Options", **{**src._attrs, **(kwargs or {})})  # a new object with the same field values (references are shared)

        dc_replace.wants_kwargs = True  # type: ignore[attr-defined]
        funcs = {
            "replace": dc_replace,
            "get_all_error_codes": lambda args: frozenset(ERROR_CODES),
            "InvalidConfigOption": lambda args: Obj("InvalidConfigOption", message=str(args[0]) if args else ""),
        }
        env_globals = {"tomli": tomli, "ConfigOption": config_option, "Options": options_cls}

        def path_div(op: ast.operator, a: Any, b: Any) -> Any:
            # path.parent / "<name>": the extended file's Path, or a missing file
            if isinstance(op, ast.Div) and isinstance(a, Obj) and a._kind == "Dir" and isinstance(b, str):
                if b.startswith("file") and b[4:].isdigit() and int(b[4:]) < len(paths):
                    # `dir / "name"` is a new, unresolved path object (think `../conf/name`, a symlink): only resolve() gives the canonical one
                    target = paths[int(b[4:])]
                    alias = Obj("Path", idx=target._attrs.get("idx"), unresolved=True)
                    alias._attrs["resolve"] = lambda strict=False, target=target: target
                    return alias
                missing = Obj("Path", idx=-1)
                missing._attrs["resolve"] = lambda strict=False: (_ for _ in ()).throw(PyRaise("FileNotFoundError", None))
                return missing
            return NotImplemented

        env_globals["__binop__"] = path_div

        def checker(args: List[Any], kwargs: Any = None) -> Any:
            return Obj("Checker", raw_options=(kwargs or {}).get("raw_options", args[0] if args else None))

        checker.wants_kwargs = True  # type: ignore[attr-defined]
        funcs["Checker"] = checker
        funcs["patch_typing_overload"] = lambda args: None
        out: Dict[Any, Any] = {}
        try:
            it = Interp({}, {}, (), funcs, isinstance_hook, self.method_defs, self.module_defs, env_globals)
            # the command line reaches Options the way the checker's entry point does it
            kwargs = dict(cmdline)
            if "settings" in kwargs:  # what -e / -d build: {ErrorCode member: bool}
                kwargs["settings"] = {Obj("Error", name=k): v for k, v in kwargs["settings"].items()}
            kwargs["config_file"] = paths[0]
            prepared = it.call_def(self.prepare, [Obj("NameCheckVisitorCls", config_filename=None), kwargs], self.prepare)
            ck = prepared.get("checker") if isinstance(prepared, dict) else None
            if not (isinstance(ck, Obj) and ck._kind == "Checker"):
                raise AnchorError("prepare_constructor_kwargs did not build a Checker from the options in the model")
            opts = ck.get("raw_options", None)
            # the per-module views are created first and asked afterwards, as a run that keeps one visitor per file does
            views = [it.call_def(self.method_defs[("Options", "for_module")], [opts, mod], self.module_defs["parse_config_file"]) for _, mod in queries]
            for qi, (name, mod) in enumerate(queries):
                o2 = views[qi]
                if enabled_queries:
                    # the question every shown error asks; asked in sequence on views of one Options object
                    out[(qi, name, mod)] = it.call_def(self.method_defs[("Options", "is_error_code_enabled")], [o2, Obj("Error", name=name)], self.module_defs["parse_config_file"])
                else:
                    out[(name, mod)] = it.call_def(self.method_defs[("Options", "get_value_for")], [o2, reg[name]], self.module_defs["parse_config_file"])
        except PyRaise as pr:
            return ("error", pr.kind)
        except RecursionError:
            return ("error", "<does not terminate: unbounded recursion>")
        except Unsupported as u:
            if "step budget" in str(u):
                return ("error", "<does not terminate: step budget exhausted>")
            raise AnchorError(f"configuration layering cannot be modelled: {u}")
        except AssertionFailed as af:
            raise AnchorError(f"configuration layering: assertion reached: {af}")
        return out


# ---------------------------------------------------------------- reference
def expand_disable_all(section: Dict[str, Any]) -> Dict[str, Any]:
    """disable_all = true in a section sets every error code that the same section
    does not set to true to false, at that section's level."""
    s = {k: v for k, v in section.items() if k not in ("disable_all", "module", "overrides", "extend_config")}
    if section.get("disable_all") is True:
        for c in ERROR_CODES:
            if s.get(c) is not True:
                s[c] = False
    return s


def reference(files: Sequence[Dict[str, Any]], cmdline: Dict[str, Any], name: str, mod: Tuple[str, ...], default: Any, is_list: bool) -> Any:
    layers: List[Any] = []
    if name in cmdline.get("settings", {}):
        layers.append(cmdline["settings"][name])
    if name in cmdline:
        layers.append(cmdline[name])
    for f in files:
        ovs = []
        for ov in f.get("overrides", []):
            prefix = tuple(ov["module"].split("."))
            if mod[: len(prefix)] == prefix:
                s = expand_disable_all(ov)
                if name in s:
                    ovs.append((len(prefix), s[name]))
        # most specific matching override first; TOML order breaks ties (stable sort)
        for _, v in sorted(ovs, key=lambda t: -t[0]):
            layers.append(v)
        top = expand_disable_all(f)
        if name in top:
            layers.append(top[name])
    if is_list:
        out: List[Any] = []
        for v in layers:
            out += v
        return out + list(default)
    return layers[0] if layers else default
