"""C15 - type-variable solutions satisfy the bounds they were solved from: solver shape."""

from __future__ import annotations

import ast
from typing import Dict, List, Optional, Set, Tuple

from ..model import AnchorError, Program, dotted, last_attr, norm, parent, walk_no_nested
from ..report import Check, guard
from .c12 import _domain, chain_subject, failing_default_sites, reaching_default
from .common import calls_in, guards_of, local_assignments, need_locals, returns_of, stmt_of


def r15_1(prog: Program, chk: Check) -> None:
    chk.rule("R15.1", "the Bound dispatch of solve() handles every Bound subclass", floor=4)
    fn = prog.func("typevar", "solve")
    subs = prog.subclasses("Bound", strict=True)
    handled: Set[str] = set()
    loop_var = None
    for n in walk_no_nested(fn):
        if isinstance(n, ast.For) and norm(n.iter) == "bounds" and isinstance(n.target, ast.Name):
            loop_var = n.target.id
    if loop_var is None:
        raise AnchorError("solve: loop over bounds not found")
    has_failing_default = False
    for m, q, f, node, kind in failing_default_sites(prog):
        if (m, q) == ("typevar", "solve") and chain_subject(node) == loop_var:
            has_failing_default = True
            reached = reaching_default(prog, "typevar", fn, node, loop_var, _domain(prog, "typevar", "classes:Bound"))
            for s in subs:
                chk.ob("R15.1", f"typevar::solve::bound-kind={s}", s not in reached, prog.site("typevar", node), f"Bound subclass {s} reaches the failing default of solve()")
    if not has_failing_default:
        for s in subs:
            chk.ob("R15.1", f"typevar::solve::bound-kind={s}", any(f"isinstance({loop_var}, {s})" in norm(n.test) for n in walk_no_nested(fn) if isinstance(n, ast.If)), prog.site("typevar", fn), f"Bound subclass {s} is silently ignored by solve()")


def r15_2(prog: Program, chk: Check) -> None:
    chk.rule("R15.2", "declared bounds always participate: every bounds list handed to make_bounds_map spreads get_inherent_bounds() of each type variable involved", floor=5)
    ci = prog.cls("TypeVarValue")
    for mname in ("can_assign", "can_be_assigned"):
        fn = ci.methods[mname]
        assigns = [n for n in walk_no_nested(fn) if isinstance(n, ast.Assign) and norm(n.targets[0]) == "bounds"]
        if not assigns:
            raise AnchorError(f"TypeVarValue.{mname}: no `bounds = [...]`")
        for i, a in enumerate(assigns):
            spreads = [norm(e.value) for e in getattr(a.value, "elts", []) if isinstance(e, ast.Starred)]
            other_tv = any("isinstance" in norm(g) and "TypeVarValue" in norm(g) and pol for g, pol in guards_of(a, fn))
            need = {"self.get_inherent_bounds()"}
            if other_tv:
                other_name = [p.arg for p in fn.args.args][1]
                need.add(f"{other_name}.get_inherent_bounds()")
            chk.ob(
                "R15.2",
                f"value::TypeVarValue.{mname}::bounds#{i + 1}",
                need <= set(spreads),
                prog.site("value", a),
                f"bounds list {norm(a.value)[:80]} must spread {sorted(need)}: a declared bound/constraint that is left out is never checked",
            )
        mb = [c for c in calls_in(fn, "make_bounds_map")]
        chk.ob("R15.2", f"value::TypeVarValue.{mname}::solves", bool(mb) and all(c.args and norm(c.args[0]) == "bounds" for c in mb), prog.site("value", fn), "the collected bounds must be handed to make_bounds_map")
    gi = ci.methods["get_inherent_bounds"]
    t = norm(gi)
    chk.ob(
        "R15.2",
        "value::TypeVarValue.get_inherent_bounds::yields",
        "if self.bound is not None:\n        yield UpperBound(self.typevar, self.bound)" in t and "if self.constraints:\n        yield IsOneOf(self.typevar, self.constraints)" in t,
        prog.site("value", gi),
        "get_inherent_bounds must yield UpperBound for a declared bound and IsOneOf for declared constraints",
    )
    mbm = ci.methods["make_bounds_map"]
    t = norm(mbm)
    chk.ob("R15.2", "value::TypeVarValue.make_bounds_map::errors-reject", "if errors:\n        return CanAssignError" in t, prog.site("value", mbm), "make_bounds_map must reject when the solver reports errors")


def r15_3(prog: Program, chk: Check) -> None:
    chk.rule("R15.3", "final consistency check: when both a lower and an upper bound were recorded, top.can_assign(bottom) is checked and its error returned before a solution is chosen", floor=2)
    fn = prog.func("typevar", "solve")
    need_locals(fn, "bottom", "top", "bound", "options", "solution", "available", "can_assigns", "option")
    ok = False
    why = "no `if bottom is BOTTOM ... elif top is TOP ... else` chain"
    for n in fn.body:
        if isinstance(n, ast.If) and norm(n.test) == "bottom is BOTTOM" and len(n.orelse) == 1 and isinstance(n.orelse[0], ast.If) and norm(n.orelse[0].test) == "top is TOP":
            both = n.orelse[0].orelse
            chk_call = None
            for s in both:
                if isinstance(s, ast.Assign) and isinstance(s.value, ast.Call) and norm(s.value.func) == "top.can_assign" and s.value.args and norm(s.value.args[0]) == "bottom":
                    chk_call = norm(s.targets[0])
            ret_err = any(
                isinstance(s, ast.If) and chk_call and norm(s.test) == f"isinstance({chk_call}, CanAssignError)" and isinstance(s.body[-1], ast.Return) and "CanAssignError" in norm(s.body[-1])
                for s in both
            )
            ok = chk_call is not None and ret_err
            why = "the both-bounds arm must compute top.can_assign(bottom, ctx) and return a CanAssignError when it fails"
    chk.ob("R15.3", "typevar::solve::top-accepts-bottom", ok, prog.site("typevar", fn), why)
    # folding of bounds: each new bound is compared with the current one in both directions before uniting
    t = norm(fn)
    chk.ob(
        "R15.3",
        "typevar::solve::fold-compares-both-directions",
        "bound.value.is_assignable(bottom, ctx)" in t and "bottom.is_assignable(bound.value, ctx)" in t and "top.is_assignable(bound.value, ctx)" in t and "bound.value.is_assignable(top, ctx)" in t,
        prog.site("typevar", fn),
        "lower and upper bounds must each be folded by comparing the new bound with the current one in both directions",
    )


def r15_4(prog: Program, chk: Check) -> None:
    chk.rule("R15.4", "constrained variables: when constraints exist every returned value is one of them, Any, or an error", floor=3)
    fn = prog.func("typevar", "solve")
    block = None
    for n in fn.body:
        if isinstance(n, ast.If) and norm(n.test) == "options is not None":
            block = n
    if block is None:
        raise AnchorError("solve: `if options is not None` block not found")
    idx: Dict[str, int] = {}
    for r in [x for x in ast.walk(block) if isinstance(x, ast.Return)]:
        v = r.value
        t = norm(v) if v is not None else "None"
        kind = None
        if isinstance(v, ast.Subscript) and norm(v.value) == "available":
            kind = "constraint"
        elif isinstance(v, ast.Call) and last_attr(v) == "AnyValue":
            kind = "any"
        elif isinstance(v, ast.Call) and last_attr(v) == "CanAssignError":
            kind = "error"
        elif isinstance(v, ast.Name) and v.id == "solution":
            if any(pol and norm(g) == "isinstance(solution, AnyValue)" for g, pol in guards_of(r, fn)):
                kind = "any"
        idx[t] = idx.get(t, 0) + 1
        chk.ob(
            "R15.4",
            f"typevar::solve::constrained-return::{t[:40]}" + (f"#{idx[t]}" if idx[t] > 1 else ""),
            kind is not None,
            prog.site("typevar", r),
            f"with constraints present solve() returns `{t}`, which is neither a declared constraint, Any, nor an error",
        )
    # `available` is filtered from options by acceptance of the solution
    t = norm(block)
    chk.ob(
        "R15.4",
        "typevar::solve::available-are-accepting-options",
        "option.can_assign(solution, ctx) for option in options" in t and "for option, can_assign in zip(options, can_assigns) if not isinstance(can_assign, CanAssignError)" in t,
        prog.site("typevar", block),
        "`available` must be exactly the declared constraints that accept the folded solution",
    )
    # the block is the last step: nothing after it may return a non-option
    last = fn.body[-1]
    chk.ob("R15.4", "typevar::solve::unconstrained-return", isinstance(last, ast.Return) and norm(last.value) == "solution" and fn.body.index(block) == len(fn.body) - 2, prog.site("typevar", fn), "the unconstrained result is returned only when no constraints exist")


def r15_5(prog: Program, chk: Check) -> None:
    chk.rule("R15.5", "errors surface: resolve_bounds_map collects every solver error and every caller tests them", floor=4)
    fn = prog.func("typevar", "resolve_bounds_map")
    need_locals(fn, "solution", "errors", "tv_map")
    t = norm(fn)
    chk.ob(
        "R15.5",
        "typevar::resolve_bounds_map::collects",
        "if isinstance(solution, CanAssignError):\n            errors.append(solution)" in t and "return (tv_map, errors)" in t,
        prog.site("typevar", fn),
        "every CanAssignError returned by solve() must be appended to errors and returned",
    )
    for mod in prog.modules.values():
        for c in calls_in(mod.tree, "resolve_bounds_map"):
            q = prog.qualname_of(mod, c)
            st = stmt_of(c)
            ok = False
            if isinstance(st, ast.Assign) and isinstance(st.targets[0], ast.Tuple) and len(st.targets[0].elts) == 2:
                err = norm(st.targets[0].elts[1])
                f = st
                while f is not None and not isinstance(f, (ast.FunctionDef, ast.AsyncFunctionDef)):
                    f = parent(f)
                for n in walk_no_nested(f):
                    if isinstance(n, ast.If) and norm(n.test) == err and n.lineno > st.lineno and isinstance(n.body[-1], ast.Return):
                        ok = True
            chk.ob("R15.5", f"{mod.name}::{q}::tests-errors", ok, prog.site(mod, c), "the errors returned by resolve_bounds_map must be tested and turned into a rejection")


def _leaves(stmts: List[ast.stmt], guards: List[Tuple[ast.AST, bool]]) -> List[Tuple[List[Tuple[ast.AST, bool]], List[ast.stmt]]]:
    """Paths through an if/elif/else tree of simple statements: (guards, statements executed)."""
    paths: List[Tuple[List[Tuple[ast.AST, bool]], List[ast.stmt]]] = [(list(guards), [])]
    for st in stmts:
        nxt = []
        for g, done in paths:
            if done and isinstance(done[-1], (ast.Continue, ast.Return, ast.Break, ast.Raise)):
                nxt.append((g, done))
                continue
            if isinstance(st, ast.If):
                for g2, d2 in _leaves(st.body, g + [(st.test, True)]):
                    nxt.append((g2, done + d2))
                for g2, d2 in _leaves(st.orelse, g + [(st.test, False)]):
                    nxt.append((g2, done + d2))
            else:
                nxt.append((g, done + [st]))
        paths = nxt
    return paths


def r15_6(prog: Program, chk: Check) -> None:
    chk.rule(
        "R15.6",
        "no bound is forgotten: in solve() a lower (upper) bound leaves the accumulated bottom (top) unchanged only when the "
        "accumulated value already implies it - bottom.is_assignable(bound.value) / bound.value.is_assignable(top) - "
        "or under the documented Any exemption; never on the strength of the other accumulator",
        floor=4,
    )
    fn = prog.func("typevar", "solve")
    loop = next((n for n in walk_no_nested(fn) if isinstance(n, ast.For) and norm(n.iter) == "bounds" and isinstance(n.target, ast.Name)), None)
    if loop is None:
        raise AnchorError("solve: loop over bounds not found")
    b = loop.target.id
    arms: Dict[str, List[ast.stmt]] = {}
    cur = loop.body[0] if loop.body else None
    while isinstance(cur, ast.If):
        t = norm(cur.test)
        for kind in ("LowerBound", "UpperBound"):
            if t == f"isinstance({b}, {kind})":
                arms[kind] = cur.body
        cur = cur.orelse[0] if len(cur.orelse) == 1 and isinstance(cur.orelse[0], ast.If) else None
    if set(arms) != {"LowerBound", "UpperBound"}:
        raise AnchorError("solve: LowerBound / UpperBound arms not found")
    spec = {
        "LowerBound": ("bottom", lambda c: norm(c.func) == "bottom.is_assignable" and c.args and norm(c.args[0]) == f"{b}.value"),
        "UpperBound": ("top", lambda c: norm(c.func) == f"{b}.value.is_assignable" and c.args and norm(c.args[0]) == "top"),
    }
    for kind, body in arms.items():
        acc, implied = spec[kind]
        n = 0
        for guards, done in _leaves(body, []):
            if any(isinstance(s, ast.Return) for s in done):
                continue
            if any(isinstance(s, ast.Assign) and any(norm(t) == acc for t in s.targets) for s in done):
                continue
            n += 1
            pos_calls: List[ast.Call] = []

            def pos(t: ast.AST) -> None:
                if isinstance(t, ast.BoolOp) and isinstance(t.op, ast.And):
                    for v in t.values:
                        pos(v)
                elif isinstance(t, ast.UnaryOp) and isinstance(t.op, ast.Not):
                    neg(t.operand)
                elif isinstance(t, ast.Call):
                    pos_calls.append(t)

            def neg(t: ast.AST) -> None:
                if isinstance(t, ast.BoolOp) and isinstance(t.op, ast.Or):
                    for v in t.values:
                        neg(v)
                elif isinstance(t, ast.UnaryOp) and isinstance(t.op, ast.Not):
                    pos(t.operand)

            for t, inbody in guards:
                (pos if inbody else neg)(t)
            ok = any(implied(c) for c in pos_calls)
            exempt = kind == "LowerBound" and any(
                inbody and f"isinstance({b}.value, AnyValue)" in norm(t) and "bottom is not BOTTOM" in norm(t) for t, inbody in guards
            )
            gtxt = " and ".join(("" if inbody else "not ") + "(" + norm(t) + ")" for t, inbody in guards) or "<unconditional>"
            chk.ob("R15.6", f"typevar::solve::{kind}::unchanged-{acc}::path{n}", ok or exempt, prog.site("typevar", done[-1] if done else body[0]),
                   f"a {kind} is dropped without updating `{acc}` when {gtxt}: that does not establish that `{acc}` already implies the bound, so the verdict depends on the order of the bounds")
        chk.ob("R15.6", f"typevar::solve::{kind}::has-update-path", any(any(isinstance(s, ast.Assign) and any(norm(t) == acc for t in s.targets) for s in d) for _, d in _leaves(body, [])), prog.site("typevar", body[0]), f"the {kind} arm never updates `{acc}`")


# ------------------------------------------------------------------- R15.7
def _solver_chunk(args):
    msets = args
    import itertools as _it

    from ..model import Program as _P
    from . import solver_model as sm

    model = sm.SolverModel(_P())
    classes: Dict[str, Dict[str, object]] = {}
    runs = 0

    def note(key: str, bad: bool, detail) -> None:
        c = classes.setdefault(key, {"n": 0, "bad": 0, "witness": []})
        c["n"] += 1  # type: ignore[operator]
        if bad:
            c["bad"] += 1  # type: ignore[operator]
            w = c["witness"]
            w.append(detail)  # type: ignore[union-attr]
            w.sort(key=lambda d: (len(d[0]), d))  # type: ignore[union-attr]
            del w[6:]  # type: ignore[arg-type]

    for ms in msets:
        verdicts = set()
        sols = set()
        uppers = [sm.TYPES[v] for k, v in ms if k == "U" and v != "Any"]
        separate = any(not (a <= b or b <= a) for a in uppers for b in uppers)
        has_c = any(k == "C" for k, _ in ms)
        for perm in _it.permutations(ms):
            runs += 1
            kind, mem = model.run(perm)
            verdicts.add(kind)
            if kind == "value":
                sols.add(mem)
                why = sm.satisfies(mem, perm)
                if why is None:
                    note("solution-satisfies-every-bound", False, None)
                else:
                    if "lower bound" in why:
                        key = "solution-misses-a-lower-bound"
                    elif "upper bound" in why:
                        key = "solution-exceeds-an-upper-bound::" + ("constraint-chosen-without-upper-check" if has_c else "unrelated-upper-bounds" if separate else "other")
                    else:
                        key = "solution-is-not-a-constraint"
                    note(key, True, (sm.fmt_bounds(perm), f"solution {sm.tname(mem)} {why}"))
            elif kind == "error":
                note("error-only-when-unsolvable-or-conservative", False, None)
            else:
                note("any-fallback", False, None)
        accepted = {v != "error" for v in verdicts}
        note("verdict-independent-of-order", len(accepted) > 1, (sm.fmt_bounds(ms), f"verdicts over the permutations: {sorted(verdicts)}"))
    return runs, classes


def r15_7(prog: Program, chk: Check) -> None:
    import multiprocessing as mp
    import os as _os

    from . import solver_model as sm

    size = 3 if _os.environ.get("VERIF_SELFTEST") else 6 if chk.tier == "thorough" else 4
    chk.rule(
        "R15.7",
        "the solver as a finite model: solve() (with remove_redundant_solutions) is interpreted from its AST over a lattice of five types (sets of runtime classes; "
        f"assignability = inclusion, unite_values = union) for every set of up to {size} bounds drawn from lower/upper bounds on each type and three constraint lists, "
        "in every order: a returned type accepts every lower bound, is accepted by every upper bound and is one of the constraints; accepted-vs-diagnosed does not depend on the order",
        floor=3,
    )
    msets = list(sm.multisets(size))
    procs = 2 if _os.environ.get("VERIF_SELFTEST") else min(16, _os.cpu_count() or 1)
    chunks = [msets[i :: procs * 2] for i in range(procs * 2)]
    chunks = [c for c in chunks if c]
    with mp.get_context("fork").Pool(procs) as pl:
        results = pl.map(_solver_chunk, chunks)
    runs = 0
    merged: Dict[str, Dict[str, object]] = {}
    for r, classes in results:
        runs += r
        for k, c in classes.items():
            m = merged.setdefault(k, {"n": 0, "bad": 0, "witness": []})
            m["n"] += c["n"]  # type: ignore[operator]
            m["bad"] += c["bad"]  # type: ignore[operator]
            m["witness"] = sorted(list(m["witness"]) + list(c["witness"]), key=lambda d: (len(d[0]), d))[:6]  # type: ignore[arg-type]
    chk.model_evaluations += runs
    chk.analysed["solver_model"] = {"bound_sets": len(msets), "orders_interpreted": runs, "max_bounds": size, "lattice": sorted(sm.TYPES)}
    site = prog.site("typevar", prog.func("typevar", "solve"))
    for must in ("solution-satisfies-every-bound", "verdict-independent-of-order"):
        if must not in merged:
            raise AnchorError(f"solver model: class {must} is empty (model broken)")
    for k, c in sorted(merged.items()):
        wit = [{"bounds": w[0], "detail": w[1]} for w in c["witness"]]  # type: ignore[union-attr]
        chk.ob(
            "R15.7",
            f"typevar::solve::model::{k}",
            int(c["bad"]) == 0,  # type: ignore[arg-type]
            site,
            f"{c['n']} cases, {c['bad']} failing" + (f"; smallest: bounds {wit[0]['bounds']}: {wit[0]['detail']}" if wit else ""),
            witness=wit,
        )


# ------------------------------------------------------------------- R15.8
def r15_8(prog: Program, chk: Check) -> None:
    chk.rule(
        "R15.8",
        "a bound on a type variable never travels without the variable's declared bound and constraints: every LowerBound / UpperBound constructed for `X.typevar` (outside the solver) "
        "sits in a list that also spreads `X.get_inherent_bounds()`, or the enclosing test establishes a ParamSpec (`X.is_paramspec` / `kind is ParameterKind.PARAM_SPEC`), which has neither; otherwise the solver can choose a solution outside the "
        "declared bound (e.g. type[T] matched against a class)",
        floor=2,
    )
    n = 0
    for m, q, fn in prog.iter_functions():
        if m == "typevar" or q.endswith(".get_inherent_bounds"):
            continue  # the solver builds bounds from bounds; get_inherent_bounds is their source
        for node in walk_no_nested(fn):
            if not (isinstance(node, ast.Call) and isinstance(node.func, ast.Name) and node.func.id in ("LowerBound", "UpperBound") and node.args):
                continue
            tv = node.args[0]
            if not (isinstance(tv, ast.Attribute) and tv.attr == "typevar"):
                continue
            owner = norm(tv.value)
            n += 1
            # (a) the same list display spreads the owner's inherent bounds
            p = parent(node)
            in_list = isinstance(p, ast.List) and any(isinstance(e, ast.Starred) and norm(e.value) == f"{owner}.get_inherent_bounds()" for e in p.elts)
            # (b) an enclosing test establishes that the owner is a ParamSpec
            paramspec = False
            child: ast.AST = node
            up = parent(node)
            while up is not None and up is not fn:
                if isinstance(up, ast.If) and any(child is st or any(x is child for x in ast.walk(st)) for st in up.body) and (f"{owner}.is_paramspec" in norm(up.test) or "ParameterKind.PARAM_SPEC" in norm(up.test)):
                    paramspec = True
                child = up
                up = parent(up)
            chk.ob(
                "R15.8",
                f"{m}::{q}::bound-for::{owner}::{node.func.id}",
                in_list or paramspec,
                prog.site(m, node),
                f"`{norm(node)[:70]}` constrains {owner}.typevar without `*{owner}.get_inherent_bounds()`: the declared bound / constraints of the type variable are lost for this match",
            )
    chk.analysed["bound_constructions_outside_solver"] = n


# ------------------------------------------------------------------- R15.9
def r15_9(prog: Program, chk: Check) -> None:
    import multiprocessing as mp
    import os as _os

    from .c06 import _generic_chunk

    chk.rule(
        "R15.9",
        "the joint solve of a call as a finite model (the generic call model of C06 R06.f restricted to parameters that are type variables): Signature.check_call_with_bound_args, "
        "_check_param_type_compatibility, TypeVarValue.can_assign / make_bounds_map / get_inherent_bounds, unify_bounds_maps, resolve_bounds_map and solve are interpreted as one "
        "stack over real runtime objects; a call whose arguments admit no common type for a type variable (constrained to (int, str), bound to int) is diagnosed whether or not the "
        "return type mentions the variable, and a call that has a solution is not",
        floor=4,
    )
    selftest = bool(_os.environ.get("VERIF_SELFTEST"))
    procs = 2 if selftest else min(8, _os.cpu_count() or 1)
    with mp.get_context("fork").Pool(procs) as pl:
        results = pl.map(_generic_chunk, [(i, procs, 2, True) for i in range(procs)])
    total = 0
    merged: Dict[str, Dict[str, object]] = {}
    unsupported = []
    for n, classes, uns in results:
        total += n
        unsupported += uns
        for k, c in classes.items():
            m = merged.setdefault(k, {"n": 0, "bad": 0, "witness": []})
            m["n"] += c["n"]  # type: ignore[operator]
            m["bad"] += c["bad"]  # type: ignore[operator]
            m["witness"] = sorted(list(m["witness"]) + list(c["witness"]), key=lambda x: (len(x["signature"]) + len(x["call"]), repr(x)))[:4]  # type: ignore[arg-type]
    chk.model_evaluations += total
    chk.analysed["joint_solve_model"] = {"calls": total, "not_modelled": len(unsupported)}
    site = prog.site("signature", prog.func("signature", "Signature.check_call_with_bound_args"))
    for k, c in sorted(merged.items()):
        wit = c["witness"]
        chk.ob("R15.9", f"signature::joint-solve-model::{k}", int(c["bad"]) == 0, site,  # type: ignore[arg-type]
               f"{c['n']} calls, {c['bad']} failing" + (f"; smallest: {wit[0]}" if wit else ""), witness=wit)  # type: ignore[index]
    if unsupported:
        raise AnchorError(f"{len(unsupported)} generic calls cannot be modelled; first: {unsupported[0]}")


def run(prog: Program, chk: Check) -> None:
    guard(chk, r15_1, prog, chk)
    guard(chk, r15_2, prog, chk)
    guard(chk, r15_4, prog, chk)
    guard(chk, r15_5, prog, chk)
    guard(chk, r15_7, prog, chk)
    guard(chk, r15_8, prog, chk)
    guard(chk, r15_9, prog, chk)