"""Finite model of structural assignability (C03, C04, C06): on top of the nominal model
(assign_model) the container values - GenericValue, SequenceValue, DictIncompleteValue - and
their can_assign methods, replace_known_sequence_value and TypedValue.get_generic_args_for_type
are interpreted from their AST; the payloads are real lists / tuples / sets / dicts.  The
generic bases of the builtin containers (what typeshed says: list[T] is a Sequence[T], a
dict[K, V] is a Mapping[K, V] and an Iterable[K], ...) are a table of the model.  The
reference is structural membership of a runtime object in a type specification."""

from __future__ import annotations

import ast
import collections.abc
from typing import Any, Dict, Iterator, List, Optional, Sequence, Tuple

from ..minterp import AssertionFailed, Interp, ModelError, Obj, Opaque, PyRaise, Sym, Unsupported
from ..model import AnchorError, Program
from . import assign_model as amod
from .assign_model import V

CA = collections.abc

# what typeshed declares: class -> generic bases, each with the positions of the class's own
# type parameters it passes on (list[T] -> Sequence[T]; dict[K, V] -> Iterable[K])
GENERIC_BASES: Dict[type, Dict[type, Tuple[int, ...]]] = {
    list: {list: (0,), CA.MutableSequence: (0,), CA.Sequence: (0,), CA.Reversible: (0,), CA.Collection: (0,), CA.Iterable: (0,), CA.Container: (0,)},
    tuple: {tuple: (0,), CA.Sequence: (0,), CA.Reversible: (0,), CA.Collection: (0,), CA.Iterable: (0,), CA.Container: (0,)},
    set: {set: (0,), CA.MutableSet: (0,), CA.Set: (0,), CA.Collection: (0,), CA.Iterable: (0,), CA.Container: (0,)},
    frozenset: {frozenset: (0,), CA.Set: (0,), CA.Collection: (0,), CA.Iterable: (0,), CA.Container: (0,)},
    dict: {dict: (0, 1), CA.MutableMapping: (0, 1), CA.Mapping: (0, 1), CA.Collection: (0,), CA.Iterable: (0,), CA.Container: (0,)},
    str: {str: (), CA.Sequence: ("str",), CA.Reversible: ("str",), CA.Collection: ("str",), CA.Iterable: ("str",), CA.Container: ("str",)},  # type: ignore[dict-item]
    CA.Sequence: {CA.Sequence: (0,), CA.Reversible: (0,), CA.Collection: (0,), CA.Iterable: (0,), CA.Container: (0,)},
    CA.Iterable: {CA.Iterable: (0,)},
    CA.Mapping: {CA.Mapping: (0, 1), CA.Collection: (0,), CA.Iterable: (0,), CA.Container: (0,)},
}


def _key(v: Any) -> Any:
    if isinstance(v, V):
        return v.key()
    if isinstance(v, (list, tuple)):
        return tuple(_key(x) for x in v)
    return ("py", type(v).__name__, repr(v))


def _ckey(self: V) -> Any:
    k, a = self._kind, self._attrs
    if k == "GenericValue":
        return ("G", getattr(a["typ"], "__qualname__", repr(a["typ"])), tuple(x.key() for x in a["args"]))
    if k == "SequenceValue":
        return ("Q", a["typ"].__qualname__, tuple((bool(m), x.key()) for m, x in a["members"]))
    if k == "DictIncompleteValue":
        return ("D", a["typ"].__qualname__, tuple((p._attrs["key"].key(), p._attrs["value"].key()) for p in a["kv_pairs"]))
    if k == "TypedDictValue":
        ek = a["extra_keys"]
        return (
            "TD", tuple((n, e._attrs["typ"].key(), e._attrs["required"], e._attrs["readonly"]) for n, e in a["items"].items()),
            None if ek is None else ek.key(), a["extra_keys_readonly"],
        )
    return None


_orig_key = V.key


def _patched_key(self: V) -> Any:
    r = _ckey(self)
    if r is not None:
        return r
    if self._kind == "KnownValue":
        val = self._attrs["val"]
        return ("K", type(val).__name__, repr(val))
    return _orig_key(self)


V.key = _patched_key  # type: ignore[method-assign]


def show(v: Any) -> str:
    if not isinstance(v, V):
        return repr(v)
    k, a = v._kind, v._attrs
    if k == "GenericValue":
        return f"{getattr(a['typ'], '__name__', a['typ'])}[{', '.join(show(x) for x in a['args'])}]"
    if k == "SequenceValue":
        return f"{a['typ'].__name__}<{', '.join(('*' if m else '') + show(x) for m, x in a['members'])}>"
    if k == "DictIncompleteValue":
        return "{" + ", ".join(f"{show(p._attrs['key'])}: {show(p._attrs['value'])}" for p in a["kv_pairs"]) + "}"
    if k == "AnyValue":
        return "Any"
    if k == "TypedDictValue":
        return spec_str(a["spec"])
    return amod.show(v)


class ContainerModel(amod.AssignModel):
    KINDS = ("GenericValue", "SequenceValue", "DictIncompleteValue", "TypedDictValue")

    def __init__(self, prog: Program) -> None:
        super().__init__(prog)
        for cname in self.KINDS:
            ci = prog.cls(cname)
            for name, fn in ci.methods.items():
                self.fn_class[id(fn)] = cname
                if name.startswith("_") and not name.startswith("__"):
                    self.method_defs.setdefault((cname, name), fn)  # private helpers of can_assign
            found = prog.find_method(cname, "can_assign")
            if found is None:
                raise AnchorError(f"{cname}.can_assign not found")
            self.method_defs[(cname, "can_assign")] = found[1]
            self.fn_class[id(found[1])] = found[0].name
            f2 = prog.find_method(cname, "is_assignable")
            if f2 is not None:
                self.method_defs[(cname, "is_assignable")] = f2[1]
            g = prog.find_method(cname, "get_generic_args_for_type")
            if g is None:
                raise AnchorError(f"{cname}.get_generic_args_for_type not found")
            self.method_defs[(cname, "get_generic_args_for_type")] = g[1]
        g = prog.find_method("TypedValue", "get_generic_args_for_type")
        self.method_defs[("TypedValue", "get_generic_args_for_type")] = g[1]  # type: ignore[index]
        self.method_defs[("KnownValue", "get_generic_args_for_type")] = g[1]  # type: ignore[index]
        self.module_defs = dict(self.module_defs, replace_known_sequence_value=prog.func("value", "replace_known_sequence_value"))

    # -------------------------------------------------------------- values
    def generic(self, typ: Any, args: Sequence[V]) -> V:
        return V("GenericValue", typ=typ, args=tuple(args), literal_only=False)

    def unite(self, vals: Sequence[V]) -> V:
        flat: List[V] = []
        for v in vals:
            for x in (v._attrs["vals"] if v._kind == "MultiValuedValue" else [v]):
                if not any(x == y for y in flat):
                    flat.append(x)
        if len(flat) == 1:
            return flat[0]
        return V("MultiValuedValue", vals=tuple(flat), _known_subvals=None)

    def sequence(self, typ: type, members: Sequence[Tuple[bool, V]]) -> V:
        members = tuple((bool(m), x) for m, x in members)
        arg = self.unite([x for _, x in members]) if members else V("AnyValue", source=Sym("AnySource.unreachable"))
        return V("SequenceValue", typ=typ, args=(arg,), members=members, literal_only=False)

    def dict_incomplete(self, typ: type, pairs: Sequence[Obj]) -> V:
        pairs = tuple(pairs)
        if pairs:
            k = self.unite([p._attrs["key"] for p in pairs])
            v = self.unite([p._attrs["value"] for p in pairs])
        else:
            k = v = V("AnyValue", source=Sym("AnySource.unreachable"))
        return V("DictIncompleteValue", typ=typ, args=(k, v), kv_pairs=pairs, literal_only=False)

    # ----------------------------------------------------------- interpreter
    def _interp(self, ctx: Obj) -> Interp:
        it = super()._interp(ctx)
        base_hook = it.isinstance_hook
        hierarchy = {"SequenceValue": ("GenericValue", "TypedValue"), "DictIncompleteValue": ("GenericValue", "TypedValue"), "GenericValue": ("TypedValue",), "TypedDictValue": ("GenericValue", "TypedValue")}

        def isinstance_hook(v: Any, cls: str) -> Optional[bool]:
            if isinstance(v, Obj) and v._kind in hierarchy and cls in ("TypedValue", "GenericValue", "SequenceValue", "DictIncompleteValue", "TypedDictValue"):
                return v._kind == cls or cls in hierarchy[v._kind]
            if cls in ("DictIncompleteValue", "TypedDictValue", "NewTypeValue", "CallableValue", "TypedDictEntry"):
                return isinstance(v, Obj) and v._kind == cls
            return base_hook(v, cls)

        it.isinstance_hook = isinstance_hook

        def kw(f):
            f.wants_kwargs = True
            return f

        it.funcs.update({
            "SequenceValue": lambda args: self._attach(self.sequence(args[0], args[1]), it),
            "DictIncompleteValue": lambda args: self._attach(self.dict_incomplete(args[0], args[1]), it),
            "GenericValue": lambda args: self._attach(self.generic(args[0], args[1]), it),
            "KVPair": lambda args: Obj("KVPair", key=args[0], value=args[1]),
            "KnownValue": lambda args: self._attach(self.known(args[0]), it),
            "TypedValue": lambda args: self._attach(self.typed(args[0]), it),
            "AnyValue": lambda args: V("AnyValue", source=args[0]),
            "stringify_object": lambda args: str(getattr(args[0], "__name__", args[0])),
            "unite_values": kw(lambda args, kwargs=None: self._attach(self.unite(args), it)),
        })

        def get_generic_bases(typ: Any, args: Any = ()) -> Dict[Any, Dict[Any, Any]]:
            table = GENERIC_BASES.get(typ)
            if table is None:
                return {typ: {}}
            out: Dict[Any, Dict[Any, Any]] = {}
            for base, positions in table.items():
                d: Dict[Any, Any] = {}
                for j, p in enumerate(positions):
                    if p == "str":
                        d[j] = self._attach(self.typed(str), it)
                    elif p < len(args):
                        d[j] = args[p]
                    else:
                        d[j] = V("AnyValue", source=Sym("AnySource.generic_argument"))
                out[base] = d
            return out

        ctx._attrs["get_generic_bases"] = get_generic_bases
        it.globals["collections"] = __import__("collections")
        return it

    def _attach(self, v: V, it: Interp) -> V:
        k = v._kind
        if k in ("TypedValue", "GenericValue", "SequenceValue", "DictIncompleteValue", "TypedDictValue"):
            v._attrs["get_type_object"] = lambda c=None, v=v: self.type_object(v._attrs["typ"], it)
            v._attrs["_type_object"] = None
        elif k == "KnownValue":
            v._attrs["get_type_object"] = lambda c=None, v=v: self.type_object(type(v._attrs["val"]), it)
        if k == "MultiValuedValue":
            for x in v._attrs["vals"]:
                self._attach(x, it)
        if k == "TypedDictValue":
            for e in v._attrs["items"].values():
                self._attach(e._attrs["typ"], it)
            if v._attrs["extra_keys"] is not None:
                self._attach(v._attrs["extra_keys"], it)
        if k in ("GenericValue", "SequenceValue", "DictIncompleteValue", "TypedDictValue"):
            for x in v._attrs["args"]:
                self._attach(x, it)
            v._attrs["get_arg"] = lambda i, v=v: v._attrs["args"][i]
            v._attrs["maybe_specify_error"] = lambda i, other, error, ctx=None: error
        if k == "SequenceValue":
            for _, x in v._attrs["members"]:
                self._attach(x, it)
        if k == "DictIncompleteValue":
            for p in v._attrs["kv_pairs"]:
                self._attach(p._attrs["key"], it)
                self._attach(p._attrs["value"], it)
        return v

    def can_assign(self, left: V, right: V, exclude_any: bool = False) -> Any:
        used_any: List[bool] = []
        ctx = Obj("ctx", should_exclude_any=lambda: exclude_any, record_any_used=lambda: used_any.append(True))
        it = self._interp(ctx)
        ctx._attrs["make_type_object"] = lambda typ: self.type_object(typ, it)
        self._attach(left, it)
        self._attach(right, it)
        fn = self.method_defs[(left._kind, "can_assign")]
        self.last_used_any = False
        try:
            res = it.call_def(fn, [left, right, ctx], fn)
        except Unsupported as u:
            raise AnchorError(f"can_assign cannot be modelled: {u}")
        except AssertionFailed as af:
            return ("crash", f"assertion {af}")
        except (PyRaise, ModelError) as e:
            return ("crash", str(e))
        self.last_used_any = bool(used_any)  # whether the checker was told that the acceptance rests on Any
        return not (isinstance(res, Obj) and res._kind == "CanAssignError")

    # ------------------------------------------------------ type specifications
    def value_of(self, spec: Any) -> V:
        tag = spec[0]
        if tag == "cls":
            return self.typed(spec[1])
        if tag == "lit":
            return self.known(spec[1])
        if tag == "any":
            return self.any()
        if tag == "union":
            u = self.unite([self.value_of(s) for s in spec[1]])
            if u._kind == "MultiValuedValue" and len(u._attrs["vals"]) >= 10:
                u = self.with_known_subvals(u)  # what MultiValuedValue.__post_init__ does for large unions
            return u
        if tag in ("list", "set", "frozenset", "seq", "iter"):
            typ = {"list": list, "set": set, "frozenset": frozenset, "seq": CA.Sequence, "iter": CA.Iterable}[tag]
            return self.generic(typ, [self.value_of(spec[1])])
        if tag == "tuple*":
            return self.generic(tuple, [self.value_of(spec[1])])
        if tag == "tuple":
            return self.sequence(tuple, [(False, self.value_of(s)) for s in spec[1]])
        if tag == "tupv":  # tuple[*prefix, *tuple[many, ...], *suffix]
            return self.sequence(tuple, [(False, self.value_of(s)) for s in spec[1]] + [(True, self.value_of(spec[2]))] + [(False, self.value_of(s)) for s in spec[3]])
        if tag in ("dict", "map"):
            return self.generic(dict if tag == "dict" else CA.Mapping, [self.value_of(spec[1]), self.value_of(spec[2])])
        if tag == "td":
            items = {n: Obj("TypedDictEntry", typ=self.value_of(t), required=req, readonly=ro) for n, t, req, ro in spec[1]}
            extra = None if spec[2] == "open" else self.never if spec[2] == "closed" else self.value_of(spec[2])
            value_types = [e._attrs["typ"] for e in items.values()] + ([extra] if extra is not None else [])
            vt = self.unite(value_types) if value_types else V("AnyValue", source=Sym("AnySource.unreachable"))
            return V("TypedDictValue", typ=dict, args=(self.typed(str), vt), items=items, extra_keys=extra, extra_keys_readonly=bool(spec[3]), literal_only=False, spec=spec)
        raise AnchorError(f"container model: unknown type specification {spec!r}")


def member(o: Any, spec: Any) -> bool:
    tag = spec[0]
    if tag == "any":
        return True
    if tag == "cls":
        t = spec[1]
        return isinstance(o, (t,) + amod.PROMOTION.get(t, ()))
    if tag == "lit":
        return amod.same(o, spec[1])
    if tag == "union":
        return any(member(o, s) for s in spec[1])
    if tag in ("list", "set", "frozenset"):
        return type(o) is {"list": list, "set": set, "frozenset": frozenset}[tag] and all(member(x, spec[1]) for x in o)
    if tag == "seq":
        return isinstance(o, CA.Sequence) and all(member(x, spec[1]) for x in o)
    if tag == "iter":
        return isinstance(o, CA.Iterable) and all(member(x, spec[1]) for x in o)
    if tag == "tuple*":
        return isinstance(o, tuple) and all(member(x, spec[1]) for x in o)
    if tag == "tuple":
        return isinstance(o, tuple) and len(o) == len(spec[1]) and all(member(x, s) for x, s in zip(o, spec[1]))
    if tag == "tupv":
        pre, many, suf = spec[1], spec[2], spec[3]
        if not isinstance(o, tuple) or len(o) < len(pre) + len(suf):
            return False
        mid = o[len(pre):len(o) - len(suf)]
        tail = o[len(o) - len(suf):] if suf else ()
        return all(member(x, s) for x, s in zip(o, pre)) and all(member(x, many) for x in mid) and all(member(x, s) for x, s in zip(tail, suf))
    if tag == "dict":
        return isinstance(o, dict) and all(member(k, spec[1]) and member(v, spec[2]) for k, v in o.items())
    if tag == "map":
        return isinstance(o, CA.Mapping) and all(member(k, spec[1]) and member(v, spec[2]) for k, v in o.items())
    if tag == "td":
        if not isinstance(o, dict) or not all(isinstance(k, str) for k in o):
            return False
        declared = {n: (t, req) for n, t, req, _ in spec[1]}
        for n, (t, req) in declared.items():
            if n in o:
                if not member(o[n], t):
                    return False
            elif req:
                return False
        for k, val in o.items():
            if k not in declared:
                if spec[2] == "closed":
                    return False
                if spec[2] != "open" and not member(val, spec[2]):
                    return False
        return True
    raise AnchorError(f"container model: unknown type specification {spec!r}")


def spec_str(spec: Any) -> str:
    tag = spec[0]
    if tag == "cls":
        return spec[1].__name__
    if tag == "lit":
        return f"Literal[{spec[1]!r}]"
    if tag == "any":
        return "Any"
    if tag == "union":
        return " | ".join(spec_str(s) for s in spec[1])
    if tag == "tuple*":
        return f"tuple[{spec_str(spec[1])}, ...]"
    if tag == "tuple":
        return "tuple[" + (", ".join(spec_str(s) for s in spec[1]) or "()") + "]"
    if tag == "tupv":
        return "tuple[" + ", ".join([spec_str(s) for s in spec[1]] + [f"*tuple[{spec_str(spec[2])}, ...]"] + [spec_str(s) for s in spec[3]]) + "]"
    if tag in ("dict", "map"):
        return f"{'dict' if tag == 'dict' else 'Mapping'}[{spec_str(spec[1])}, {spec_str(spec[2])}]"
    if tag == "td":
        def ent(n, t, req, ro):
            x = spec_str(t)
            if ro:
                x = f"ReadOnly[{x}]"
            if not req:
                x = f"NotRequired[{x}]"
            return f"{n!r}: {x}"

        extra = "" if spec[2] == "open" else ", closed" if spec[2] == "closed" else f", extra_items={'ReadOnly[' if spec[3] else ''}{spec_str(spec[2])}{']' if spec[3] else ''}"
        return "TypedDict({" + ", ".join(ent(*e) for e in spec[1]) + "}" + extra + ")"
    return {"list": "list", "set": "set", "frozenset": "frozenset", "seq": "Sequence", "iter": "Iterable"}[tag] + f"[{spec_str(spec[1])}]"


SCALARS = (("cls", int), ("cls", str), ("cls", float), ("cls", object), ("union", (("cls", int), ("cls", str))), ("lit", 1), ("cls", bool))
OBJECTS: Tuple[Any, ...] = (
    1, True, "a", 1.5, None,
    [], [1], ["a"], [1, "a"], [1, True], [1.5],
    (), (1,), ("a",), (1, "a"), ("a", 1), (1, 2), (1, 2, 3),
    set(), {1}, {"a"}, frozenset(), frozenset({1}),
    {}, {"k": 1}, {"k": "v"}, {1: "a"}, {"k": 1, "j": "v"},
    [[1], ["a"]], [[1]], [[]], [(1, "a")], [(1, "a"), ("b", 2)], {"k": [1], "j": ["x"]}, {"k": [1]}, ([1],), (1, (2, "a")), ((), ()),
)


def type_specs() -> Iterator[Any]:
    for e in SCALARS:
        yield e
        for tag in ("list", "set", "frozenset", "seq", "iter", "tuple*"):
            yield (tag, e)
        yield ("tuple", (e,))
    yield ("tuple", ())
    for a in SCALARS[:4]:
        for b in SCALARS[:3]:
            yield ("tuple", (a, b))
            yield ("dict", a, b)
            yield ("map", a, b)
    yield ("tuple", (("cls", int), ("cls", int), ("cls", int)))
    nested = [
        ("list", ("list", ("cls", int))), ("list", ("list", ("cls", object))), ("list", ("tuple", (("cls", int), ("cls", str)))), ("list", ("tuple*", ("cls", int))),
        ("dict", ("cls", str), ("list", ("cls", int))), ("map", ("cls", str), ("seq", ("cls", int))), ("tuple", (("list", ("cls", int)),)),
        ("tuple", (("cls", int), ("tuple", (("cls", int), ("cls", str))))), ("seq", ("seq", ("cls", int))), ("iter", ("iter", ("cls", object))),
        ("union", (("list", ("cls", int)), ("cls", type(None)))), ("list", ("union", (("cls", int), ("cls", type(None))))), ("tuple*", ("tuple", ())), ("list", ("tuple", ())),
        ("tuple", (("tuple", ()), ("tuple", ()))), ("seq", ("cls", str)), ("iter", ("cls", str)),
        # unions of ten or more members take the known-literal fast path of MultiValuedValue.can_assign
        ("union", tuple(("lit", i) for i in range(9)) + (("lit", "a"), ("cls", str))),
        ("union", tuple(("lit", i) for i in range(10)) + (("list", ("cls", int)),)),
    ]
    yield from nested
    yield from variadic_specs()


def variadic_specs() -> Iterator[Any]:
    """Tuples with one unpacked member: tuple[int, *tuple[str, ...]] and friends."""
    INT, STR, OBJ = ("cls", int), ("cls", str), ("cls", object)
    for pre, many, suf in (
        ((INT,), STR, ()), ((INT,), INT, ()), ((), STR, (INT,)), ((), INT, (INT,)), ((INT,), STR, (INT,)), ((INT,), INT, (INT,)),
        ((INT, STR), INT, ()), ((), INT, ()), ((OBJ,), OBJ, ()), ((INT,), OBJ, (STR,)),
    ):
        yield ("tupv", pre, many, suf)


# ------------------------------------------------------------------ TypedDicts
TD_OBJECTS: Tuple[Any, ...] = tuple(
    [{}]
    + [{k: v} for k in ("a", "b", "c") for v in (1, "x")]
    + [{k1: v1, k2: v2} for k1, k2 in (("a", "b"), ("a", "c"), ("b", "c")) for v1 in (1, "x") for v2 in (1, "x")]
    + [{1: "x"}, {"a": 1, "b": 1, "c": "x"}]
    + [{"a": None}, {"a": 1, "b": None}, {"a": None, "b": 1}]  # a key that is present with the value None is present
)


def typeddict_specs(wide: bool = False) -> Iterator[Any]:
    INT, STR = ("cls", int), ("cls", str)
    OPT = ("union", (INT, ("cls", type(None))))
    a_opts: List[Any] = [None] + [("a", t, req, ro) for t in (INT, STR) for req in (True, False) for ro in (False, True)] + [("a", OPT, True, False), ("a", OPT, False, False)]
    b_opts: List[Any] = [None, ("b", INT, True, False), ("b", INT, False, False), ("b", INT, False, True)] + ([("b", STR, True, True)] if wide else [])
    extras = [("open", False), ("closed", False), (INT, False), (INT, True), (STR, True)]
    for a in a_opts:
        for b in b_opts:
            for ex, ro in extras:
                yield ("td", tuple(x for x in (a, b) if x is not None), ex, ro)
