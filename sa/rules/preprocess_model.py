"""Finite model of the whole argument pipeline (C05): preprocess_args (with
_preprocess_kwargs_no_mvv, _preprocess_kwargs_kv_pairs and replace_known_sequence_value) followed
by Signature.bind_arguments, interpreted from their AST on calls written with positional
arguments, keyword arguments, *tuple-literals and **dict-literals.  The reference is CPython
itself: a function with the same parameter list is defined and the same call expression is
evaluated; a TypeError at bind time is what the checker has to diagnose."""

from __future__ import annotations

import ast
import itertools
from typing import Any, Dict, Iterator, List, Optional, Sequence, Tuple

from ..minterp import AssertionFailed, Interp, ModelError, Obj, Opaque, PyRaise, Sym, Unsupported
from ..model import AnchorError, Program
from .binder_model import KO, PO, POK, VK, VP, Param

# a call is a list of items: ("pos", obj) | ("kw", name, obj) | ("star", tuple) | ("dstar", dict)
Item = Tuple[Any, ...]


class _S(Obj):
    """Model value / Composite with the equality of the real dataclasses (Composite ignores its node)."""

    def key(self) -> Any:
        a = self._attrs
        if self._kind == "KnownValue":
            v = a["val"]
            return ("K", type(v).__name__, repr(v))
        if self._kind == "Composite":
            return ("C", a["value"].key() if isinstance(a["value"], _S) else id(a["value"]), repr(a["varname"]))
        if self._kind == "SequenceValue":
            return ("Q", a["typ"].__name__, tuple((m, x.key()) for m, x in a["members"]))
        if self._kind == "DictIncompleteValue":
            return ("D", tuple((p._attrs["key"].key(), p._attrs["value"].key()) for p in a["kv_pairs"]))
        if self._kind == "GenericValue":
            return ("G", getattr(a["typ"], "__name__", repr(a["typ"])), tuple(x.key() if isinstance(x, _S) else repr(x) for x in a["args"]))
        if self._kind == "TypedValue":
            return ("T", a["typ"].__name__)
        if self._kind == "MultiValuedValue":
            return ("U", tuple(sorted(repr(x.key()) for x in a["vals"])))
        return (self._kind, id(self))

    def __eq__(self, other: object) -> bool:
        return isinstance(other, _S) and self.key() == other.key()

    def __ne__(self, other: object) -> bool:
        return not self.__eq__(other)

    def __hash__(self) -> int:
        return hash(self.key())


class PreprocessModel:
    def __init__(self, prog: Program) -> None:
        self.prog = prog
        self.bind = prog.func("signature", "Signature.bind_arguments")
        self.module_defs = {
            "preprocess_args": prog.func("signature", "preprocess_args"),
            "_preprocess_kwargs_no_mvv": prog.func("signature", "_preprocess_kwargs_no_mvv"),
            "_preprocess_kwargs_kv_pairs": prog.func("signature", "_preprocess_kwargs_kv_pairs"),
            "replace_known_sequence_value": prog.func("value", "replace_known_sequence_value"),
        }

    def run(self, sig: Sequence[Param], call: Sequence[Item]) -> Tuple[str, List[str]]:
        """-> ("accept" | "reject", messages) or ("crash", [why])"""
        errors: List[str] = []

        def known(o: Any) -> _S:
            return _S("KnownValue", val=o)

        def unite(args: List[Any], kwargs: Any = None) -> Any:
            flat: List[Any] = []
            for a in args:
                for x in (a._attrs["vals"] if isinstance(a, _S) and a._kind == "MultiValuedValue" else [a]):
                    if not any(x == y for y in flat):
                        flat.append(x)
            return flat[0] if len(flat) == 1 else _S("MultiValuedValue", vals=tuple(flat))

        unite.wants_kwargs = True  # type: ignore[attr-defined]

        def composite(args: List[Any], kwargs: Any = None) -> Any:
            d = dict(zip(("value", "varname", "node"), args))
            d.update(kwargs or {})
            return _S("Composite", value=d["value"], varname=d.get("varname"), node=d.get("node"))

        composite.wants_kwargs = True  # type: ignore[attr-defined]

        def kvpair(args: List[Any], kwargs: Any = None) -> Any:
            d = dict(zip(("key", "value", "is_many", "is_required"), args))
            d.update(kwargs or {})
            d.setdefault("is_many", False)
            d.setdefault("is_required", True)
            return Obj("KVPair", **d)

        kvpair.wants_kwargs = True  # type: ignore[attr-defined]

        def concrete_values(args: List[Any]) -> Any:
            v = args[0]
            if isinstance(v, _S) and v._kind == "KnownValue" and isinstance(v._attrs["val"], (tuple, list)):
                return [known(x) for x in v._attrs["val"]]
            if isinstance(v, _S) and v._kind == "GenericValue" and v._attrs["typ"] is list:
                return v._attrs["args"][0]  # a list of unknown length: the type of its elements
            raise AnchorError("preprocess model: *argument that is not a tuple / list literal")

        def actual_arguments(args: List[Any], kwargs: Any = None) -> Any:
            d = dict(zip(("positionals", "star_args", "keywords", "star_kwargs"), args))
            d.update(kwargs or {})
            for k, dv in (("kwargs_required", False), ("ellipsis", False), ("pos_or_keyword_params", frozenset()), ("param_spec", None), ("min_star_args", 0)):
                d.setdefault(k, dv)
            return Obj("ActualArguments", **d)

        actual_arguments.wants_kwargs = True  # type: ignore[attr-defined]

        def on_error(*a: Any, **k: Any) -> None:
            m = a[0] if a else None
            errors.append(m.label[4:] if isinstance(m, Opaque) and m.label.startswith("str:") else str(m))

        def isinstance_hook(v: Any, cls: str) -> Optional[bool]:
            if cls in ("KnownValue", "SequenceValue", "DictIncompleteValue", "TypedDictValue", "AnnotatedValue", "TypeVarValue", "ParamSpecArgsValue", "ParamSpecKwargsValue", "MultiValuedValue", "CanAssignError", "PossibleArg", "PosOrKeyword"):
                return isinstance(v, Obj) and v._kind == cls
            if cls in ("GenericValue", "TypedValue"):
                return isinstance(v, Obj) and v._kind in ("GenericValue", "SequenceValue", "DictIncompleteValue") or (cls == "TypedValue" and isinstance(v, Obj) and v._kind == "TypedValue")
            if cls == "Value":
                return isinstance(v, _S) and v._kind != "Composite"
            if cls == "str":
                return isinstance(v, str)
            return None

        def typed(typ: Any) -> Any:
            """TypedValue(typ) with the nominal can_assign the pipeline needs for `TypedValue(str).can_assign(key)`."""
            def can_assign(other: Any, ctx_: Any = None) -> Any:
                k = other._kind if isinstance(other, _S) else None
                if k == "AnyValue":
                    return {}
                if k == "KnownValue" and isinstance(other._attrs["val"], typ):
                    return {}
                if k == "TypedValue" and isinstance(other._attrs["typ"], type) and issubclass(other._attrs["typ"], typ):
                    return {}
                if k == "MultiValuedValue" and all(not (isinstance(r, Obj) and r._kind == "CanAssignError") for r in [can_assign(x) for x in other._attrs["vals"]]):
                    return {}
                return Obj("CanAssignError", message=f"cannot assign to {typ.__name__}")

            return _S("TypedValue", typ=typ, can_assign=can_assign)

        funcs = {
            "Composite": composite, "KVPair": kvpair, "ActualArguments": actual_arguments, "unite_values": unite,
            "KnownValue": lambda a: known(a[0]),
            "TypedValue": lambda a: typed(a[0]),
            "GenericValue": lambda a: _S("GenericValue", typ=a[0], args=tuple(a[1])),
            "SequenceValue": lambda a: _S("SequenceValue", typ=a[0], members=tuple((bool(m), x) for m, x in a[1]), args=()),
            "DictIncompleteValue": lambda a: _S("DictIncompleteValue", typ=a[0], kv_pairs=tuple(a[1]), args=()),
            "PossibleArg": lambda a: Obj("PossibleArg", name=a[0]),
            "concrete_values_from_iterable": concrete_values,
            "flatten_values": (lambda a, kw=None: list(a[0]._attrs["vals"]) if isinstance(a[0], _S) and a[0]._kind == "MultiValuedValue" else [a[0]]),
            "AnyValue": lambda a: _S("AnyValue", source=a[0] if a else None),
        }
        funcs["flatten_values"].wants_kwargs = True  # type: ignore[attr-defined]
        K_, V_ = Sym("K"), Sym("V")

        def get_tv_map(a: List[Any]) -> Any:
            """get_tv_map(MappingValue, value, ctx) for the values this model builds: the key and value types of a dict."""
            v = a[1]
            if isinstance(v, _S) and v._kind == "DictIncompleteValue":
                pairs = v._attrs["kv_pairs"]
                if not pairs:
                    return {K_: _S("AnyValue", source=Sym("AnySource.unreachable")), V_: _S("AnyValue", source=Sym("AnySource.unreachable"))}
                return {K_: unite([p._attrs["key"] for p in pairs]), V_: unite([p._attrs["value"] for p in pairs])}
            if isinstance(v, _S) and v._kind == "KnownValue" and isinstance(v._attrs["val"], dict):
                d = v._attrs["val"]
                if not d:
                    return {K_: _S("AnyValue", source=Sym("AnySource.unreachable")), V_: _S("AnyValue", source=Sym("AnySource.unreachable"))}
                return {K_: unite([known(k) for k in d]), V_: unite([known(x) for x in d.values()])}
            return Obj("CanAssignError", message="not a mapping")

        funcs["get_tv_map"] = get_tv_map
        syms = ("ARGS", "KWARGS", "ELLIPSIS", "DEFAULT", "UNKNOWN")
        globals_ = {"NO_RETURN_VALUE": _S("MultiValuedValue", vals=()), "K": K_, "V": V_, "MappingValue": Sym("MappingValue")}
        ctx = Obj("CheckCallContext", on_error=on_error, can_assign_ctx=Opaque("ctx"), visitor=None, node=None)
        it = Interp({}, {}, syms, funcs, isinstance_hook, {}, self.module_defs, globals_)
        args: List[Tuple[Any, Any]] = []
        for item in call:
            if item[0] == "pos":
                args.append((composite([known(item[1])]), None))
            elif item[0] == "kw":
                args.append((composite([known(item[2])]), item[1]))
            elif item[0] == "star":
                args.append((composite([known(tuple(item[1]))]), Sym("ARGS")))
            elif item[0] == "dstar":
                args.append((composite([known(dict(item[1]))]), Sym("KWARGS")))
            elif item[0] == "ustar":
                args.append((composite([_S("GenericValue", typ=list, args=(typed(int),))]), Sym("ARGS")))
            else:
                raise AnchorError(f"preprocess model: unknown call item {item!r}")
        fn = self.module_defs["preprocess_args"]
        try:
            actual = it.call_def(fn, [args, ctx], fn)
        except Unsupported as u:
            raise AnchorError(f"preprocess_args cannot be modelled: {u}")
        except AssertionFailed as af:
            return "crash", [f"assertion {af}"]
        except (PyRaise, ModelError) as e:
            return "crash", [str(e)]
        if actual is None:
            return "reject", errors
        if not (isinstance(actual, Obj) and actual._kind == "ActualArguments"):
            raise AnchorError(f"preprocess_args returned {actual!r} in the model")
        # ------------------------------------------------------------- bind_arguments
        params: Dict[str, Obj] = {}
        for i, (kind, d) in enumerate(sig):
            name = f"p{i}"
            params[name] = Obj("SigParameter", name=name, kind=Sym(f"ParameterKind.{kind}"), default=Opaque(f"default:{name}") if d else None, annotation=Opaque(f"ann:{name}"), is_unnamed=lambda: False)
        self_obj = Obj("Signature", parameters=params, callable=None)

        def show_call_error(recv: Any, a: List[Any]) -> None:
            m = a[0] if a else None
            errors.append((m.label[4:] if m.label.startswith("str:") else m.label) if isinstance(m, Opaque) else str(m))

        a3 = [x.arg for x in self.bind.args.args]
        env = {a3[0]: self_obj, a3[1]: actual, a3[2]: Opaque("ctx")}
        it2 = Interp(env, {"show_call_error": show_call_error}, syms + ("ELLIPSIS_COMPOSITE",), funcs, isinstance_hook, {}, {}, globals_)
        try:
            res = it2.run(self.bind)
        except Unsupported as u:
            raise AnchorError(f"bind_arguments cannot be modelled: {u}")
        except AssertionFailed as af:
            return "crash", [f"assertion {af}"]
        except (PyRaise, ModelError) as e:
            return "crash", [str(e)]
        if res is None:
            return "reject", errors
        return "accept", errors


# ------------------------------------------------------------------ reference: CPython itself
def def_source(sig: Sequence[Param]) -> str:
    out: List[str] = []
    seen_po = False
    star_done = False
    for i, (k, d) in enumerate(sig):
        nm = f"p{i}" + ("=0" if d else "")
        if k == PO:
            seen_po = True
            out.append(nm)
            continue
        if seen_po:
            out.append("/")
            seen_po = False
        if k == VP:
            out.append("*" + f"p{i}")
            star_done = True
        elif k == VK:
            out.append("**" + f"p{i}")
        elif k == KO:
            if not star_done:
                out.append("*")
                star_done = True
            out.append(nm)
        else:
            out.append(nm)
    if seen_po:
        out.append("/")
    return "def f(" + ", ".join(out) + "): pass"


def call_source(call: Sequence[Item]) -> str:
    parts = []
    for item in call:
        if item[0] == "pos":
            parts.append(repr(item[1]))
        elif item[0] == "kw":
            parts.append(f"{item[1]}={item[2]!r}")
        elif item[0] == "star":
            parts.append("*" + repr(tuple(item[1])))
        elif item[0] == "ustar":
            parts.append("*xs")
        else:
            parts.append("**" + repr(dict(item[1])))
    return "f(" + ", ".join(parts) + ")"


def expansion_outcomes(sig: Sequence[Param], call: Sequence[Item], max_len: int = 4) -> Optional[List[str]]:
    """A call with `*xs` items (xs: list[int] of unknown length): CPython's outcome for every
    assignment of a length 0..max_len to each of them, in lexicographic order of the lengths."""
    import itertools

    slots = [i for i, item in enumerate(call) if item[0] == "ustar"]
    out: List[str] = []
    for lens in itertools.product(range(max_len + 1), repeat=len(slots)):
        concrete = list(call)
        for i, n in zip(slots, lens):
            concrete[i] = ("star", (0,) * n)
        r = cpython_outcome(sig, concrete)
        if r is None:
            return None
        out.append(r if all(lens) or not slots else r + ":with-empty")
    return out


_FUNCS: Dict[str, Any] = {}


def cpython_outcome(sig: Sequence[Param], call: Sequence[Item]) -> Optional[str]:
    """"ok" | "TypeError" | None (the call expression is a SyntaxError: not a program)."""
    src = def_source(sig)
    f = _FUNCS.get(src)
    if f is None:
        ns: Dict[str, Any] = {}
        exec(src, ns)  # CPython's own function object: its binder is the reference
        f = _FUNCS[src] = ns["f"]
    try:
        code = compile(call_source(call), "<call>", "eval")
    except SyntaxError:
        return None
    try:
        eval(code, {"f": f})
    except TypeError:
        return "TypeError"
    return "ok"


def calls(names: Sequence[str]) -> Iterator[Tuple[Item, ...]]:
    kw_names = list(names) + ["x"]
    stars: List[Optional[Tuple[Any, ...]]] = [None, (), (1,), (1, 2)]
    dstars: List[Optional[Dict[str, Any]]] = [None, {}] + [{n: 1} for n in kw_names] + [{kw_names[0]: 1, "x": 1}]
    for npos in range(0, 3):
        for star in stars:
            for r in range(0, 3):
                for kws in itertools.combinations(kw_names, r):
                    for d in dstars:
                        for d2 in (None, {kw_names[0]: 1}, {"x": 1}) if d is not None else (None,):
                            items: List[Item] = [("pos", 1)] * npos
                            if star is not None:
                                items.append(("star", star))
                            items += [("kw", k, 1) for k in kws]
                            if d is not None:
                                items.append(("dstar", d))
                            if d2 is not None:
                                items.append(("dstar", d2))
                            yield tuple(items)
