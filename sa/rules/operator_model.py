"""Finite model of operator dispatch on known operands (C19): NameCheckVisitor.visit_UnaryOp,
visit_BinOp, _visit_binop_internal and _visit_binop_no_mvv are interpreted from their AST; the one
thing below them, _check_dunder_call on a known receiver, is given the contract the code documents
for it ("calling the real function on known arguments"): it performs type(x).<dunder>(x, *args) and
reports an error when the method is missing, returns NotImplemented or raises TypeError.  The
reference is CPython evaluating the same expression."""

from __future__ import annotations

import ast
import enum
import operator
from typing import Any, Dict, Iterator, List, Optional, Sequence, Tuple

from ..fold import CannotFold, Folder
from ..minterp import AssertionFailed, Interp, ModelError, Obj, Opaque, PyRaise, Sym, Unsupported
from ..model import AnchorError, Program


class Level(enum.IntEnum):
    LOW = 1
    HIGH = 2


class _KV(Obj):
    def key(self) -> Any:
        if self._kind == "KnownValue":
            v = self._attrs["val"]
            return ("K", type(v).__name__, repr(v))
        return (self._kind, id(self))

    def __eq__(self, other: object) -> bool:
        return isinstance(other, _KV) and self.key() == other.key()

    def __ne__(self, other: object) -> bool:
        return not self.__eq__(other)

    def __hash__(self) -> int:
        return hash(self.key())


OPERANDS: Tuple[Any, ...] = (1, 0, True, False, 2.5, 1j, "a", b"b", (1,), None, Level.LOW, -3)
BINOPS: Dict[str, Any] = {
    "+": ast.Add, "-": ast.Sub, "*": ast.Mult, "/": ast.Div, "%": ast.Mod, "**": ast.Pow, "<<": ast.LShift, ">>": ast.RShift, "|": ast.BitOr, "^": ast.BitXor, "&": ast.BitAnd,
    "//": ast.FloorDiv, "@": ast.MatMult,
}
UNOPS: Dict[str, Any] = {"+": ast.UAdd, "-": ast.USub, "~": ast.Invert}


class OperatorModel:
    METHODS = ("visit_UnaryOp", "visit_BinOp", "_visit_binop_internal", "_visit_binop_no_mvv")

    def __init__(self, prog: Program) -> None:
        ncv = prog.cls("NameCheckVisitor")
        self.method_defs: Dict[Tuple[str, str], ast.FunctionDef] = {}
        for m in self.METHODS:
            if m not in ncv.methods:
                raise AnchorError(f"NameCheckVisitor.{m} not found")
            self.method_defs[("NameCheckVisitor", m)] = ncv.methods[m]
        folder = Folder(prog, "name_check_visitor")
        try:
            b = folder.table("BINARY_OPERATION_TO_DESCRIPTION_AND_METHOD")
            u = folder.table("UNARY_OPERATION_TO_DESCRIPTION_AND_METHOD")
        except (CannotFold, AnchorError) as e:
            raise AnchorError(f"operator tables cannot be folded: {e}")
        self.btable = {getattr(ast, k.last): tuple(v) for k, v in b.items()}
        self.utable = {getattr(ast, k.last): tuple(v) for k, v in u.items()}

    def evaluate(self, node: ast.expr, env: Dict[int, Any]) -> Any:
        """-> (inferred KnownValue payload or ("type", ...) / None, [messages]) or ("crash", why).
        env maps id(operand node) to the operand object."""
        shown: List[str] = []
        stack: List[List[str]] = []

        def emit(msg: Any) -> None:
            text = msg.label if isinstance(msg, Opaque) else str(msg)
            (stack[-1] if stack else shown).append(text)

        def known(o: Any) -> _KV:
            return _KV("KnownValue", val=o)

        error_value = _KV("AnyValue", source=Sym("AnySource.error"))

        def check_dunder_call(node_: Any, composite: Any, method: str, args: List[Any], allow_call: bool = True) -> Any:
            recv = composite.get("value", node)
            if not (isinstance(recv, _KV) and recv._kind == "KnownValue" and all(isinstance(a.get("value", node), _KV) and a.get("value", node)._kind == "KnownValue" for a in args)):
                raise AnchorError("operator model: dunder call on an operand that is not a literal")
            val = recv._attrs["val"]
            argvals = [a.get("value", node)._attrs["val"] for a in args]
            fn = getattr(type(val), method, None)
            if fn is None:
                emit(f"{type(val).__name__} has no {method}")
                return error_value, None
            try:
                r = fn(val, *argvals)
            except TypeError as e:
                emit(f"{method}: {e}")
                return error_value, None
            except Exception:  # noqa: BLE001 - the real call is abandoned and the declared return type used
                return _KV("TypedValue", typ=object), None
            if r is NotImplemented:
                emit(f"{method} returned NotImplemented")
                return error_value, None
            return known(r), None

        def catch_errors() -> Obj:
            def enter():
                lst: List[str] = []
                stack.append(lst)
                return lst

            return Obj("ContextManager", __enter__=enter, __exit__=lambda exc=None: stack.pop())

        def composite_from_node(n: Any) -> Obj:
            if id(n) not in env:
                raise AnchorError("operator model: composite_from_node on something that is not an operand")
            return Obj("Composite", value=known(env[id(n)]), varname=None, node=n)

        def composite(args: List[Any], kwargs: Any = None) -> Obj:
            return Obj("Composite", value=args[0], varname=args[1] if len(args) > 1 else None, node=args[2] if len(args) > 2 else None)

        composite.wants_kwargs = True  # type: ignore[attr-defined]

        def unite(args: List[Any], kwargs: Any = None) -> Any:
            uniq: List[Any] = []
            for a in args:
                if not any(a == x for x in uniq):
                    uniq.append(a)
            if len(uniq) != 1:
                raise AnchorError("operator model: union of several results for literal operands")
            return uniq[0]

        unite.wants_kwargs = True  # type: ignore[attr-defined]

        def isinstance_hook(v: Any, cls: str) -> Optional[bool]:
            if cls in ("KnownValue", "AnyValue", "TypedValue", "MultiValuedValue", "AnnotatedValue", "Value"):
                return isinstance(v, _KV) and (cls == "Value" or v._kind == cls)
            if cls in ("bytes", "str"):
                return isinstance(v, {"bytes": bytes, "str": str}[cls])
            return None

        visitor = Obj(
            "NameCheckVisitor", in_annotation=False, composite_from_node=composite_from_node, _check_dunder_call=check_dunder_call, catch_errors=catch_errors,
            show_error=lambda n, msg=None, **k: emit(msg if msg is not None else k.get("error_code")),
            _show_error_if_checking=lambda n, msg=None, **k: emit(msg if msg is not None else k.get("error_code")),
            options=Obj("Options", get_value_for=lambda opt: ()), show_caught_errors=lambda errs: [emit(e) for e in errs],
        )
        funcs = {
            "Composite": composite, "unite_values": unite, "flatten_values": (lambda a, kw=None: [a[0]]), "KnownValue": lambda a: known(a[0]),
            "AnyValue": lambda a: _KV("AnyValue", source=a[0] if a else None), "TypedValue": lambda a: _KV("TypedValue", typ=a[0]),
        }
        funcs["flatten_values"].wants_kwargs = True  # type: ignore[attr-defined]
        globals_ = {"ast": ast, "BINARY_OPERATION_TO_DESCRIPTION_AND_METHOD": self.btable, "UNARY_OPERATION_TO_DESCRIPTION_AND_METHOD": self.utable, "__concrete_fstrings__": False}
        it = Interp({}, {}, (), funcs, isinstance_hook, self.method_defs, {}, globals_)
        md = self.method_defs[("NameCheckVisitor", "visit_" + type(node).__name__)]
        try:
            res = it.call_def(md, [visitor, node], md)
        except Unsupported as u:
            raise AnchorError(f"operator dispatch cannot be modelled: {u}")
        except AssertionFailed as af:
            return ("crash", f"assertion {af}")
        except (PyRaise, ModelError) as e:
            return ("crash", str(e))
        if isinstance(res, _KV) and res._kind == "KnownValue":
            return ("literal", res._attrs["val"]), shown
        return ("other", res._kind if isinstance(res, Obj) else repr(res)), shown


def expressions() -> Iterator[Tuple[str, ast.expr, Dict[int, Any], Any]]:
    """(text, node, env, python function computing the real result)"""
    fn_un = {"+": operator.pos, "-": operator.neg, "~": operator.invert}
    fn_bin = {
        "+": operator.add, "-": operator.sub, "*": operator.mul, "/": operator.truediv, "%": operator.mod, "**": operator.pow, "<<": operator.lshift, ">>": operator.rshift,
        "|": operator.or_, "^": operator.xor, "&": operator.and_, "//": operator.floordiv, "@": operator.matmul,
    }
    for sym, opcls in UNOPS.items():
        for a in OPERANDS:
            operand = ast.Constant(value=None)
            node = ast.UnaryOp(op=opcls(), operand=operand)
            yield f"{sym}({a!r})", node, {id(operand): a}, (lambda a=a, f=fn_un[sym]: f(a))
    for sym, opcls in BINOPS.items():
        for a in OPERANDS:
            for b in OPERANDS:
                if sym == "%" and isinstance(a, (str, bytes)):
                    continue  # %-formatting is C17's subject
                if sym == "**" and isinstance(a, (int, float)) and isinstance(b, (int, float)) and abs(b) > 8:
                    continue
                left, right = ast.Constant(value=None), ast.Constant(value=None)
                node = ast.BinOp(left=left, op=opcls(), right=right)
                yield f"({a!r}) {sym} ({b!r})", node, {id(left): a, id(right): b}, (lambda a=a, b=b, f=fn_bin[sym]: f(a, b))
