"""C05 - argument-to-parameter binding agrees with CPython (definite-argument
slice and error discipline)."""

from __future__ import annotations

import ast
from typing import Dict, List, Optional, Sequence, Tuple

from ..fold import Folder
from ..model import AnchorError, Program, dotted, last_attr, norm, parent, walk_no_nested
from ..report import Check
from .binder import Binder, core
from .common import calls_in, guards_of, local_assignments, need_locals, stmt_of

DEFINITE = {"STAR_ARGS": False, "STAR_KWARGS": False, "ELLIPSIS": False, "POK_NAME": False, "POK_IDX": False, "DEF_PROVIDED": True}

POS = ("BIND:POS_INDEX", "INC_POS")
KW = ("BIND:KW_NAME", "CONSUME_KW")
DEF = ("BIND:DEFAULT",)
ERR = "ERROR"


def _outcome(seq: Sequence[str]) -> Tuple[str, ...]:
    c = core(seq)
    if "ERROR" in c:
        if c[-1] != "RETURN_NONE":
            return ("ERROR-WITHOUT-RETURN",) + tuple(c)
        return (ERR,)
    return tuple(c)


def reference(kind: str, v: Dict[str, bool]) -> Tuple[str, ...]:
    """CPython's binding of one parameter when every argument is definite
    (language reference, section Calls)."""
    if kind == "POSITIONAL_ONLY":
        if v["HAS_POS"]:
            return POS
        return DEF if v["HAS_DEFAULT"] else (ERR,)
    if kind == "POSITIONAL_OR_KEYWORD":
        if v["HAS_POS"]:
            return (ERR,) if v["HAS_KW"] else POS  # multiple values for argument
        if v["HAS_KW"]:
            return KW
        return DEF if v["HAS_DEFAULT"] else (ERR,)
    if kind == "KEYWORD_ONLY":
        if v["HAS_KW"]:
            return KW
        return DEF if v["HAS_DEFAULT"] else (ERR,)
    raise KeyError(kind)


def r05_a(prog: Program, chk: Check, b: Binder) -> None:
    chk.rule(
        "R05.a",
        "per parameter kind, the guarded actions of bind_arguments equal CPython's binding order on the "
        "definite-argument slice (truth table over HAS_POSITIONAL / HAS_KEYWORD / HAS_DEFAULT)",
        floor=18,
    )
    site = prog.site("signature", b.fn)
    for kind in ("POSITIONAL_ONLY", "POSITIONAL_OR_KEYWORD", "KEYWORD_ONLY"):
        tab, ev = b.table(kind, ["HAS_POS", "HAS_KW", "HAS_DEFAULT"], DEFINITE)
        for val, seqs in tab.items():
            v = dict(val)
            want = reference(kind, v)
            got = sorted({_outcome(s) for s in seqs})
            name = ",".join(f"{k}={int(x)}" for k, x in val)
            chk.ob(
                "R05.a",
                f"signature::Signature.bind_arguments::{kind}::{name}",
                got == [want],
                site,
                f"{kind} with {name}: binder does {got}, CPython does {want}",
                witness={"actions": seqs},
            )
        # no consumed-flag may be set on the definite slice: it would switch off the leftover checks
        for val, seqs in tab.items():
            flags = sorted({a for s in seqs for a in s if a.startswith("FLAG:")})
            if flags:
                chk.ob(
                    "R05.a",
                    f"signature::Signature.bind_arguments::{kind}::no-flag-on-definite-slice",
                    False,
                    site,
                    f"{kind} sets {flags} although no star argument exists: leftover-argument checks are skipped",
                )
    tab, _ = b.table("VAR_POSITIONAL", ["EXTRA_POS"], DEFINITE)
    for val, seqs in tab.items():
        acts = [a for s in seqs for a in s]
        chk.ob(
            "R05.a",
            f"signature::Signature.bind_arguments::VAR_POSITIONAL::{val}",
            "ABSORB_POSITIONALS" in acts and "FLAG:star_args_consumed" in acts and "ERROR" not in acts,
            site,
            f"*args must absorb every remaining positional and mark star_args_consumed; got {seqs}",
        )
    tab, _ = b.table("VAR_KEYWORD", ["EXTRA_KW"], DEFINITE)
    for val, seqs in tab.items():
        acts = [a for s in seqs for a in s]
        chk.ob(
            "R05.a",
            f"signature::Signature.bind_arguments::VAR_KEYWORD::{val}",
            "ABSORB_KEYWORDS" in acts and "FLAG:star_kwargs_consumed" in acts and "ERROR" not in acts,
            site,
            f"**kwargs must absorb every keyword not consumed by a named parameter and mark star_kwargs_consumed; got {seqs}",
        )


def r05_b(prog: Program, chk: Check, b: Binder) -> None:
    chk.rule("R05.b", "tail obligations: leftover positionals without *args and leftover keywords without **kwargs are errors", floor=2)
    fn = b.fn
    need_locals(fn, "star_args_consumed", "star_kwargs_consumed", "keywords_consumed")
    body = fn.body
    idx = body.index(b.loop)
    tail = body[idx + 1 :]
    pos_ok = kw_ok = False
    for st in tail:
        if not isinstance(st, ast.If):
            continue
        t = norm(st.test)
        if "star_args_consumed" in t and b.IDX in t and "positionals" in t:
            neg = isinstance(st.test, ast.BoolOp) and isinstance(st.test.op, ast.And) and any(norm(v) == "not star_args_consumed" for v in st.test.values)
            cmp_ok = any(
                isinstance(v, ast.Compare) and isinstance(v.ops[0], (ast.NotEq, ast.Lt)) and norm(v.left) == b.IDX
                for v in getattr(st.test, "values", [])
            )
            acts = [norm(s) for s in st.body]
            pos_ok = neg and cmp_ok and any("show_call_error" in a for a in acts) and isinstance(st.body[-1], ast.Return) and norm(st.body[-1]) == "return None"
        if t == "not star_kwargs_consumed":
            # extra = set(A.keywords) - keywords_consumed ; if extra: error ; return None
            extra_name = None
            for s in st.body:
                if isinstance(s, ast.Assign) and isinstance(s.value, ast.BinOp) and isinstance(s.value.op, ast.Sub):
                    if "keywords" in norm(s.value.left) and norm(s.value.right) == "keywords_consumed":
                        extra_name = norm(s.targets[0])
            for s in st.body:
                if isinstance(s, ast.If) and extra_name and norm(s.test) == extra_name:
                    kw_ok = any("show_call_error" in norm(x) for x in s.body) and isinstance(s.body[-1], ast.Return) and norm(s.body[-1]) == "return None"
    site = prog.site("signature", fn)
    chk.ob("R05.b", "signature::Signature.bind_arguments::leftover-positionals", pos_ok, site, "after the loop: `not star_args_consumed and index != len(positionals)` must report an error and return None")
    chk.ob("R05.b", "signature::Signature.bind_arguments::leftover-keywords", kw_ok, site, "after the loop: keywords minus consumed ones must report an error and return None unless **kwargs consumed them")


# error sites that report without returning, identified by the flag that guards them
R05C_EXCEPTIONS = {
    "param_spec_consumed": "ParamSpec forwarding is outside the property's signature universe; the binder reports an unused ParamSpec and continues by design",
}


def r05_c(prog: Program, chk: Check, b: Binder) -> None:
    chk.rule("R05.c", "error discipline: every show_call_error in bind_arguments is immediately followed by `return None`", floor=9)
    n = 0
    counts: Dict[str, int] = {}
    for st in walk_no_nested(b.fn):
        if isinstance(st, ast.Expr) and isinstance(st.value, ast.Call) and last_attr(st.value) == "show_call_error":
            n += 1
            blk = None
            p = parent(st)
            for fld in ("body", "orelse", "finalbody"):
                lst = getattr(p, fld, None)
                if isinstance(lst, list) and st in lst:
                    blk = lst
            assert blk is not None
            i = blk.index(st)
            nxt = blk[i + 1] if i + 1 < len(blk) else None
            ok = isinstance(nxt, ast.Return) and (nxt.value is None or (isinstance(nxt.value, ast.Constant) and nxt.value.value is None))
            msg = st.value.args[0] if st.value.args else None
            text = ""
            if isinstance(msg, ast.Constant):
                text = str(msg.value)
            elif isinstance(msg, ast.JoinedStr):
                text = "".join(str(v.value) for v in msg.values if isinstance(v, ast.Constant))
            elif isinstance(msg, ast.Name):
                text = msg.id
            if not ok and any(k in norm(g) for g, _ in guards_of(st, b.fn) for k in R05C_EXCEPTIONS):
                continue
            guard = "&".join(sorted({(("" if pol else "!") + (b.atom_of(g) or ("?", True))[0]) for g, pol in guards_of(st, b.fn) if b.atom_of(g)}))
            kinds = sorted({d.split(".")[-1] for g, pol in guards_of(st, b.fn) if pol for d in [dotted(x) or "" for x in ast.walk(g)] if d.startswith("ParameterKind.")})
            base = f"signature::Signature.bind_arguments::error-returns::{'|'.join(kinds) or 'tail'}::{guard}"
            counts[base] = counts.get(base, 0) + 1
            key = base + (f"#{counts[base]}" if counts[base] > 1 else "")
            chk.ob(
                "R05.c",
                key,
                ok,
                prog.site("signature", st),
                f"`{text[:60]}` is reported but binding continues: the call is not rejected and later parameters bind against a corrupted state",
            )
    chk.analysed["show_call_error_sites_in_binder"] = n


def r05_d(prog: Program, chk: Check) -> None:
    chk.rule("R05.d", "no dropped failure: every caller of bind_arguments / preprocess_args tests the result for None before using it", floor=5)
    for mod in prog.modules.values():
        for c in calls_in(mod.tree):
            nm = last_attr(c)
            if nm not in ("bind_arguments", "preprocess_args"):
                continue
            st = stmt_of(c)
            q = prog.qualname_of(mod, c)
            if not (isinstance(st, ast.Assign) and len(st.targets) == 1 and isinstance(st.targets[0], ast.Name)):
                chk.ob("R05.d", f"{mod.name}::{q}::{nm}::result-bound", False, prog.site(mod, c), f"result of {nm}() is not bound to a name that can be tested")
                continue
            var = st.targets[0].id
            f = st
            while f is not None and not isinstance(f, (ast.FunctionDef, ast.AsyncFunctionDef)):
                f = parent(f)
            tested = False
            for n in walk_no_nested(f):
                if isinstance(n, ast.Compare) and isinstance(n.left, ast.Name) and n.left.id == var and isinstance(n.ops[0], (ast.Is, ast.IsNot)) and isinstance(n.comparators[0], ast.Constant) and n.comparators[0].value is None and n.lineno >= st.lineno:
                    tested = True
            # the test must come before any other use
            uses = sorted(
                x.lineno
                for x in walk_no_nested(f)
                if isinstance(x, ast.Name) and x.id == var and isinstance(x.ctx, ast.Load) and x.lineno > st.lineno
            )
            first_use_is_test = False
            if uses:
                for n in walk_no_nested(f):
                    if isinstance(n, ast.Compare) and isinstance(n.left, ast.Name) and n.left.id == var and n.lineno == uses[0] and isinstance(n.ops[0], (ast.Is, ast.IsNot)):
                        first_use_is_test = True
            if uses and not first_use_is_test:
                # idiom: results are collected (L.append(var)) and every consumer of L filters `is not None`
                coll = None
                for n in walk_no_nested(f):
                    if isinstance(n, ast.Call) and last_attr(n) == "append" and n.args and isinstance(n.args[0], ast.Name) and n.args[0].id == var and n.lineno == uses[0]:
                        coll = norm(n.func.value)  # type: ignore[attr-defined]
                if coll is not None:
                    consumers = [
                        g
                        for g in walk_no_nested(f)
                        if isinstance(g, ast.comprehension) and coll in norm(g.iter)
                    ]
                    filt = [
                        g
                        for g in consumers
                        if any(isinstance(c2, ast.Compare) and isinstance(c2.ops[0], ast.IsNot) and isinstance(c2.comparators[0], ast.Constant) and c2.comparators[0].value is None for i2 in g.ifs for c2 in ast.walk(i2))
                        or any(
                            isinstance(c2, ast.Compare) and isinstance(c2.ops[0], ast.IsNot)
                            for c2 in ast.walk(parent(g))
                            if isinstance(parent(g), ast.GeneratorExp) and isinstance(c2, ast.Compare)
                        )
                    ]
                    other_uses = [
                        x for x in walk_no_nested(f)
                        if isinstance(x, ast.Name) and x.id == coll and isinstance(x.ctx, ast.Load)
                        and not isinstance(parent(x), ast.Attribute)
                        and not any(coll in norm(g.iter) and any(y is x for y in ast.walk(g.iter)) for g in consumers)
                    ]
                    if consumers and len(filt) == len(consumers) and not other_uses:
                        tested = first_use_is_test = True
            chk.ob(
                "R05.d",
                f"{mod.name}::{q}::{nm}::none-tested",
                tested and first_use_is_test,
                prog.site(mod, c),
                f"`{var} = {nm}(...)` is used without an `is None` test first: a failed binding is treated as a successful one",
            )


def r05_e(prog: Program, chk: Check, b: Binder) -> None:
    chk.rule("R05.e", "ParameterKind is handled exhaustively by the binder and its first five values equal inspect._ParameterKind", floor=8)
    members = prog.enum_members("ParameterKind")
    for m in members:
        chk.ob("R05.e", f"signature::Signature.bind_arguments::arm={m}", m in b.arms, prog.site("signature", b.fn), f"ParameterKind.{m} has no arm in bind_arguments (reaches `assert False`)")
    want = {"POSITIONAL_ONLY": 0, "POSITIONAL_OR_KEYWORD": 1, "VAR_POSITIONAL": 2, "KEYWORD_ONLY": 3, "VAR_KEYWORD": 4}
    ci = prog.cls("ParameterKind")
    vals: Dict[str, object] = {}
    for st in ci.node.body:
        if isinstance(st, ast.Assign) and isinstance(st.targets[0], ast.Name) and isinstance(st.value, ast.Constant):
            vals[st.targets[0].id] = st.value.value
    for k, v in want.items():
        chk.ob("R05.e", f"signature::ParameterKind::{k}={v}", vals.get(k) == v, prog.site("signature", ci.node), f"ParameterKind.{k} is {vals.get(k)}, inspect._ParameterKind.{k} is {v}")


def run(prog: Program, chk: Check) -> None:
    b = Binder(prog)
    r05_a(prog, chk, b)
    r05_b(prog, chk, b)
    r05_c(prog, chk, b)
    r05_d(prog, chk)
    r05_e(prog, chk, b)
