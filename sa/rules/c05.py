"""C05 - argument-to-parameter binding agrees with CPython (definite-argument
slice and error discipline)."""

from __future__ import annotations

import ast
from typing import Dict, List, Optional, Sequence, Tuple

from ..fold import Folder
from ..model import AnchorError, Program, dotted, last_attr, norm, parent, walk_no_nested
from ..report import Check, guard
from .binder import Binder, core
from .common import calls_in, guards_of, local_assignments, need_locals, stmt_of

DEFINITE = {"STAR_ARGS": False, "STAR_KWARGS": False, "STAR_EXHAUSTED": False, "ELLIPSIS": False, "POK_NAME": False, "POK_IDX": False, "DEF_PROVIDED": True}

POS = ("BIND:POS_INDEX", "INC_POS")
KW = ("BIND:KW_NAME", "CONSUME_KW")
DEF = ("BIND:DEFAULT",)
ERR = "ERROR"


def _outcome(seq: Sequence[str]) -> Tuple[str, ...]:
    c = core(seq)
    if "ERROR" in c:
        if c[-1] != "RETURN_NONE":
            return ("ERROR-WITHOUT-RETURN",) + tuple(c)
        return (ERR,)
    return tuple(c)


def reference(kind: str, v: Dict[str, bool]) -> Tuple[str, ...]:
    """CPython's binding of one parameter when every argument is definite
    (language reference, section Calls)."""
    if kind == "POSITIONAL_ONLY":
        if v["HAS_POS"]:
            return POS
        return DEF if v["HAS_DEFAULT"] else (ERR,)
    if kind == "POSITIONAL_OR_KEYWORD":
        if v["HAS_POS"]:
            return (ERR,) if v["HAS_KW"] else POS  # multiple values for argument
        if v["HAS_KW"]:
            return KW
        return DEF if v["HAS_DEFAULT"] else (ERR,)
    if kind == "KEYWORD_ONLY":
        if v["HAS_KW"]:
            return KW
        return DEF if v["HAS_DEFAULT"] else (ERR,)
    raise KeyError(kind)


def r05_a(prog: Program, chk: Check, b: Binder) -> None:
    chk.rule(
        "R05.a",
        "per parameter kind, the guarded actions of bind_arguments equal CPython's binding order on the "
        "definite-argument slice (truth table over HAS_POSITIONAL / HAS_KEYWORD / HAS_DEFAULT)",
        floor=18,
    )
    site = prog.site("signature", b.fn)
    for kind in ("POSITIONAL_ONLY", "POSITIONAL_OR_KEYWORD", "KEYWORD_ONLY"):
        tab, ev = b.table(kind, ["HAS_POS", "HAS_KW", "HAS_DEFAULT"], DEFINITE)
        for val, seqs in tab.items():
            v = dict(val)
            want = reference(kind, v)
            got = sorted({_outcome(s) for s in seqs})
            name = ",".join(f"{k}={int(x)}" for k, x in val)
            chk.ob(
                "R05.a",
                f"signature::Signature.bind_arguments::{kind}::{name}",
                got == [want],
                site,
                f"{kind} with {name}: binder does {got}, CPython does {want}",
                witness={"actions": seqs},
            )
        # no consumed-flag may be set on the definite slice: it would switch off the leftover checks
        for val, seqs in tab.items():
            # (the *args-exhausted flag is not read by the leftover checks)
            flags = sorted({a for s in seqs for a in s if a.startswith("FLAG:") and a != "FLAG:star_exhausted"})
            if flags:
                chk.ob(
                    "R05.a",
                    f"signature::Signature.bind_arguments::{kind}::no-flag-on-definite-slice",
                    False,
                    site,
                    f"{kind} sets {flags} although no star argument exists: leftover-argument checks are skipped",
                )
    tab, _ = b.table("VAR_POSITIONAL", ["EXTRA_POS"], DEFINITE)
    for val, seqs in tab.items():
        acts = [a for s in seqs for a in s]
        chk.ob(
            "R05.a",
            f"signature::Signature.bind_arguments::VAR_POSITIONAL::{val}",
            "ABSORB_POSITIONALS" in acts and "FLAG:star_args_consumed" in acts and "ERROR" not in acts,
            site,
            f"*args must absorb every remaining positional and mark star_args_consumed; got {seqs}",
        )
    tab, _ = b.table("VAR_KEYWORD", ["EXTRA_KW"], DEFINITE)
    for val, seqs in tab.items():
        acts = [a for s in seqs for a in s]
        chk.ob(
            "R05.a",
            f"signature::Signature.bind_arguments::VAR_KEYWORD::{val}",
            "ABSORB_KEYWORDS" in acts and "FLAG:star_kwargs_consumed" in acts and "ERROR" not in acts,
            site,
            f"**kwargs must absorb every keyword not consumed by a named parameter and mark star_kwargs_consumed; got {seqs}",
        )


def r05_b(prog: Program, chk: Check, b: Binder) -> None:
    chk.rule("R05.b", "tail obligations: leftover positionals without *args and leftover keywords without **kwargs are errors", floor=2)
    fn = b.fn
    need_locals(fn, "star_args_consumed", "keywords_consumed")
    body = fn.body
    idx = body.index(b.loop)
    tail = body[idx + 1 :]
    pos_ok = kw_ok = False
    for st in tail:
        if not isinstance(st, ast.If):
            continue
        t = norm(st.test)
        if "star_args_consumed" in t and b.IDX in t and "positionals" in t:
            neg = isinstance(st.test, ast.BoolOp) and isinstance(st.test.op, ast.And) and any(norm(v) == "not star_args_consumed" for v in st.test.values)
            cmp_ok = any(
                isinstance(v, ast.Compare) and isinstance(v.ops[0], (ast.NotEq, ast.Lt)) and norm(v.left) == b.IDX
                for v in getattr(st.test, "values", [])
            )
            acts = [norm(s) for s in st.body]
            pos_ok = neg and cmp_ok and any("show_call_error" in a for a in acts) and isinstance(st.body[-1], ast.Return) and norm(st.body[-1]) == "return None"
        vk_flags = {
            norm(x.targets[0])
            for x in ast.walk(ast.Module(body=list(b.arms.get("VAR_KEYWORD", [])), type_ignores=[]))
            if isinstance(x, ast.Assign) and isinstance(x.value, ast.Constant) and x.value.value is True
        }
        if isinstance(st.test, ast.UnaryOp) and isinstance(st.test.op, ast.Not) and norm(st.test.operand) in vk_flags:
            # extra = set(A.keywords) - keywords_consumed ; if extra: error ; return None
            extra_name = None
            for s in st.body:
                if isinstance(s, ast.Assign) and isinstance(s.value, ast.BinOp) and isinstance(s.value.op, ast.Sub):
                    if "keywords" in norm(s.value.left) and norm(s.value.right) == "keywords_consumed":
                        extra_name = norm(s.targets[0])
            for s in st.body:
                if isinstance(s, ast.If) and extra_name and norm(s.test) == extra_name:
                    kw_ok = any("show_call_error" in norm(x) for x in s.body) and isinstance(s.body[-1], ast.Return) and norm(s.body[-1]) == "return None"
    site = prog.site("signature", fn)
    chk.ob("R05.b", "signature::Signature.bind_arguments::leftover-positionals", pos_ok, site, "after the loop: `not star_args_consumed and index != len(positionals)` must report an error and return None")
    chk.ob("R05.b", "signature::Signature.bind_arguments::leftover-keywords", kw_ok, site, "after the loop: keywords minus consumed ones must report an error and return None unless **kwargs consumed them")


# error sites that report without returning, identified by the flag that guards them
R05C_EXCEPTIONS = {
    "param_spec_consumed": "ParamSpec forwarding is outside the property's signature universe; the binder reports an unused ParamSpec and continues by design",
}


def r05_c(prog: Program, chk: Check, b: Binder) -> None:
    chk.rule("R05.c", "error discipline: every show_call_error in bind_arguments is immediately followed by `return None`", floor=9)
    n = 0
    counts: Dict[str, int] = {}
    for st in walk_no_nested(b.fn):
        if isinstance(st, ast.Expr) and isinstance(st.value, ast.Call) and last_attr(st.value) == "show_call_error":
            n += 1
            blk = None
            p = parent(st)
            for fld in ("body", "orelse", "finalbody"):
                lst = getattr(p, fld, None)
                if isinstance(lst, list) and st in lst:
                    blk = lst
            assert blk is not None
            i = blk.index(st)
            nxt = blk[i + 1] if i + 1 < len(blk) else None
            ok = isinstance(nxt, ast.Return) and (nxt.value is None or (isinstance(nxt.value, ast.Constant) and nxt.value.value is None))
            msg = st.value.args[0] if st.value.args else None
            text = ""
            if isinstance(msg, ast.Constant):
                text = str(msg.value)
            elif isinstance(msg, ast.JoinedStr):
                text = "".join(str(v.value) for v in msg.values if isinstance(v, ast.Constant))
            elif isinstance(msg, ast.Name):
                text = msg.id
            if not ok and any(k in norm(g) for g, _ in guards_of(st, b.fn) for k in R05C_EXCEPTIONS):
                continue
            guard = "&".join(sorted({(("" if pol else "!") + (b.atom_of(g) or ("?", True))[0]) for g, pol in guards_of(st, b.fn) if b.atom_of(g)}))
            kinds = sorted({d.split(".")[-1] for g, pol in guards_of(st, b.fn) if pol for d in [dotted(x) or "" for x in ast.walk(g)] if d.startswith("ParameterKind.")})
            base = f"signature::Signature.bind_arguments::error-returns::{'|'.join(kinds) or 'tail'}::{guard}"
            counts[base] = counts.get(base, 0) + 1
            key = base + (f"#{counts[base]}" if counts[base] > 1 else "")
            chk.ob(
                "R05.c",
                key,
                ok,
                prog.site("signature", st),
                f"`{text[:60]}` is reported but binding continues: the call is not rejected and later parameters bind against a corrupted state",
            )
    chk.analysed["show_call_error_sites_in_binder"] = n


def r05_d(prog: Program, chk: Check) -> None:
    chk.rule("R05.d", "no dropped failure: every caller of bind_arguments / preprocess_args tests the result for None before using it", floor=5)
    for mod in prog.modules.values():
        for c in calls_in(mod.tree):
            nm = last_attr(c)
            if nm not in ("bind_arguments", "preprocess_args"):
                continue
            st = stmt_of(c)
            q = prog.qualname_of(mod, c)
            if not (isinstance(st, ast.Assign) and len(st.targets) == 1 and isinstance(st.targets[0], ast.Name)):
                chk.ob("R05.d", f"{mod.name}::{q}::{nm}::result-bound", False, prog.site(mod, c), f"result of {nm}() is not bound to a name that can be tested")
                continue
            var = st.targets[0].id
            f = st
            while f is not None and not isinstance(f, (ast.FunctionDef, ast.AsyncFunctionDef)):
                f = parent(f)
            tested = False
            for n in walk_no_nested(f):
                if isinstance(n, ast.Compare) and isinstance(n.left, ast.Name) and n.left.id == var and isinstance(n.ops[0], (ast.Is, ast.IsNot)) and isinstance(n.comparators[0], ast.Constant) and n.comparators[0].value is None and n.lineno >= st.lineno:
                    tested = True
            # the test must come before any other use
            uses = sorted(
                x.lineno
                for x in walk_no_nested(f)
                if isinstance(x, ast.Name) and x.id == var and isinstance(x.ctx, ast.Load) and x.lineno > st.lineno
            )
            first_use_is_test = False
            if uses:
                for n in walk_no_nested(f):
                    if isinstance(n, ast.Compare) and isinstance(n.left, ast.Name) and n.left.id == var and n.lineno == uses[0] and isinstance(n.ops[0], (ast.Is, ast.IsNot)):
                        first_use_is_test = True
            if uses and not first_use_is_test:
                # idiom: results are collected (L.append(var)) and every consumer of L filters `is not None`
                coll = None
                for n in walk_no_nested(f):
                    if isinstance(n, ast.Call) and last_attr(n) == "append" and n.args and isinstance(n.args[0], ast.Name) and n.args[0].id == var and n.lineno == uses[0]:
                        coll = norm(n.func.value)  # type: ignore[attr-defined]
                if coll is not None:
                    consumers = [
                        g
                        for g in walk_no_nested(f)
                        if isinstance(g, ast.comprehension) and coll in norm(g.iter)
                    ]
                    filt = [
                        g
                        for g in consumers
                        if any(isinstance(c2, ast.Compare) and isinstance(c2.ops[0], ast.IsNot) and isinstance(c2.comparators[0], ast.Constant) and c2.comparators[0].value is None for i2 in g.ifs for c2 in ast.walk(i2))
                        or any(
                            isinstance(c2, ast.Compare) and isinstance(c2.ops[0], ast.IsNot)
                            for c2 in ast.walk(parent(g))
                            if isinstance(parent(g), ast.GeneratorExp) and isinstance(c2, ast.Compare)
                        )
                    ]
                    other_uses = [
                        x for x in walk_no_nested(f)
                        if isinstance(x, ast.Name) and x.id == coll and isinstance(x.ctx, ast.Load)
                        and not isinstance(parent(x), ast.Attribute)
                        and not any(coll in norm(g.iter) and any(y is x for y in ast.walk(g.iter)) for g in consumers)
                    ]
                    if consumers and len(filt) == len(consumers) and not other_uses:
                        tested = first_use_is_test = True
            chk.ob(
                "R05.d",
                f"{mod.name}::{q}::{nm}::none-tested",
                tested and first_use_is_test,
                prog.site(mod, c),
                f"`{var} = {nm}(...)` is used without an `is None` test first: a failed binding is treated as a successful one",
            )


def r05_e(prog: Program, chk: Check, b: Binder) -> None:
    chk.rule("R05.e", "ParameterKind is handled exhaustively by the binder and its first five values equal inspect._ParameterKind", floor=8)
    members = prog.enum_members("ParameterKind")
    for m in members:
        chk.ob("R05.e", f"signature::Signature.bind_arguments::arm={m}", m in b.arms, prog.site("signature", b.fn), f"ParameterKind.{m} has no arm in bind_arguments (reaches `assert False`)")
    want = {"POSITIONAL_ONLY": 0, "POSITIONAL_OR_KEYWORD": 1, "VAR_POSITIONAL": 2, "KEYWORD_ONLY": 3, "VAR_KEYWORD": 4}
    ci = prog.cls("ParameterKind")
    vals: Dict[str, object] = {}
    for st in ci.node.body:
        if isinstance(st, ast.Assign) and isinstance(st.targets[0], ast.Name) and isinstance(st.value, ast.Constant):
            vals[st.targets[0].id] = st.value.value
    for k, v in want.items():
        chk.ob("R05.e", f"signature::ParameterKind::{k}={v}", vals.get(k) == v, prog.site("signature", ci.node), f"ParameterKind.{k} is {vals.get(k)}, inspect._ParameterKind.{k} is {v}")


# --------------------------------------------------------------- R05.f / R05.g
def _model_chunk(args):
    """Worker: interpret the binder on every call shape of a chunk of signatures
    and classify each verdict against the reference."""
    sigs, max_pos, max_kw = args
    from ..model import Program as _P
    from . import binder_model as bm

    model = bm.BinderModel(_P())
    classes: Dict[Tuple[str, str], Dict[str, object]] = {}
    n = 0

    def note(key: Tuple[str, str], ok: bool, sig, shape, detail: str) -> None:
        c = classes.setdefault(key, {"n": 0, "bad": 0, "witness": []})
        c["n"] += 1  # type: ignore[operator]
        if not ok:
            c["bad"] += 1  # type: ignore[operator]
            w = c["witness"]
            item = (len(bm.fmt_sig(sig)) + len(bm.fmt_shape(shape)), bm.fmt_sig(sig), bm.fmt_shape(shape), detail)
            w.append(item)  # type: ignore[union-attr]
            w.sort()  # type: ignore[union-attr]
            del w[6:]  # type: ignore[arg-type]

    for sig in sigs:
        for shape in bm.shapes(sig, max_pos, max_kw):
            n += 1
            verdict, errors = model.run(sig, shape)
            npos, kws, sa, sk = shape
            # error discipline on whole runs: rejected <=> exactly one error was shown
            note(("discipline", "reject-iff-one-error"), (verdict == "reject") == (len(errors) == 1) and len(errors) <= 1, sig, shape, f"{verdict} with errors {errors}")
            if not sa and not sk:
                ref = bm.cpython_outcome(sig, npos, kws)
                ok = (verdict == "accept") == (ref == "binds")
                note(("definite", ref), ok, sig, shape, f"binder: {verdict}{' ' + repr(errors[0]) if errors else ''}; CPython: {ref}")
            else:
                any_ok, ne_ok, reasons = bm.expansions(sig, shape)
                if verdict == "accept":
                    why = "+".join(sorted(reasons)) or "-"
                    note(("star-accept", "some-expansion-binds" if any_ok else "no-expansion-binds:" + why), any_ok, sig, shape, f"accepted, but every expansion of the star arguments fails ({why})")
                else:
                    msg = errors[0] if errors else "<no message>"
                    note(("star-reject", msg), not ne_ok, sig, shape, f"rejected ({msg!r}), but an expansion taking at least one element from every star argument binds")
    return n, classes


def _run_model(prog: Program, max_params: int, max_pos: int, max_kw: int):
    import multiprocessing as mp
    import os as _os

    from . import binder_model as bm

    sigs = list(bm.signatures(max_params))
    procs = 2 if _os.environ.get("VERIF_SELFTEST") else min(16, _os.cpu_count() or 1)
    # interleave so that chunks are balanced
    chunks = [(sigs[i::procs * 4], max_pos, max_kw) for i in range(procs * 4)]
    chunks = [c for c in chunks if c[0]]
    total = 0
    merged: Dict[Tuple[str, str], Dict[str, object]] = {}
    if procs == 1:
        results = [_model_chunk(c) for c in chunks]
    else:
        with mp.get_context("fork").Pool(procs) as pool:
            results = pool.map(_model_chunk, chunks)
    for n, classes in results:
        total += n
        for k, c in classes.items():
            m = merged.setdefault(k, {"n": 0, "bad": 0, "witness": []})
            m["n"] += c["n"]  # type: ignore[operator]
            m["bad"] += c["bad"]  # type: ignore[operator]
            m["witness"] = sorted(list(m["witness"]) + list(c["witness"]))[:6]  # type: ignore[arg-type]
    return len(sigs), total, merged


def r05_fg(prog: Program, chk: Check) -> None:
    thorough = chk.tier == "thorough"
    import os as _os

    if _os.environ.get("VERIF_SELFTEST"):
        max_params, max_pos, max_kw = 3, 3, 3
    elif thorough:
        max_params, max_pos, max_kw = 6, 4, 4
    else:
        max_params, max_pos, max_kw = 4, 4, 4
    chk.rule(
        "R05.f",
        "whole-call binding, definite arguments: the transition system extracted from bind_arguments (opaque-value interpretation of its AST) "
        f"gives CPython's verdict for every def-legal signature of up to {max_params} parameters and every call shape with up to {max_pos} positionals and "
        f"{max_kw} keywords (incl. an unknown name and positional-only names); a call is rejected iff exactly one error is shown",
        floor=5,
    )
    chk.rule(
        "R05.g",
        "whole-call binding, *args / **kwargs of unknown length: accepted only if some expansion binds; rejected only if no expansion that takes "
        "at least one element from every star argument binds (reference: closed form, cross-checked against enumeration in the self-test)",
        floor=2,
    )
    nsig, total, merged = _run_model(prog, max_params, max_pos, max_kw)
    chk.model_evaluations += total
    chk.analysed["binder_model"] = {"signatures": nsig, "call_shapes_interpreted": total, "max_params": max_params, "max_positionals": max_pos, "max_keywords": max_kw}
    site = prog.site("signature", prog.func("signature", "Signature.bind_arguments"))
    for (grp, name), c in sorted(merged.items()):
        rid = "R05.f" if grp in ("definite", "discipline") else "R05.g"
        bad = int(c["bad"])  # type: ignore[arg-type]
        wit = [{"signature": w[1], "call": w[2], "detail": w[3]} for w in c["witness"]]  # type: ignore[union-attr]
        chk.ob(
            rid,
            f"signature::Signature.bind_arguments::model::{grp}::{name}",
            bad == 0,
            site,
            f"{c['n']} call shapes in this class, {bad} disagree with the reference" + (f"; smallest: {wit[0]['signature']} called as {wit[0]['call']}: {wit[0]['detail']}" if wit else ""),
            witness=wit,
        )


# ------------------------------------------------------------------- R05.h
def _preprocess_chunk(args):
    part, nparts, max_params, stride = args
    from ..model import AnchorError as _AE
    from ..model import Program as _P
    from . import binder_model as bmod
    from . import preprocess_model as pmod

    model = pmod.PreprocessModel(_P())
    classes: Dict[str, Dict[str, object]] = {}
    unsupported = []
    n = 0

    def note(key: str, bad: bool, d) -> None:
        c = classes.setdefault(key, {"n": 0, "bad": 0, "witness": []})
        c["n"] += 1  # type: ignore[operator]
        if bad:
            c["bad"] += 1  # type: ignore[operator]
            w = c["witness"]
            w.append(d)  # type: ignore[union-attr]
            w.sort(key=lambda x: (len(x["def"]) + len(x["call"]), repr(x)))  # type: ignore[union-attr]
            del w[4:]  # type: ignore[arg-type]

    for idx, sig in enumerate(bmod.signatures(max_params)):
        if idx % nparts != part:
            continue
        names = [f"p{i}" for i, (k, d) in enumerate(sig) if k not in (bmod.VP, bmod.VK)]
        for j, call in enumerate(pmod.calls(names)):
            if stride > 1 and (idx + j) % stride:
                continue
            ref = pmod.cpython_outcome(sig, call)
            if ref is None:
                continue
            n += 1
            d = {"def": pmod.def_source(sig), "call": pmod.call_source(call)}
            try:
                r = model.run(sig, call)
            except _AE as e:
                unsupported.append({**d, "why": str(e)[:300]})
                continue
            if r[0] == "crash":
                note("no-crash", True, {**d, "error": r[1]})
                continue
            note("no-crash", False, d)
            feats = []
            if any(i[0] == "star" for i in call):
                feats.append("*tuple")
            if any(i[0] == "dstar" for i in call):
                feats.append("**dict")
            fk = "+".join(feats) or "plain"
            if ref == "TypeError":
                note(f"a call CPython rejects at bind time is diagnosed::{fk}", r[0] != "reject", {**d, "messages": r[1]})
            else:
                note(f"a call CPython binds is not diagnosed::{fk}", r[0] != "accept", {**d, "messages": r[1]})
    # calls with one `*xs` of unknown length (xs: list[int]) among up to 3 explicit positionals
    for idx, sig in enumerate(bmod.signatures(max_params)):
        if idx % nparts != part:
            continue
        for before in range(3):
            for after in range(4 - before):
                call = tuple([("pos", 1)] * before + [("ustar",)] + [("pos", 1)] * after)
                outs = pmod.expansion_outcomes(sig, call)
                if outs is None:
                    continue
                n += 1
                d = {"def": pmod.def_source(sig), "call": pmod.call_source(call), "expansions": outs}
                try:
                    r = model.run(sig, call)
                except _AE as e:
                    unsupported.append({**d, "why": str(e)[:300]})
                    continue
                if r[0] == "crash":
                    note("no-crash", True, {**d, "error": r[1]})
                elif r[0] == "accept":
                    note("an accepted call with *xs among positionals has an expansion that binds", not any(o.startswith("ok") for o in outs), d)
                else:
                    note("a rejected call with *xs among positionals has no expansion (every *xs non-empty) that binds", "ok" in outs, {**d, "messages": r[1]})
    return n, classes, unsupported


def r05_h(prog: Program, chk: Check) -> None:
    import multiprocessing as mp
    import os as _os

    chk.rule(
        "R05.h",
        "the whole argument pipeline as a finite model against CPython's own binder: preprocess_args (with _preprocess_kwargs_no_mvv, _preprocess_kwargs_kv_pairs, "
        "replace_known_sequence_value) followed by Signature.bind_arguments is interpreted on calls written with positional arguments, keyword arguments, *tuple-literals and "
        "one or two **dict-literals (also with keys that repeat an explicit keyword, with equal values), and on calls with one *xs of unknown length (xs: list[int]) before, between or after up to 3 positional arguments (accepted only if some length 0..4 binds under CPython; rejected only if no length 1..4 does), for every signature of up to 2 (thorough: 3) parameters; the same def is "
        "created and the same call expression evaluated by CPython: diagnosed exactly when CPython raises TypeError while binding",
        floor=6,
    )
    selftest = bool(_os.environ.get("VERIF_SELFTEST"))
    procs = 2 if selftest else min(16, _os.cpu_count() or 1)
    max_params = 3 if chk.tier == "thorough" and not selftest else 2
    stride = 8 if selftest else 4 if max_params == 3 else 3
    with mp.get_context("fork").Pool(procs) as pl:
        results = pl.map(_preprocess_chunk, [(i, procs * 2, max_params, stride) for i in range(procs * 2)])
    total = 0
    merged: Dict[str, Dict[str, object]] = {}
    unsupported = []
    for n, classes, uns in results:
        total += n
        unsupported += uns
        for k, c in classes.items():
            m = merged.setdefault(k, {"n": 0, "bad": 0, "witness": []})
            m["n"] += c["n"]  # type: ignore[operator]
            m["bad"] += c["bad"]  # type: ignore[operator]
            m["witness"] = sorted(list(m["witness"]) + list(c["witness"]), key=lambda x: (len(x["def"]) + len(x["call"]), repr(x)))[:4]  # type: ignore[arg-type]
    chk.model_evaluations += total
    chk.analysed["preprocess_model"] = {"calls": total, "not_modelled": len(unsupported)}
    site = prog.site("signature", prog.func("signature", "preprocess_args"))
    for k, c in sorted(merged.items()):
        wit = c["witness"]
        chk.ob("R05.h", f"signature::pipeline-model::{k}", int(c["bad"]) == 0, site,  # type: ignore[arg-type]
               f"{c['n']} calls, {c['bad']} failing" + (f"; smallest: {wit[0]}" if wit else ""), witness=wit)  # type: ignore[index]
    if unsupported:
        raise AnchorError(f"{len(unsupported)} calls cannot be modelled; first: {unsupported[0]}")


def run(prog: Program, chk: Check) -> None:
    b = Binder(prog)
    guard(chk, r05_a, prog, chk, b)
    guard(chk, r05_b, prog, chk, b)
    guard(chk, r05_c, prog, chk, b)
    guard(chk, r05_d, prog, chk)
    guard(chk, r05_e, prog, chk, b)
    guard(chk, r05_fg, prog, chk)
    guard(chk, r05_h, prog, chk)


def run_thorough(prog: Program, chk: Check) -> None:
    """Validation of the *reference* (not of pyanalyze): the table-driven
    cpython_outcome() is compared with the interpreter's own argument binding on
    every signature of up to 4 parameters x every definite call shape, and the
    closed-form exists-expansion reference with its enumerative definition."""
    from . import binder_model as bm

    n = bad = 0
    first = None
    for sig in bm.signatures(4):
        src = bm.fmt_sig(sig).replace("=d", "=None") + ": return None"
        ns: Dict[str, object] = {}
        exec(src, ns)  # a def statement of the reference domain; nothing of /repo
        f = ns["f"]
        for npos, kws, sa, sk in bm.shapes(sig, 4, 4):
            if sa or sk:
                continue
            n += 1
            try:
                f(*([0] * npos), **{k: 0 for k in kws})  # type: ignore[operator]
                real = True
            except TypeError:
                real = False
            if real != bm.cpython_binds(sig, npos, kws):
                bad += 1
                first = first or (bm.fmt_sig(sig), bm.fmt_shape((npos, kws, sa, sk)), real)
    m = mism = 0
    for sig in bm.signatures(3):
        for sh in bm.shapes(sig, 3, 3):
            if sh[2] or sh[3]:
                m += 1
                if bm.expansions(sig, sh)[:2] != bm.expansions_bruteforce(sig, sh)[:2]:
                    mism += 1
    chk.analysed["reference_validation"] = {"definite_shapes_vs_interpreter": n, "mismatches": bad, "star_shapes_closed_form_vs_enumeration": m, "closed_form_mismatches": mism}
    print(f"[C05] reference validation: {n} definite call shapes against the interpreter's binder ({bad} mismatches), {m} star shapes closed form vs enumeration ({mism} mismatches)")
    if bad or mism:
        chk.error(f"the reference binder of sa/rules/binder_model.py is wrong: {bad} mismatches with CPython (first: {first}), {mism} closed-form mismatches")
