"""Finite model of overload resolution (C08): OverloadedSignature.check_call and
_unite_rets are interpreted from their AST; each overload is a model object whose
bind_arguments / check_call_preprocessed follow the contract documented in
check_call's docstring for ONE argument drawn from a small vocabulary (atoms,
unions of atoms, Any).  The driver's verdict and result type are compared with
the statement of the property."""

from __future__ import annotations

import ast
import itertools
from typing import Any, Dict, FrozenSet, List, Optional, Sequence, Tuple

from ..minterp import AssertionFailed, Interp, ModelError, Obj, Opaque, PyRaise, Sym, Unsupported
from ..model import AnchorError, Program

ATOMS = ("a", "b", "c")
TOP = frozenset(ATOMS) | {"*"}  # a parameter typed object/Any: accepts Any without "using Any"

# (arity binds, accepted atoms or TOP, return label, another parameter of the overload rejects its argument)
Overload = Tuple[bool, FrozenSet[str], str, bool]


class OverloadModel:
    def __init__(self, prog: Program) -> None:
        self.prog = prog
        self.check_call = prog.func("signature", "OverloadedSignature.check_call")
        self.method_defs = {("OverloadedSignature", "_unite_rets"): prog.func("signature", "OverloadedSignature._unite_rets")}

    def run(self, overloads: Sequence[Overload], arg: Any) -> Tuple[bool, Any]:
        """arg: frozenset of atoms, or "Any".  -> (diagnosed, result) with result a frozenset of
        return labels, "Any:<source>" or "error"."""
        diagnosed: List[Any] = []
        caught_stack: List[List[dict]] = []

        def mk_ret(value: Any, sig: Obj, is_error=False, used_any=False, remaining=None) -> Obj:
            return Obj("CallReturn", return_value=value, sig=sig, is_error=is_error, used_any_for_match=used_any, remaining_arguments=remaining)

        def ret_value(labels: FrozenSet[str]) -> Obj:
            return Obj("RetType", labels=labels)

        sig_objs: List[Obj] = []
        for idx, (binds, accepted, rlabel, other_fails) in enumerate(overloads):
            sig = Obj("Signature", idx=idx, deprecated=None)

            def bind_arguments(actual, ctx, binds=binds):
                if not binds:
                    if caught_stack:
                        caught_stack[-1].append({"e": "arity", "detail": None, "error_code": Sym("ErrorCode.incompatible_call")})
                    return None
                return {"x": actual}

            def check_call_preprocessed(actual, ctx, is_overload=False, sig=sig, accepted=accepted, rlabel=rlabel, other_fails=other_fails):
                a = actual.get("arg", None)
                err = {"e": "incompatible", "detail": None, "error_code": Sym("ErrorCode.incompatible_argument")}
                if other_fails:
                    # the argument under study may have been decomposed before the other parameter failed
                    if caught_stack:
                        caught_stack[-1].append(err)
                    rem = None
                    if a != "Any" and (a & accepted) and (a & accepted) != a and is_overload:
                        rem = Obj("ActualArguments", arg=a - accepted)
                    return mk_ret(Obj("AnyValue", source="error"), sig, is_error=True, remaining=rem)
                if a == "Any":
                    return mk_ret(ret_value(frozenset({rlabel})), sig, used_any=(accepted != TOP))
                matched = a & accepted
                if matched == a:
                    return mk_ret(ret_value(frozenset({rlabel})), sig)
                if matched and is_overload and len(a) > 1:
                    return mk_ret(ret_value(frozenset({rlabel})), sig, remaining=Obj("ActualArguments", arg=a - accepted))
                if caught_stack:
                    caught_stack[-1].append(err)
                return mk_ret(Obj("AnyValue", source="error"), sig, is_error=True)

            sig._attrs["bind_arguments"] = bind_arguments
            sig._attrs["check_call_preprocessed"] = check_call_preprocessed
            sig_objs.append(sig)

        def catch_errors():
            lst: List[dict] = []
            caught_stack.append(lst)
            return lst

        def show_error(*args, **kwargs):
            diagnosed.append(args[1] if len(args) > 1 else None)

        visitor = Obj("Visitor", catch_errors=catch_errors, show_error=show_error)
        self_obj = Obj("OverloadedSignature", signatures=tuple(sig_objs), _make_detail=lambda *a: Opaque("detail"))

        def unite(args: List[Any]) -> Any:
            labels: FrozenSet[str] = frozenset()
            for v in args:
                if isinstance(v, Obj) and v._kind == "AnyValue":
                    return v
                labels = labels | v.get("labels", None)
            return ret_value(labels)

        def any_value(args: List[Any]) -> Obj:
            src = args[0].name.split(".")[-1] if args and isinstance(args[0], Sym) else "?"
            return Obj("AnyValue", source=src)

        funcs = {
            "_VisitorBasedContext": lambda args: Opaque("ctx"),
            "preprocess_args": lambda args: Obj("ActualArguments", arg=arg),
            "AnyValue": any_value,
            "unite_values": unite,
        }
        globals_ = {"itertools": Obj("itertools", chain=Obj("chain", from_iterable=lambda x: [z for y in x for z in y]))}
        it = Interp({}, {}, (), funcs, None, self.method_defs, {}, globals_)
        try:
            res = it.call_def(self.check_call, [self_obj, Opaque("args"), visitor, Opaque("node")], self.check_call)
        except Unsupported as u:
            raise AnchorError(f"OverloadedSignature.check_call cannot be modelled: {u}")
        except AssertionFailed as af:
            return True, f"crash: assertion {af}"
        except (PyRaise, ModelError) as e:
            return True, f"crash: {e}"
        if isinstance(res, Obj) and res._kind == "AnyValue":
            return bool(diagnosed), "Any:" + str(res.get("source", None))
        if isinstance(res, Obj) and res._kind == "RetType":
            return bool(diagnosed), res.get("labels", None)
        raise AnchorError(f"check_call returned {res!r} in the model")


# ------------------------------------------------------------------ reference
def own_call(overloads: Sequence[Overload], atom: str) -> Optional[str]:
    """Return label of the first binding overload that accepts the atom, None if none does."""
    for binds, accepted, r, other_fails in overloads:
        if binds and not other_fails and atom in accepted:
            return r
    return None


def overload_sets(max_n: int):
    params = [frozenset(s) for r in (1, 2) for s in itertools.combinations(ATOMS, r)] + [TOP]
    for n in range(2, max_n + 1):
        for ps in itertools.product(params, repeat=n):
            for bs in itertools.product((True, False), repeat=n):
                if sum(bs) == 0 and n > 2:
                    continue
                # distinct return labels, except one variant where the first two share a label
                for same in (False, True):
                    rs = ["R0" if (same and i == 1) else f"R{i}" for i in range(n)]
                    yield tuple((bs[i], ps[i], rs[i], False) for i in range(n))
                # one overload whose other parameter rejects its argument
                if all(bs):
                    for j in range(n):
                        yield tuple((True, ps[i], f"R{i}", i == j) for i in range(n))


def arguments():
    for r in (1, 2, 3):
        for s in itertools.combinations(ATOMS, r):
            yield frozenset(s)
    yield "Any"
