"""Finite model of annotation evaluation (C13): the AST route (annotations._Visitor ->
_type_from_value -> _type_from_subscripted_value), the string route (_eval_forward_ref) and
the runtime route (_type_from_runtime -> _value_of_origin_args) are interpreted from their
AST on a vocabulary of annotation expressions; for the runtime route the expression is
evaluated by CPython itself (typing's own objects are the input, as they are for pyanalyze).
The three resulting Values are compared structurally."""

from __future__ import annotations

import ast
import collections.abc
import contextlib
import dataclasses
import typing
from typing import Any, Dict, Iterator, List, Optional, Sequence, Tuple

import typing_extensions

from ..minterp import AssertionFailed, Interp, ModelError, Obj, Opaque, PyRaise, Sym, Unsupported
from ..model import AnchorError, Program

MODULE_FUNCS = (
    "value_from_ast", "_type_from_ast", "_type_from_runtime", "make_type_var_value", "_callable_args_from_runtime", "_args_from_concatenate",
    "_eval_forward_ref", "_type_from_value", "_type_from_subscripted_value", "_maybe_get_extra", "_is_tuple", "_value_of_origin_args",
    "_maybe_typed_value", "_make_sequence_value", "_make_callable_from_value", "_make_annotated", "_get_typeddict_value",
)
VALUE_CLASSES = (
    "KnownValue", "TypedValue", "GenericValue", "SequenceValue", "SubclassValue", "CallableValue", "AnnotatedValue", "MultiValuedValue", "AnyValue",
    "TypeVarValue", "NewTypeValue", "UnpackedValue", "TypedDictValue", "DictIncompleteValue", "_HashableValue", "TypeAliasValue", "ParamSpecArgsValue",
    "ParamSpecKwargsValue", "_SubscriptedValue", "TypeQualifierValue", "DecoratorValue",
)


def _is_helper(x: Any) -> bool:
    """A Python function attached to a model object as one of its methods (not a payload)."""
    import types

    return isinstance(x, (types.FunctionType, types.MethodType))


def _nkey(x: Any) -> Any:
    """Structural key of a payload: model values by structure, runtime objects by identity
    (typing caches its subscripted forms, and equal literals of one type are one literal)."""
    if isinstance(x, SV):
        return x.key()
    if isinstance(x, Obj):
        return ("obj", x._kind, tuple((k, _nkey(v)) for k, v in sorted(x._attrs.items()) if not _is_helper(v)))
    if isinstance(x, (list, tuple)):
        return (type(x).__name__, tuple(_nkey(y) for y in x))
    if isinstance(x, dict):
        return ("dict", tuple((_nkey(k), _nkey(v)) for k, v in x.items()))
    if isinstance(x, (Sym, Opaque)):
        return ("sym", repr(x))
    if x is None or isinstance(x, (bool, int, float, str, bytes)) or x is Ellipsis:
        return ("lit", type(x).__name__, repr(x))
    return ("py", id(x), repr(x))


class SV(Obj):
    """Model Value with structural equality."""

    def key(self) -> Any:
        if self._kind == "MultiValuedValue":
            # the real MultiValuedValue.__eq__ compares the members as sets
            return (self._kind, tuple(sorted({repr(_nkey(v)) for v in self._attrs["vals"]})))
        return (self._kind, tuple((k, _nkey(v)) for k, v in sorted(self._attrs.items()) if not _is_helper(v)))

    def __eq__(self, other: object) -> bool:
        return isinstance(other, SV) and self.key() == other.key()

    def __ne__(self, other: object) -> bool:
        return not self.__eq__(other)

    def __hash__(self) -> int:
        return hash(repr(self.key()))


def describe(v: Any) -> str:
    if isinstance(v, SV):
        k, a = v._kind, v._attrs
        if k == "KnownValue":
            return f"Literal[{a['val']!r}]"
        if k == "TypedValue":
            t = a["typ"]
            return (t if isinstance(t, str) else getattr(t, "__name__", repr(t))) + ("(literal_only)" if a.get("literal_only") else "")
        if k == "AnyValue":
            return f"Any[{a['source']}]"
        if k == "MultiValuedValue":
            return " | ".join(describe(x) for x in a["vals"]) or "Never"
        if k in ("GenericValue",):
            t = a["typ"]
            return f"{t if isinstance(t, str) else getattr(t, '__name__', repr(t))}[{', '.join(describe(x) for x in a['args'])}]"
        if k == "SequenceValue":
            return f"{getattr(a['typ'], '__name__', a['typ'])}<{', '.join(('*' if m else '') + describe(x) for m, x in a['members'])}>"
        if k == "SubclassValue":
            return f"type[{describe(a['typ'])}]"
        return f"{k}({', '.join(f'{n}={describe(x)}' for n, x in sorted(a.items()) if not _is_helper(x))})"
    if isinstance(v, Obj):
        return f"{v._kind}({', '.join(f'{n}={describe(x)}' for n, x in sorted(v._attrs.items()) if not _is_helper(x))})"
    if isinstance(v, (list, tuple)):
        return "[" + ", ".join(describe(x) for x in v) + "]"
    return repr(v)


class AnnotModel:
    def __init__(self, prog: Program) -> None:
        self.prog = prog
        self.module_defs = {}
        for name in MODULE_FUNCS:
            self.module_defs[name] = prog.func("annotations", name)
        vis = prog.cls("_Visitor")
        self.method_defs = {("_Visitor", m): fn for m, fn in vis.methods.items() if m.startswith("visit_") or m == "generic_visit"}
        # names are resolved the way the runtime-signature route does it: arg_spec.AnnotationsContext.get_name ->
        # Context.get_name_from_globals (module globals, then builtins) -> Context.handle_undefined_name
        base_ctx = prog.classes_by_qual.get("annotations.Context")
        if base_ctx is None:
            raise AnchorError("annotations.Context not found")
        for m in ("get_name_from_globals", "handle_undefined_name", "get_attribute"):
            self.method_defs[("Context", m)] = base_ctx.methods[m]
        ac = prog.classes_by_qual.get("arg_spec.AnnotationsContext")
        if ac is None or "get_name" not in ac.methods:
            raise AnchorError("arg_spec.AnnotationsContext.get_name not found")
        self.method_defs[("Context", "get_name")] = ac.methods["get_name"]
        # class hierarchy of the value classes (for isinstance on model values)
        self.bases: Dict[str, Tuple[str, ...]] = {}
        for name in VALUE_CLASSES:
            try:
                ci = prog.cls(name)
            except AnchorError:
                continue
            self.bases[name] = tuple(ast.unparse(b).split(".")[-1] for b in ci.node.bases)
        self.consts: Dict[str, ast.expr] = {}
        for name in ("CONTEXT_MANAGER_TYPES", "ASYNC_CONTEXT_MANAGER_TYPES"):
            self.consts[name] = prog.module_assign("annotations", name)

    def is_a(self, kind: str, cls: str) -> bool:
        seen = set()
        todo = [kind]
        while todo:
            k = todo.pop()
            if k == cls:
                return True
            if k in seen:
                continue
            seen.add(k)
            todo.extend(self.bases.get(k, ()))
        return False

    # ------------------------------------------------------------------ session
    def _session(self, namespace: Dict[str, Any]) -> Tuple[Interp, Obj, List[str]]:
        errors: List[str] = []

        def sv(_k: str, **attrs: Any) -> SV:
            v = SV(_k)
            v._attrs.update(attrs)
            if _k in VALUE_CLASSES:
                # the routes never ask whether an annotation accepts something; the signature builders do, for defaults
                v._attrs["can_assign"] = lambda other, ctx=None: {}
                v._attrs["is_assignable"] = lambda other, ctx=None: True
            if _k == "SequenceValue":
                v._attrs["get_member_sequence"] = lambda v=v: None if any(m for m, _ in v._attrs["members"]) else [x for _, x in v._attrs["members"]]
            if _k == "UnpackedValue":
                def get_elements(v=v):
                    inner = v._attrs["value"]
                    if isinstance(inner, SV) and inner._kind == "SequenceValue" and inner._attrs["typ"] is tuple:
                        return list(inner._attrs["members"])
                    if isinstance(inner, SV) and inner._kind == "GenericValue" and inner._attrs["typ"] is tuple and len(inner._attrs["args"]) == 1:
                        return [(True, inner._attrs["args"][0])]
                    return None

                v._attrs["get_elements"] = get_elements
            return v

        def kw(f):
            f.wants_kwargs = True
            return f

        def unite(args: List[Any], kwargs: Any = None) -> Any:
            flat: List[Any] = []
            for a in args:
                if isinstance(a, SV) and a._kind == "MultiValuedValue":
                    flat.extend(a._attrs["vals"])
                else:
                    flat.append(a)
            uniq: List[Any] = []
            for a in flat:
                if not any(a == u for u in uniq):
                    uniq.append(a)
            if len(uniq) == 1:
                return uniq[0]
            return sv("MultiValuedValue", vals=tuple(uniq))

        def annotate_value(args: List[Any], kwargs: Any = None) -> Any:
            origin, metadata = args[0], list(args[1])
            if not metadata:
                return origin
            if isinstance(origin, SV) and origin._kind == "AnnotatedValue":
                return sv("AnnotatedValue", value=origin._attrs["value"], metadata=tuple(origin._attrs["metadata"]) + tuple(metadata))
            return sv("AnnotatedValue", value=origin, metadata=tuple(metadata))

        def typed(args: List[Any], kwargs: Any = None) -> Any:
            return sv("TypedValue", typ=args[0], literal_only=bool((kwargs or {}).get("literal_only", args[1] if len(args) > 1 else False)))

        def sig_make(params: Any, return_annotation: Any = None, **kwargs: Any) -> Any:
            return sv("Signature", parameters=tuple(params), return_value=return_annotation, is_asynq=bool(kwargs.get("is_asynq", False)))

        def sig_parameter(args: List[Any], kwargs: Any = None) -> Any:
            d = dict(zip(("name", "kind", "default", "annotation"), args))
            d.update(kwargs or {})
            d.setdefault("kind", Sym("ParameterKind.POSITIONAL_OR_KEYWORD"))
            d.setdefault("default", None)
            d.setdefault("annotation", None)
            return sv("SigParameter", **d)

        def typevar_value(args: List[Any], kwargs: Any = None) -> Any:
            d = {"typevar": args[0], "bound": None, "constraints": (), "default": None, "is_paramspec": False}
            d.update(kwargs or {})
            # a TypeVar made on the fly from an AST is a different object each time: compare by name
            tv = d["typevar"]
            return sv("TypeVarValue", name=getattr(tv, "__name__", repr(tv)), bound=d["bound"], constraints=tuple(d["constraints"]), default=d["default"], is_paramspec=bool(d["is_paramspec"]))

        ellipsis_param = sv("SigParameter", name="...", kind=Sym("ParameterKind.ELLIPSIS"), default=None, annotation=None)
        any_explicit = sv("AnyValue", source=Sym("AnySource.explicit"))
        funcs = {
            "KnownValue": lambda args: sv("KnownValue", val=args[0]),
            "TypedValue": kw(typed),
            "GenericValue": lambda args: sv("GenericValue", typ=args[0], args=tuple(args[1])),
            "SequenceValue": lambda args: sv("SequenceValue", typ=args[0], members=tuple((bool(m), x) for m, x in args[1])),
            "CallableValue": lambda args: sv("CallableValue", signature=args[0]),
            "AnyValue": lambda args: sv("AnyValue", source=args[0]),
            "AnnotatedValue": lambda args: sv("AnnotatedValue", value=args[0], metadata=tuple(args[1])),
            "TypeGuardExtension": lambda args: sv("TypeGuardExtension", guarded_type=args[0]),
            "TypeIsExtension": lambda args: sv("TypeIsExtension", guarded_type=args[0]),
            "TypeQualifierValue": lambda args: sv("TypeQualifierValue", qualifier=args[0], value=args[1]),
            "UnpackedValue": lambda args: sv("UnpackedValue", value=args[0]),
            "NewTypeValue": lambda args: sv("NewTypeValue", newtype=args[0]),
            "_HashableValue": lambda args: sv("_HashableValue", typ=args[0]),
            "_SubscriptedValue": lambda args: sv("_SubscriptedValue", root=args[0], members=tuple(args[1])),
            "DictIncompleteValue": lambda args: sv("DictIncompleteValue", typ=args[0], kv_pairs=tuple(args[1])),
            "KVPair": lambda args: sv("KVPair", key=args[0], value=args[1]),
            "ParamSpecArgsValue": lambda args: sv("ParamSpecArgsValue", param_spec=args[0]),
            "ParamSpecKwargsValue": lambda args: sv("ParamSpecKwargsValue", param_spec=args[0]),
            "TypeVarValue": kw(typevar_value),
            "TypedDictEntry": kw(lambda args, kwargs=None: sv("TypedDictEntry", **{**dict(zip(("typ", "required", "readonly"), args)), **(kwargs or {})})),
            "TypedDictValue": kw(lambda args, kwargs=None: sv("TypedDictValue", items=dict(args[0]), extra_keys=(kwargs or {}).get("extra_keys", args[1] if len(args) > 1 else None), extra_keys_readonly=bool((kwargs or {}).get("extra_keys_readonly", False)))),
            "SigParameter": kw(sig_parameter),
            "unite_values": kw(unite),
            "annotate_value": kw(annotate_value),
            "get_origin": lambda args: typing_extensions.get_origin(args[0]),
            "get_args": lambda args: typing_extensions.get_args(args[0]),
            "cast": lambda args: args[1],
            "get_annotated_types_extension": lambda args: [],
            "TypeVar": lambda args: typing.TypeVar(args[0]),
            "is_typing_name": lambda args: _is_typing_name(args[0], args[1]),
            "is_instance_of_typing_name": lambda args: _is_instance_of_typing_name(args[0], args[1]),
            "is_union": lambda args: _is_typing_name(args[0], "Union") or args[0] is __import__("types").UnionType,
            "type_from_runtime": kw(lambda args, kwargs=None: holder[0].call_def(self.module_defs["_type_from_runtime"], [args[0], ctx], self.module_defs["_type_from_runtime"])),
        }

        def get_name(node: ast.Name) -> Any:
            if node.id in namespace:
                return sv("KnownValue", val=namespace[node.id])
            errors.append(f"Undefined name {node.id!r} used in annotation")
            return sv("AnyValue", source=Sym("AnySource.error"))

        def get_attribute(root_value: Any, node: ast.Attribute) -> Any:
            if isinstance(root_value, SV) and root_value._kind == "KnownValue":
                try:
                    return sv("KnownValue", val=getattr(root_value._attrs["val"], node.attr))
                except AttributeError:
                    errors.append(f"{root_value._attrs['val']!r} has no attribute {node.attr!r}")
                    return sv("AnyValue", source=Sym("AnySource.error"))
            errors.append(f"Cannot resolve annotation {describe(root_value)}")
            return sv("AnyValue", source=Sym("AnySource.error"))

        def show_error(message: Any = None, *a: Any, **k: Any) -> None:
            errors.append(message.label[4:] if isinstance(message, Opaque) and message.label.startswith("str:") else str(message))

        nop_cm = lambda *a, **k: Obj("ContextManager", __enter__=lambda: None, __exit__=lambda exc=None: None)  # noqa: E731
        ctx = Obj(
            "Context", show_error=show_error, is_being_evaluted=lambda obj: False, add_evaluation=nop_cm, suppress_undefined_names=nop_cm,
            globals=namespace, should_suppress_undefined_names=False,
        )

        def make_visitor(args: List[Any]) -> Obj:
            v = Obj("_Visitor", ctx=args[0])

            def visit(node: Any) -> Any:
                it = holder[0]
                md = self.method_defs.get(("_Visitor", "visit_" + type(node).__name__)) or self.method_defs[("_Visitor", "generic_visit")]
                return it.call_def(md, [v, node], md)

            v._attrs["visit"] = visit
            return v

        funcs["_Visitor"] = make_visitor

        def isinstance_hook(v: Any, cls: str) -> Optional[bool]:
            if cls == "Value":
                return isinstance(v, SV)
            if cls in self.bases or cls in VALUE_CLASSES:
                return isinstance(v, SV) and self.is_a(v._kind, cls)
            native = {
                "InitVar": dataclasses.InitVar, "TypeVar": typing.TypeVar, "str": str, "type": type, "list": list, "tuple": tuple, "dict": dict, "int": int, "float": float,
            }
            if cls in native:
                return (not isinstance(v, (Obj, Sym, Opaque))) and isinstance(v, native[cls])
            if cls in ("TypeGuard", "AsynqCallable", "ExternalType", "ParameterTypeGuard", "NoReturnGuard", "HasAttrGuard", "CustomCheck"):
                return False  # classes of pyanalyze.extensions: the vocabulary has no instance of them
            return None

        globals_: Dict[str, Any] = {
            "ast": ast, "typing": typing, "typing_extensions": typing_extensions, "contextlib": contextlib,
            "Callable": collections.abc.Callable, "Hashable": collections.abc.Hashable, "Union": typing.Union, "NewType": typing.NewType, "Literal": typing_extensions.Literal,
            "NoDefault": typing_extensions.NoDefault, "TypedDict": typing_extensions.TypedDict, "ParamSpec": typing_extensions.ParamSpec, "Optional": typing.Optional,
            "AsynqCallable": Sym("AsynqCallable"), "deprecated": Sym("deprecated"), "TypeVar": typing.TypeVar, "InitVar": dataclasses.InitVar, "__native_getattr__": True, "Ellipsis": Ellipsis, "builtins": __import__("builtins"),
            "NO_RETURN_VALUE": sv("MultiValuedValue", vals=()), "SelfTVV": sv("TypeVarValue", name="Self", bound=None, constraints=(), default=None, is_paramspec=False),
            "ELLIPSIS_PARAM": ellipsis_param, "ANY_SIGNATURE": sv("Signature", parameters=(ellipsis_param,), return_value=any_explicit, is_asynq=False),
            "SubclassValue": Obj("class", make=lambda arg, **k: sv("SubclassValue", typ=arg, exactly=bool(k.get("exactly", False)))),
            "Signature": Obj("class", make=sig_make),
        }
        holder: List[Interp] = []
        it = Interp({}, {}, (), funcs, isinstance_hook, self.method_defs, self.module_defs, globals_)
        holder.append(it)
        for name, node in self.consts.items():
            try:
                globals_[name] = it.ev(node)
            except Unsupported as u:
                raise AnchorError(f"annotations.{name} cannot be evaluated: {u}")
        return it, ctx, errors

    def _run(self, fn_name: str, first: Any, namespace: Dict[str, Any], flags: Dict[str, Any]) -> Any:
        it, ctx, errors = self._session(namespace)
        fn = self.module_defs[fn_name]
        try:
            res = it.call_def(fn, [first, ctx], fn, dict(flags))
        except Unsupported as u:
            raise AnchorError(f"annotation evaluation cannot be modelled: {u}")
        except AssertionFailed as af:
            return ("crash", f"assertion {af}"), errors
        except (PyRaise, ModelError) as e:
            return ("crash", str(e)), errors
        return res, errors

    def via_ast(self, src: str, namespace: Dict[str, Any], **flags: Any) -> Any:
        return self._run("_type_from_ast", ast.parse(src, mode="eval").body, namespace, flags)

    def via_string(self, src: str, namespace: Dict[str, Any], **flags: Any) -> Any:
        return self._run("_eval_forward_ref", src, namespace, flags)

    def via_runtime(self, obj: Any, namespace: Dict[str, Any], **flags: Any) -> Any:
        return self._run("_type_from_runtime", obj, namespace, flags)


def _typing_objs(name: str) -> Tuple[Any, ...]:
    out = []
    for mod in (typing, typing_extensions):
        if hasattr(mod, name):
            out.append(getattr(mod, name))
    try:
        import mypy_extensions

        if hasattr(mypy_extensions, name):
            out.append(getattr(mypy_extensions, name))
    except ImportError:
        pass
    return tuple(out)


def _is_typing_name(obj: Any, name: str) -> bool:
    return any(obj is o for o in _typing_objs(name))


def _is_instance_of_typing_name(obj: Any, name: str) -> bool:
    classes = tuple(o for o in _typing_objs(name) if isinstance(o, type))
    return bool(classes) and isinstance(obj, classes)


# ---------------------------------------------------------------- vocabulary
def namespace() -> Dict[str, Any]:
    ns: Dict[str, Any] = {"typing": typing, "typing_extensions": typing_extensions, "collections": __import__("collections")}
    for n in ("Any", "Optional", "Union", "List", "Dict", "Set", "FrozenSet", "Tuple", "Type", "Callable", "Sequence", "Iterable", "Mapping", "Final", "ClassVar", "NoReturn", "Deque", "DefaultDict"):
        ns[n] = getattr(typing, n)
    for n in ("Literal", "Annotated", "TypeGuard", "TypeIs", "Never", "LiteralString", "Required", "NotRequired", "ReadOnly", "Unpack", "Self"):
        ns[n] = getattr(typing_extensions, n)
    # the builtins (int, str, list, ...) are not module globals: they are found through the builtins module
    ns["slice"] = type("slice", (), {"__module__": "checked_module", "lo": 0})  # a class of the module that shadows a builtin
    ns["T"] = typing.TypeVar("T")
    ns["UserId"] = typing.NewType("UserId", int)
    return ns


ATOMS = ("int", "str", "None", "Any", "T", "UserId", "object", "slice")
UNARY = (
    "Optional[{0}]", "List[{0}]", "list[{0}]", "Set[{0}]", "set[{0}]", "FrozenSet[{0}]", "frozenset[{0}]", "Sequence[{0}]", "Iterable[{0}]", "Tuple[{0}]", "tuple[{0}]",
    "Tuple[{0}, ...]", "tuple[{0}, ...]", "Type[{0}]", "type[{0}]", "Final[{0}]", "ClassVar[{0}]", "Annotated[{0}, 'meta']", "TypeGuard[{0}]", "TypeIs[{0}]",
    "Callable[..., {0}]", "Callable[[], {0}]", "typing.List[{0}]", "Deque[{0}]", "{0} | None", "'{0}'", "List['{0}']",
)
BINARY = (
    "Union[{0}, {1}]", "{0} | {1}", "Dict[{0}, {1}]", "dict[{0}, {1}]", "Mapping[{0}, {1}]", "Tuple[{0}, {1}]", "tuple[{0}, {1}]", "Callable[[{0}], {1}]", "Callable[[{0}, {1}], {0}]",
    "DefaultDict[{0}, {1}]", "Optional[Union[{0}, {1}]]", "Tuple[{0}, Unpack[Tuple[{1}, ...]]]", "tuple[{0}, *tuple[{1}, ...]]", "Tuple[*Tuple[{0}, ...], {1}]",
)
CLOSED = (
    "int", "str", "None", "Any", "object", "T", "UserId", "list", "dict", "tuple", "type", "List", "Dict", "Tuple", "Type", "Callable", "NoReturn", "Never", "LiteralString",
    "Literal[1]", "Literal[1, 'a']", "Literal[True]", "Literal[None]", "Literal['a', 'b']", "Literal[-1]", "Tuple[()]", "tuple[()]", "Self", "Set", "FrozenSet", "Sequence", "Literal[Literal[1], 2]", "Literal[Literal[1, 'a'], Literal[None]]",
)
TYPEDDICT_ONLY = ("Required[{0}]", "NotRequired[{0}]", "ReadOnly[{0}]", "Required[ReadOnly[{0}]]")


def vocabulary(depth2: bool = True) -> Iterator[Tuple[str, Dict[str, Any]]]:
    """(expression, flags)"""
    for e in CLOSED:
        yield e, {}
    firsts = list(ATOMS) + ["Literal[1]", "List[int]", "Tuple[int, str]", "Optional[str]", "int | str", "Callable[[int], str]", "Type[int]"]
    for t in UNARY:
        for a in firsts if depth2 else ATOMS:
            if t in ("'{0}'", "List['{0}']") and "'" in a:
                continue
            yield t.format(a), {}
    for t in BINARY:
        for a in ("int", "str", "None", "T", "List[int]", "Literal[1]"):
            for b in ("int", "str", "Any", "Optional[int]", "Tuple[int, ...]"):
                yield t.format(a, b), {}
    for t in TYPEDDICT_ONLY:
        for a in ("int", "Optional[str]", "List[int]"):
            yield t.format(a), {"is_typeddict": True}
            yield t.format(a), {}
    for a in ("Unpack[Tuple[int, str]]", "Unpack[Tuple[int, ...]]"):
        yield a, {"allow_unpack": True}
        yield a, {}


def typeddict_pairs() -> Iterator[Tuple[str, Any, Any]]:
    """(description, TypedDict class with real annotation expressions, the same class with the
    annotations written as strings) - both built by CPython's own TypedDict machinery."""
    TD = typing_extensions.TypedDict
    RO, NR, RQ = typing_extensions.ReadOnly, typing_extensions.NotRequired, typing_extensions.Required
    fields = [
        ("a: int", {"a": int}, {"a": "int"}),
        ("a: ReadOnly[int]", {"a": RO[int]}, {"a": "ReadOnly[int]"}),
        ("a: NotRequired[int]", {"a": NR[int]}, {"a": "NotRequired[int]"}),
        ("a: Required[int]", {"a": RQ[int]}, {"a": "Required[int]"}),
        ("a: NotRequired[ReadOnly[str]]", {"a": NR[RO[str]]}, {"a": "NotRequired[ReadOnly[str]]"}),
        ("a: ReadOnly[NotRequired[str]]", {"a": RO[NR[str]]}, {"a": "ReadOnly[NotRequired[str]]"}),
        ("a: ReadOnly[int], b: str", {"a": RO[int], "b": str}, {"a": "ReadOnly[int]", "b": "str"}),
        ("a: Optional[int]", {"a": typing.Optional[int]}, {"a": "Optional[int]"}),
        ("a: List[ReadOnly... no", None, None),
    ]
    for desc, real, quoted in fields:
        if real is None:
            continue
        for total in (True, False):
            yield f"TypedDict({{{desc}}}, total={total})", TD("TDReal", real, total=total), TD("TDQuoted", quoted, total=total)
