"""C19 - operations on known objects: operator tables and left-then-right fallback."""

from __future__ import annotations

import ast
from typing import Dict, List, Optional, Set, Tuple

from ..fold import Folder, Sym
from ..model import AnchorError, Program, dotted, last_attr, norm, parent, walk_no_nested
from ..report import Check, guard
from .common import calls_in, guards_of, need_locals, returns_of

# language reference 3.3.8 "Emulating numeric types" and 3.3.1 rich comparisons
BINARY = {
    "Add": "add", "Sub": "sub", "Mult": "mul", "Div": "truediv", "Mod": "mod", "Pow": "pow",
    "LShift": "lshift", "RShift": "rshift", "BitOr": "or", "BitXor": "xor", "BitAnd": "and",
    "FloorDiv": "floordiv", "MatMult": "matmul",
}
COMPARE = {"Eq": ("__eq__", "__eq__"), "NotEq": ("__ne__", "__ne__"), "Lt": ("__lt__", "__gt__"), "LtE": ("__le__", "__ge__"), "Gt": ("__gt__", "__lt__"), "GtE": ("__ge__", "__le__")}
UNARY = {"Invert": "__invert__", "UAdd": "__pos__", "USub": "__neg__"}


def r19_1(prog: Program, chk: Check) -> None:
    chk.rule("R19.1", "dunder tables: every ast operator maps to (__op__, __iop__, __rop__) per the data model; reflected comparisons pair lt/gt, le/ge, eq/eq, ne/ne", floor=16)
    f = Folder(prog, "name_check_visitor")
    tab = f.table("BINARY_OPERATION_TO_DESCRIPTION_AND_METHOD")
    rows = {k.last: v for k, v in tab.items() if isinstance(k, Sym)}
    site = "pyanalyze/name_check_visitor.py"
    all_ops = sorted(c.__name__ for c in ast.operator.__subclasses__())
    for op in all_ops:
        stem = BINARY.get(op)
        row = rows.get(op)
        want = (f"__{stem}__", f"__i{stem}__", f"__r{stem}__") if stem else None
        chk.ob(
            "R19.1",
            f"name_check_visitor::BINARY_OPERATION_TO_DESCRIPTION_AND_METHOD::{op}",
            row is not None and want is not None and tuple(row[1:]) == want,
            site,
            f"ast.{op}: table row {row[1:] if row else None}, data model requires {want}",
        )
    for op, (m, r) in COMPARE.items():
        row = rows.get(op)
        chk.ob(
            "R19.1",
            f"name_check_visitor::BINARY_OPERATION_TO_DESCRIPTION_AND_METHOD::{op}",
            row is not None and row[1] == m and row[2] is None and row[3] == r,
            site,
            f"ast.{op}: table row {row[1:] if row else None}; rich comparison is {m} with reflected {r} and no in-place form",
        )
    for op in ("In", "NotIn"):
        row = rows.get(op)
        chk.ob("R19.1", f"name_check_visitor::BINARY_OPERATION_TO_DESCRIPTION_AND_METHOD::{op}", row is not None and row[1] == "__contains__" and row[2] is None and row[3] is None, site, f"ast.{op}: containment has no in-place or reflected method; row {row[1:] if row else None}")
    ut = f.table("UNARY_OPERATION_TO_DESCRIPTION_AND_METHOD")
    urows = {k.last: v for k, v in ut.items() if isinstance(k, Sym)}
    for op, m in UNARY.items():
        row = urows.get(op)
        chk.ob("R19.1", f"name_check_visitor::UNARY_OPERATION_TO_DESCRIPTION_AND_METHOD::{op}", row is not None and row[1] == m, site, f"ast.{op}: row {row}, data model requires {m}")
    vu = prog.func("name_check_visitor", "NameCheckVisitor.visit_UnaryOp")
    chk.ob("R19.1", "name_check_visitor::NameCheckVisitor.visit_UnaryOp::not-handled-separately", "isinstance(node.op, ast.Not)" in norm(vu), prog.site("name_check_visitor", vu), "`not` has no special method and must be handled before the table lookup")


def r19_2(prog: Program, chk: Check) -> None:
    chk.rule("R19.2", "left-then-right fallback: unsupported_operation is reported only when both the direct and the reflected call failed", floor=4)
    fn = prog.func("name_check_visitor", "NameCheckVisitor._visit_binop_no_mvv")
    need_locals(fn, "method", "rmethod", "left_result", "right_result", "left_composite", "right_composite")
    site = prog.site("name_check_visitor", fn)
    # which local holds the errors of the direct / reflected call?
    err_of: Dict[str, str] = {}
    for w in walk_no_nested(fn):
        if isinstance(w, ast.With) and w.items and last_attr(w.items[0].context_expr) == "catch_errors" and isinstance(w.items[0].optional_vars, ast.Name):
            for c in calls_in(w, "_check_dunder_call"):
                if len(c.args) >= 3:
                    err_of[w.items[0].optional_vars.id] = norm(c.args[2])
    direct = [k for k, v in err_of.items() if v == "method"]
    reflected = [k for k, v in err_of.items() if v == "rmethod"]
    chk.ob("R19.2", "name_check_visitor::NameCheckVisitor._visit_binop_no_mvv::both-calls-caught", len(direct) == 1 and len(reflected) == 1, site, "the direct (method) and the reflected (rmethod) dunder calls must each run under catch_errors()")
    if len(direct) != 1 or len(reflected) != 1:
        return
    d, r = direct[0], reflected[0]
    shows = [c for c in calls_in(fn, "show_error", nested=False) if "unsupported_operation" in norm(c)]
    ok = False
    for c in shows:
        gs = {(norm(g), pol) for g, pol in guards_of(c, fn)}
        ok = (d, True) in gs and (r, True) in gs
    chk.ob("R19.2", "name_check_visitor::NameCheckVisitor._visit_binop_no_mvv::error-iff-both-failed", bool(shows) and ok, site, "unsupported_operation must be guarded by both error lists being non-empty")
    # the reflected call swaps the operands
    swapped = False
    for w in walk_no_nested(fn):
        if isinstance(w, ast.With):
            for c in calls_in(w, "_check_dunder_call"):
                if len(c.args) >= 4 and norm(c.args[2]) == "rmethod":
                    swapped = norm(c.args[1]) == "right_composite" and norm(c.args[3]) == "[left_composite]"
    chk.ob("R19.2", "name_check_visitor::NameCheckVisitor._visit_binop_no_mvv::reflected-swaps-operands", swapped, site, "the reflected method must be looked up on the right operand with the left operand as argument")
    rets = {norm(x.value): {(norm(g), pol) for g, pol in guards_of(x, fn)} for x in returns_of(fn) if x.value is not None and norm(x.value) in ("right_result", "left_result")}
    ok = (d, True) in rets.get("right_result", set()) and (d, False) in rets.get("left_result", set())
    chk.ob("R19.2", "name_check_visitor::NameCheckVisitor._visit_binop_no_mvv::result-selection", ok, site, "if only the direct call failed the reflected result is used, otherwise the direct result")


def r19_3(prog: Program, chk: Check) -> None:
    chk.rule("R19.3", "a constant index into a sequence of known length is in range exactly when -n <= k < n (IndexError otherwise); negative indices count from the back", floor=3)
    from .c01 import index_range_rule, r01_f
    from .c01 import _Renamed

    index_range_rule(prog, chk, "R19.3")
    ad = _Renamed(chk, {"R01.f": "R19.3"})
    # same scan-position obligations as C01 R01.f, for sequences with an unpacked part
    class _NoRule:
        def __init__(self, inner): self._i = inner
        def rule(self, *a, **k): pass
        def __getattr__(self, n): return getattr(self._i, n)
    r01_f(prog, _NoRule(ad))  # type: ignore[arg-type]


def r19_4(prog: Program, chk: Check) -> None:
    chk.rule(
        "R19.4",
        "the literal inferred for an operation on known operands is the object produced by performing that operation for this "
        "call: every path that yields the result passes through a call of the callee with these operands (no memo keyed by ==, "
        "under which 1, 1.0 and True are one key)",
        floor=1,
    )
    from ..cfg import CFG

    m = "name_check_visitor"
    fn = prog.func(m, "NameCheckVisitor._check_call_no_mvv")
    res_names = set()
    for n in walk_no_nested(fn):
        if isinstance(n, ast.Assign) and isinstance(n.value, ast.Call) and last_attr(n.value) == "KnownValue" and n.value.args and isinstance(n.value.args[0], ast.Name):
            if any(inbody and "_can_perform_call" in norm(t) for t, inbody in guards_of(n, fn)):
                res_names.add(n.value.args[0].id)
    if not res_names:
        raise AnchorError("_check_call_no_mvv: KnownValue(<result>) under _can_perform_call not found")
    n_ob = 0
    for n in walk_no_nested(fn):
        if not (isinstance(n, ast.Assign) and len(n.targets) == 1 and isinstance(n.targets[0], ast.Name) and n.targets[0].id in res_names):
            continue
        if not any(inbody and "_can_perform_call" in norm(t) for t, inbody in guards_of(n, fn)):
            continue
        v = n.value
        key = f"{m}::NameCheckVisitor._check_call_no_mvv::{n.targets[0].id}"
        n_ob += 1
        if isinstance(v, ast.Call) and norm(v.func) == "callee_wrapped.val":
            chk.ob("R19.4", key + "::performed-directly", any(isinstance(a, ast.Starred) for a in v.args), prog.site(m, n), "the callee must be applied to the operand values")
            continue
        helper = None
        idx = None
        if isinstance(v, ast.Call):
            for i, a in enumerate(v.args):
                if norm(a) == "callee_wrapped.val":
                    idx = i
            nm = last_attr(v)
            if idx is not None and nm:
                if isinstance(v.func, ast.Attribute) and norm(v.func.value) == "self":
                    hf = prog.find_method("NameCheckVisitor", nm)
                    if hf is not None:
                        helper, idx = hf, idx + 1
                elif isinstance(v.func, ast.Name) and prog.has_func(m, nm):
                    helper = prog.func(m, nm)
        if helper is None or idx is None:
            chk.ob("R19.4", key + "::performed", False, prog.site(m, n), f"`{norm(v)[:80]}` is not an application of callee_wrapped.val and not a resolvable helper receiving it")
            continue
        hfn = helper[1] if isinstance(helper, tuple) else helper
        params = [a.arg for a in hfn.args.posonlyargs + hfn.args.args]
        if idx >= len(params):
            raise AnchorError(f"helper {hfn.name}: cannot map the callee argument")
        f = params[idx]
        g = CFG(hfn)
        performing = [st for st in walk_no_nested(hfn) if isinstance(st, ast.stmt) and not isinstance(st, (ast.If, ast.For, ast.While, ast.Try, ast.With)) and any(isinstance(c, ast.Call) and isinstance(c.func, ast.Name) and c.func.id == f for c in ast.walk(st))]
        bad = []
        for r in returns_of(hfn):
            if r.value is None:
                continue
            if r in performing:
                continue
            if not any(g.dominates(p_, r) for p_ in performing):
                bad.append(r.lineno)
        chk.ob("R19.4", key + f"::helper={hfn.name}::every-result-performed", bool(performing) and not bad, prog.site(m, hfn),
               f"helper {hfn.name} can return a result without calling `{f}` (return at line(s) {bad}): a remembered result of an ==-equal but differently typed operand tuple is inferred as the literal")
    if n_ob == 0:
        raise AnchorError("_check_call_no_mvv: assignment of the performed result not found")


# ------------------------------------------------------------------- R19.5
def r19_5(prog: Program, chk: Check) -> None:
    from . import operator_model as omod

    chk.rule(
        "R19.5",
        "operator dispatch on known operands as a finite model: visit_UnaryOp, visit_BinOp, _visit_binop_internal and _visit_binop_no_mvv are interpreted from their AST (operator "
        "tables folded); _check_dunder_call on a known receiver is given its documented contract - it performs type(x).<dunder>(x, *args) and reports an error when the method is "
        "missing, returns NotImplemented or raises TypeError. For 3 unary and 13 binary operators over 12 literal operands (ints, bools, a float, a complex, str, bytes, a tuple, "
        "None, an IntEnum member) CPython evaluates the same expression: an unsupported operation is reported exactly when it raises TypeError, and the inferred literal equals "
        "the result in value and type",
        floor=3,
    )
    model = omod.OperatorModel(prog)
    classes: Dict[str, List[dict]] = {}
    counts: Dict[str, int] = {}
    n = 0

    def note(key: str, bad: bool, d: dict) -> None:
        counts[key] = counts.get(key, 0) + 1
        classes.setdefault(key, [])
        if bad:
            classes[key].append(d)

    for text, node, env, real in omod.expressions():
        try:
            ref = ("value", real())
        except TypeError:
            ref = ("TypeError", None)
        except Exception:  # noqa: BLE001 - ZeroDivisionError, OverflowError ...: outside the property
            continue
        n += 1
        r = model.evaluate(node, env)
        kind = "unary" if isinstance(node, ast.UnaryOp) else "binary"
        d = {"expression": text}
        if r[0] == "crash":
            note(f"{kind}::no-crash", True, {**d, "error": r[1]})
            continue
        note(f"{kind}::no-crash", False, d)
        (rk, val), msgs = r
        if ref[0] == "TypeError":
            note(f"{kind}::reported exactly when CPython raises TypeError", not msgs, {**d, "cpython": "TypeError", "messages": msgs})
        else:
            note(f"{kind}::reported exactly when CPython raises TypeError", bool(msgs), {**d, "cpython": repr(ref[1]), "messages": msgs[:2]})
            same = rk == "literal" and type(val) is type(ref[1]) and (val == ref[1] or (val != val and ref[1] != ref[1]))
            note(f"{kind}::the inferred literal is the result, in value and type", not msgs and not same, {**d, "cpython": repr(ref[1]), "inferred": repr(val) if rk == "literal" else rk})
    chk.model_evaluations += n
    chk.analysed["operator_model"] = {"expressions": n}
    site = prog.site("name_check_visitor", prog.func("name_check_visitor", "NameCheckVisitor._visit_binop_no_mvv"))
    for k, bad in sorted(classes.items()):
        bad.sort(key=lambda x: (len(x["expression"]), repr(x)))
        chk.ob("R19.5", f"name_check_visitor::operator-model::{k}", not bad, site, f"{counts[k]} expressions, {len(bad)} failing" + (f"; smallest: {bad[0]}" if bad else ""), witness=bad[:5])


# ------------------------------------------------------------------- R19.6
def r19_6(prog: Program, chk: Check) -> None:
    from . import attribute_model as amod

    chk.rule(
        "R19.6",
        "attribute lookup on known objects as a finite model: attributes.get_attribute, _get_attribute_from_known, KnownAttributeHook.get_attribute with _default_transformer and "
        "_get_attribute_from_mro are interpreted from their AST on 14 real objects (numbers, str, bytes, a tuple, None, classes, a module, an enum member and its class, a user class "
        "and an instance with a property) x 19 attribute names; typeshed and annotation lookups are switched off. CPython's getattr is the reference: the attribute is missing "
        "exactly when getattr raises AttributeError, and an inferred literal is the object getattr returns",
        floor=3,
    )
    model = amod.AttributeModel(prog)
    classes: Dict[str, List[dict]] = {}
    counts: Dict[str, int] = {}
    n = 0

    def note(key: str, bad: bool, d: dict) -> None:
        counts[key] = counts.get(key, 0) + 1
        classes.setdefault(key, [])
        if bad:
            classes[key].append(d)

    for name, obj in amod.OBJECTS:
        for attr in amod.ATTRS:
            n += 1
            ref = amod.reference(obj, attr)
            r = model.lookup(obj, attr)
            d = {"expression": f"{name}.{attr}"}
            if r[0] == "crash":
                note("no-crash", True, {**d, "error": r[1]})
                continue
            note("no-crash", False, d)
            if ref[0] == "AttributeError":
                key = "an attribute CPython does not find is reported as missing"
                if isinstance(obj, type) and issubclass(obj, __import__("enum").Enum) and attr in ("name", "value"):
                    key += "::member-only attributes of an enum class"
                note(key, r[0] != "missing", {**d, "result": r[0] if r[0] != "literal" else repr(r[1])[:60]})
            else:
                note("an attribute CPython finds is not reported", r[0] == "missing", d)
                if r[0] == "literal":
                    note("an inferred literal is the object getattr returns", not (r[1] is ref[1] or r[1] == ref[1]), {**d, "inferred": repr(r[1])[:60], "actual": repr(ref[1])[:60]})
    chk.model_evaluations += n
    chk.analysed["attribute_model"] = {"lookups": n}
    site = prog.site("attributes", prog.func("attributes", "_get_attribute_from_mro"))
    for k, bad in sorted(classes.items()):
        bad.sort(key=lambda x: (len(x["expression"]), repr(x)))
        chk.ob("R19.6", f"attributes::attribute-model::{k}", not bad, site, f"{counts[k]} lookups, {len(bad)} failing" + (f"; smallest: {bad[0]}" if bad else ""), witness=bad[:5])


def run(prog: Program, chk: Check) -> None:
    guard(chk, r19_1, prog, chk)
    guard(chk, r19_2, prog, chk)
    guard(chk, r19_3, prog, chk)
    guard(chk, r19_4, prog, chk)
    guard(chk, r19_5, prog, chk)
    guard(chk, r19_6, prog, chk)
