"""C19 - operations on known objects: operator tables and left-then-right fallback."""

from __future__ import annotations

import ast
from typing import Dict, List, Optional, Set, Tuple

from ..fold import Folder, Sym
from ..model import AnchorError, Program, dotted, last_attr, norm, parent, walk_no_nested
from ..report import Check
from .common import calls_in, guards_of, need_locals, returns_of

# language reference 3.3.8 "Emulating numeric types" and 3.3.1 rich comparisons
BINARY = {
    "Add": "add", "Sub": "sub", "Mult": "mul", "Div": "truediv", "Mod": "mod", "Pow": "pow",
    "LShift": "lshift", "RShift": "rshift", "BitOr": "or", "BitXor": "xor", "BitAnd": "and",
    "FloorDiv": "floordiv", "MatMult": "matmul",
}
COMPARE = {"Eq": ("__eq__", "__eq__"), "NotEq": ("__ne__", "__ne__"), "Lt": ("__lt__", "__gt__"), "LtE": ("__le__", "__ge__"), "Gt": ("__gt__", "__lt__"), "GtE": ("__ge__", "__le__")}
UNARY = {"Invert": "__invert__", "UAdd": "__pos__", "USub": "__neg__"}


def r19_1(prog: Program, chk: Check) -> None:
    chk.rule("R19.1", "dunder tables: every ast operator maps to (__op__, __iop__, __rop__) per the data model; reflected comparisons pair lt/gt, le/ge, eq/eq, ne/ne", floor=16)
    f = Folder(prog, "name_check_visitor")
    tab = f.table("BINARY_OPERATION_TO_DESCRIPTION_AND_METHOD")
    rows = {k.last: v for k, v in tab.items() if isinstance(k, Sym)}
    site = "pyanalyze/name_check_visitor.py"
    all_ops = sorted(c.__name__ for c in ast.operator.__subclasses__())
    for op in all_ops:
        stem = BINARY.get(op)
        row = rows.get(op)
        want = (f"__{stem}__", f"__i{stem}__", f"__r{stem}__") if stem else None
        chk.ob(
            "R19.1",
            f"name_check_visitor::BINARY_OPERATION_TO_DESCRIPTION_AND_METHOD::{op}",
            row is not None and want is not None and tuple(row[1:]) == want,
            site,
            f"ast.{op}: table row {row[1:] if row else None}, data model requires {want}",
        )
    for op, (m, r) in COMPARE.items():
        row = rows.get(op)
        chk.ob(
            "R19.1",
            f"name_check_visitor::BINARY_OPERATION_TO_DESCRIPTION_AND_METHOD::{op}",
            row is not None and row[1] == m and row[2] is None and row[3] == r,
            site,
            f"ast.{op}: table row {row[1:] if row else None}; rich comparison is {m} with reflected {r} and no in-place form",
        )
    for op in ("In", "NotIn"):
        row = rows.get(op)
        chk.ob("R19.1", f"name_check_visitor::BINARY_OPERATION_TO_DESCRIPTION_AND_METHOD::{op}", row is not None and row[1] == "__contains__" and row[2] is None and row[3] is None, site, f"ast.{op}: containment has no in-place or reflected method; row {row[1:] if row else None}")
    ut = f.table("UNARY_OPERATION_TO_DESCRIPTION_AND_METHOD")
    urows = {k.last: v for k, v in ut.items() if isinstance(k, Sym)}
    for op, m in UNARY.items():
        row = urows.get(op)
        chk.ob("R19.1", f"name_check_visitor::UNARY_OPERATION_TO_DESCRIPTION_AND_METHOD::{op}", row is not None and row[1] == m, site, f"ast.{op}: row {row}, data model requires {m}")
    vu = prog.func("name_check_visitor", "NameCheckVisitor.visit_UnaryOp")
    chk.ob("R19.1", "name_check_visitor::NameCheckVisitor.visit_UnaryOp::not-handled-separately", "isinstance(node.op, ast.Not)" in norm(vu), prog.site("name_check_visitor", vu), "`not` has no special method and must be handled before the table lookup")


def r19_2(prog: Program, chk: Check) -> None:
    chk.rule("R19.2", "left-then-right fallback: unsupported_operation is reported only when both the direct and the reflected call failed", floor=4)
    fn = prog.func("name_check_visitor", "NameCheckVisitor._visit_binop_no_mvv")
    need_locals(fn, "method", "rmethod", "left_result", "right_result", "left_composite", "right_composite")
    site = prog.site("name_check_visitor", fn)
    # which local holds the errors of the direct / reflected call?
    err_of: Dict[str, str] = {}
    for w in walk_no_nested(fn):
        if isinstance(w, ast.With) and w.items and last_attr(w.items[0].context_expr) == "catch_errors" and isinstance(w.items[0].optional_vars, ast.Name):
            for c in calls_in(w, "_check_dunder_call"):
                if len(c.args) >= 3:
                    err_of[w.items[0].optional_vars.id] = norm(c.args[2])
    direct = [k for k, v in err_of.items() if v == "method"]
    reflected = [k for k, v in err_of.items() if v == "rmethod"]
    chk.ob("R19.2", "name_check_visitor::NameCheckVisitor._visit_binop_no_mvv::both-calls-caught", len(direct) == 1 and len(reflected) == 1, site, "the direct (method) and the reflected (rmethod) dunder calls must each run under catch_errors()")
    if len(direct) != 1 or len(reflected) != 1:
        return
    d, r = direct[0], reflected[0]
    shows = [c for c in calls_in(fn, "show_error", nested=False) if "unsupported_operation" in norm(c)]
    ok = False
    for c in shows:
        gs = {(norm(g), pol) for g, pol in guards_of(c, fn)}
        ok = (d, True) in gs and (r, True) in gs
    chk.ob("R19.2", "name_check_visitor::NameCheckVisitor._visit_binop_no_mvv::error-iff-both-failed", bool(shows) and ok, site, "unsupported_operation must be guarded by both error lists being non-empty")
    # the reflected call swaps the operands
    swapped = False
    for w in walk_no_nested(fn):
        if isinstance(w, ast.With):
            for c in calls_in(w, "_check_dunder_call"):
                if len(c.args) >= 4 and norm(c.args[2]) == "rmethod":
                    swapped = norm(c.args[1]) == "right_composite" and norm(c.args[3]) == "[left_composite]"
    chk.ob("R19.2", "name_check_visitor::NameCheckVisitor._visit_binop_no_mvv::reflected-swaps-operands", swapped, site, "the reflected method must be looked up on the right operand with the left operand as argument")
    rets = {norm(x.value): {(norm(g), pol) for g, pol in guards_of(x, fn)} for x in returns_of(fn) if x.value is not None and norm(x.value) in ("right_result", "left_result")}
    ok = (d, True) in rets.get("right_result", set()) and (d, False) in rets.get("left_result", set())
    chk.ob("R19.2", "name_check_visitor::NameCheckVisitor._visit_binop_no_mvv::result-selection", ok, site, "if only the direct call failed the reflected result is used, otherwise the direct result")


def run(prog: Program, chk: Check) -> None:
    r19_1(prog, chk)
    r19_2(prog, chk)
