"""Finite model of call checking (C06) for non-generic functions: the whole stack
Signature.check_call_preprocessed -> bind_arguments -> check_call_with_bound_args
-> _check_param_type_compatibility -> can_assign_and_used_any -> the can_assign
methods and TypeObject (as in assign_model) is interpreted from the AST on
signatures with nominal parameter types and calls with literal arguments, and the
verdict is compared with "binds, and every argument belongs to the declared type of
the parameter it binds to"."""

from __future__ import annotations

import ast
import itertools
from typing import Any, Dict, FrozenSet, Iterator, List, Optional, Sequence, Tuple

from ..minterp import AssertionFailed, Interp, ModelError, Obj, Opaque, PyRaise, Sym, Unsupported
from ..model import AnchorError, Program
from . import assign_model as amod
from .binder_model import KO, PO, POK

ARG_OBJECTS: Tuple[Any, ...] = (1, True, "a", 1.5, None)
ANNOTATIONS = ("int", "str", "float", "object", "int|str", "Literal[1]", None)  # None = unannotated
# (kind, has_default, annotation)
CParam = Tuple[str, bool, Any]


class CallModel:
    def __init__(self, prog: Program) -> None:
        self.prog = prog
        self.am = amod.AssignModel(prog)
        f = lambda q: prog.func("signature", q)  # noqa: E731
        self.sig_methods = {
            name: f(f"Signature.{name}")
            for name in ("check_call_preprocessed", "bind_arguments", "check_call_with_bound_args", "_check_param_type_compatibility", "get_default_return", "show_call_error")
        }
        self.can_assign_and_used_any = prog.func("value", "can_assign_and_used_any")

    def annotation(self, a: Any) -> Any:
        am = self.am
        if a is None:
            return self.unannotated
        return {
            "int": lambda: am.typed(int), "str": lambda: am.typed(str), "float": lambda: am.typed(float), "object": lambda: am.typed(object),
            "int|str": lambda: am.union([am.typed(int), am.typed(str)]), "Literal[1]": lambda: am.known(1),
        }[a]()

    def run(self, params: Sequence[CParam], positionals: Sequence[Any], keywords: Dict[str, Any], evaluator_probe: Optional[List[Any]] = None) -> Any:
        """-> (is_error, [messages]) or ("crash", why).  A parameter's has_default may be "..." (the default is
        the Ellipsis literal).  With evaluator_probe (a list) the signature gets an evaluator that records the
        variables and positions handed to it."""
        am = self.am
        self.unannotated = amod.V("AnyValue", source=Sym("AnySource.unannotated"))
        errors: List[str] = []
        used_any = [False]

        def reset_any_used():
            saved: List[bool] = []
            return Obj("ContextManager", __enter__=lambda: (saved.append(used_any[0]), used_any.__setitem__(0, False))[0], __exit__=lambda exc=None: used_any.__setitem__(0, saved.pop()))

        cactx = Obj("CanAssignContext", should_exclude_any=lambda: False, record_any_used=lambda: used_any.__setitem__(0, True), has_used_any_match=lambda: used_any[0], reset_any_used=reset_any_used)
        it = am._interp(cactx)
        cactx._attrs["make_type_object"] = lambda typ: am.type_object(typ, it)

        def attach(v: Any) -> Any:
            if isinstance(v, amod.V):
                if v._kind == "TypedValue":
                    v._attrs["get_type_object"] = lambda c=None, v=v: am.type_object(v._attrs["typ"], it)
                elif v._kind == "KnownValue":
                    v._attrs["get_type_object"] = lambda c=None, v=v: am.type_object(type(v._attrs["val"]), it)
                elif v._kind == "MultiValuedValue":
                    for x in v._attrs["vals"]:
                        attach(x)
            return v

        def on_error(*args: Any, **kwargs: Any) -> None:
            m = args[0] if args else None
            errors.append(m.label[4:] if isinstance(m, Opaque) and m.label.startswith("str:") else str(m))

        ctx = Obj("CheckCallContext", visitor=None, can_assign_ctx=cactx, on_error=on_error, node=None)
        sig_params: Dict[str, Obj] = {}
        for i, (kind, has_default, ann) in enumerate(params):
            name = f"p{i}"
            sig_params[name] = Obj(
                "SigParameter", name=name, kind=Sym(f"ParameterKind.{kind}"),
                default=(attach(am.known(Ellipsis)) if has_default == "..." else attach(am.known(1))) if has_default else None,  # an ill-typed default is exempt; an equal explicit argument is not
                annotation=attach(self.annotation(ann)), is_unnamed=lambda: False,
            )
        ret = amod.V("TypedValue", typ=bytes, literal_only=False)
        sig = Obj(
            "Signature", parameters=sig_params, callable=None, return_value=ret, all_typevars=set(), typevars_of_params={}, _return_key="%return",
            impl=None, evaluator=None, allow_call=False, is_asynq=False,
        )
        sig._attrs["_apply_annotated_constraints"] = lambda raw_return, composites, ctx_: raw_return
        if evaluator_probe is not None:
            sig._attrs["evaluator"] = Obj("Evaluator", evaluate=lambda ectx: (ret, []))
            it.funcs["EvalContext"] = lambda args: (evaluator_probe.append((dict(args[0]), dict(args[1]))), Obj("EvalContext"))[1]

        def composite(args, kwargs=None):
            return Obj("Composite", value=args[0], varname=(args[1] if len(args) > 1 else None), node=(args[2] if len(args) > 2 else None))

        composite.wants_kwargs = True  # type: ignore[attr-defined]

        def call_return(args, kwargs=None):
            d = dict(zip(("return_value", "sig", "is_error", "used_any_for_match", "remaining_arguments"), args))
            d.update(kwargs or {})
            for k, dv in (("is_error", False), ("used_any_for_match", False), ("remaining_arguments", None), ("sig", None)):
                d.setdefault(k, dv)
            return Obj("CallReturn", **d)

        call_return.wants_kwargs = True  # type: ignore[attr-defined]
        it.funcs.update({"Composite": composite, "CallReturn": call_return, "AnyValue": lambda args: amod.V("AnyValue", source=args[0] if args else None), "KnownValue": lambda args: attach(am.known(args[0]))})
        old_err = it.funcs["CanAssignError"]
        it.funcs["CanAssignError"] = lambda args: Obj("CanAssignError", message=str(args[0]) if args else "", get_error_code=lambda: None)
        for name, fn in self.sig_methods.items():
            it.method_defs[("Signature", name)] = fn
        it.module_defs["can_assign_and_used_any"] = self.can_assign_and_used_any
        it.globals["UNANNOTATED"] = self.unannotated
        for m in ("DEFAULT", "ARGS", "KWARGS", "UNKNOWN", "ELLIPSIS_COMPOSITE", "ELLIPSIS"):
            it.globals[m] = Sym(m)
        actual = Obj(
            "ActualArguments",
            positionals=[(True, composite([attach(am.known(o))])) for o in positionals],
            star_args=None,
            keywords={k: (True, composite([attach(am.known(o))])) for k, o in keywords.items()},
            star_kwargs=None, kwargs_required=False, pos_or_keyword_params=frozenset(), min_star_args=0, ellipsis=False, param_spec=None,
        )
        fn = self.sig_methods["check_call_preprocessed"]
        try:
            res = it.call_def(fn, [sig, actual, ctx], fn)
        except Unsupported as u:
            raise AnchorError(f"call checking cannot be modelled: {u}")
        except AssertionFailed as af:
            return ("crash", f"assertion {af}")
        except (PyRaise, ModelError) as e:
            return ("crash", str(e))
        if not (isinstance(res, Obj) and res._kind == "CallReturn"):
            raise AnchorError(f"check_call_preprocessed returned {res!r} in the model")
        return bool(res.get("is_error", None)), errors, res.get("return_value", None) is ret


# ------------------------------------------------------------------ reference
def member(o: Any, ann: Any) -> bool:
    if ann is None or ann == "object":
        return True
    if ann == "int":
        return isinstance(o, int)
    if ann == "str":
        return isinstance(o, str)
    if ann == "float":
        return isinstance(o, (float, int))
    if ann == "int|str":
        return isinstance(o, (int, str))
    if ann == "Literal[1]":
        return type(o) is int and o == 1
    raise KeyError(ann)


def reference(params: Sequence[CParam], positionals: Sequence[Any], keywords: Dict[str, Any]) -> str:
    """"ok" | "binding-error" | "argument-not-in-declared-type"."""
    pos_params = [i for i, (k, _, _) in enumerate(params) if k in (PO, POK)]
    if len(positionals) > len(pos_params):
        return "binding-error"
    bound: Dict[int, Any] = {}
    for i, o in zip(pos_params, positionals):
        bound[i] = o
    names = {f"p{i}": i for i, (k, _, _) in enumerate(params) if k in (POK, KO)}
    for k, o in keywords.items():
        if k not in names or names[k] in bound:
            return "binding-error"
        bound[names[k]] = o
    for i, (k, d, _) in enumerate(params):
        if i not in bound and not d:
            return "binding-error"
    for i, o in bound.items():
        if not member(o, params[i][2]):
            return "argument-not-in-declared-type"
    return "ok"


def signatures(max_n: int) -> Iterator[Tuple[CParam, ...]]:
    for n in range(1, max_n + 1):
        for kinds in itertools.product((PO, POK, KO), repeat=n):
            if list(kinds) != sorted(kinds, key=(PO, POK, KO).index):
                continue
            for defaults in itertools.product((False, True), repeat=n):
                # positional defaults form a suffix
                posd = [d for k, d in zip(kinds, defaults) if k != KO]
                if any(a and not b for a, b in zip(posd, posd[1:])):
                    continue
                for anns in itertools.product(ANNOTATIONS if n == 1 else ANNOTATIONS[:5] + (None,), repeat=n):
                    yield tuple(zip(kinds, defaults, anns))


def calls(params: Sequence[CParam], objects: Sequence[Any] = ARG_OBJECTS) -> Iterator[Tuple[Tuple[Any, ...], Dict[str, Any]]]:
    n = len(params)
    names = [f"p{i}" for i in range(n)]
    for npos in range(0, n + 2):
        for pos in itertools.product(objects, repeat=npos) if npos <= 2 else [(1, 1, 1)]:
            for r in range(0, min(2, n) + 1):
                for kws in itertools.combinations(names, r):
                    for vals in itertools.product(objects[:3], repeat=r):
                        yield tuple(pos), dict(zip(kws, vals))


# ------------------------------------------------------------------ generic functions
class _B(Obj):
    """Bound object (LowerBound / UpperBound / IsOneOf) with the equality of the frozen dataclasses."""

    def key(self) -> Any:
        a = self._attrs
        if self._kind == "IsOneOf":
            return (self._kind, repr(a["typevar"]), tuple(x.key() for x in a["constraints"]))
        return (self._kind, repr(a["typevar"]), a["value"].key())

    def __eq__(self, other: object) -> bool:
        return isinstance(other, _B) and self.key() == other.key()

    def __ne__(self, other: object) -> bool:
        return not self.__eq__(other)

    def __hash__(self) -> int:
        return hash(self.key())


_orig_vkey = amod.V.key


def _vkey(self: Any) -> Any:
    if self._kind == "TypeVarValue":
        a = self._attrs
        return ("TV", repr(a["typevar"]), None if a["bound"] is None else a["bound"].key(), tuple(x.key() for x in a["constraints"]))
    return _orig_vkey(self)


amod.V.key = _vkey  # type: ignore[method-assign]

# annotation kinds of the generic model: a plain class, or a type variable
GENERIC_ANNOTATIONS = ("T", "C", "B", "int", "str")


class GenericCallModel(CallModel):
    """check_call_with_bound_args for functions whose parameters mention a type variable: on top of
    CallModel, TypeVarValue.can_assign / make_bounds_map / get_inherent_bounds / substitute_typevars,
    unify_bounds_maps, resolve_bounds_map and solve (with remove_redundant_solutions) are interpreted."""

    def __init__(self, prog: Program) -> None:
        super().__init__(prog)
        tv = prog.cls("TypeVarValue")
        self.tv_methods = {name: tv.methods[name] for name in ("can_assign", "make_bounds_map", "get_inherent_bounds", "substitute_typevars", "get_fallback_value")}
        self.generic_module_defs = {
            "unify_bounds_maps": prog.func("value", "unify_bounds_maps"),
            "resolve_bounds_map": prog.func("typevar", "resolve_bounds_map"),
            "solve": prog.func("typevar", "solve"),
        }
        if prog.has_func("typevar", "remove_redundant_solutions"):
            self.generic_module_defs["remove_redundant_solutions"] = prog.func("typevar", "remove_redundant_solutions")

    def typevar(self, kind: str) -> Any:
        am = self.am
        return amod.V(
            "TypeVarValue", typevar=Sym(f"~{kind}"), bound=am.typed(int) if kind == "B" else None, default=None,
            constraints=(am.typed(int), am.typed(str)) if kind == "C" else (), is_paramspec=False, is_typevartuple=False,
        )

    def run_generic(self, anns: Sequence[str], returns_typevar: bool, positionals: Sequence[Any]) -> Any:
        """Positional-or-keyword parameters p0.. annotated with anns, called with literal positionals.
        -> (is_error, [messages]) or ("crash", why)"""
        am = self.am
        self.unannotated = amod.V("AnyValue", source=Sym("AnySource.unannotated"))
        errors: List[str] = []
        used_any = [False]

        def reset_any_used():
            saved: List[bool] = []
            return Obj("ContextManager", __enter__=lambda: (saved.append(used_any[0]), used_any.__setitem__(0, False))[0], __exit__=lambda exc=None: used_any.__setitem__(0, saved.pop()))

        cactx = Obj("CanAssignContext", should_exclude_any=lambda: False, record_any_used=lambda: used_any.__setitem__(0, True), has_used_any_match=lambda: used_any[0], reset_any_used=reset_any_used)
        it = am._interp(cactx)
        cactx._attrs["make_type_object"] = lambda typ: am.type_object(typ, it)
        it.syms = tuple(it.syms) + ("BOTTOM", "TOP")

        def attach(v: Any) -> Any:
            if isinstance(v, amod.V):
                if v._kind == "TypedValue":
                    v._attrs["get_type_object"] = lambda c=None, v=v: am.type_object(v._attrs["typ"], it)
                elif v._kind == "KnownValue":
                    v._attrs["get_type_object"] = lambda c=None, v=v: am.type_object(type(v._attrs["val"]), it)
                elif v._kind == "MultiValuedValue":
                    for x in v._attrs["vals"]:
                        attach(x)
                elif v._kind == "TypeVarValue":
                    if v._attrs["bound"] is not None:
                        attach(v._attrs["bound"])
                    for c in v._attrs["constraints"]:
                        attach(c)
                if v._kind != "TypeVarValue":
                    v._attrs.setdefault("substitute_typevars", lambda typevars, v=v: v)
            return v

        def on_error(*args: Any, **kwargs: Any) -> None:
            m = args[0] if args else None
            errors.append(m.label[4:] if isinstance(m, Opaque) and m.label.startswith("str:") else str(m))

        ctx = Obj("CheckCallContext", visitor=None, can_assign_ctx=cactx, on_error=on_error, node=None)
        tvs = {k: self.typevar(k) for k in ("T", "C", "B")}
        sig_params: Dict[str, Obj] = {}
        typevars_of_params: Dict[str, List[Any]] = {}
        for i, ann in enumerate(anns):
            name = f"p{i}"
            a = tvs[ann] if ann in tvs else self.annotation(ann)
            if ann in tvs:
                typevars_of_params[name] = [a._attrs["typevar"]]
            sig_params[name] = Obj("SigParameter", name=name, kind=Sym("ParameterKind.POSITIONAL_OR_KEYWORD"), default=None, annotation=attach(a), is_unnamed=lambda: False)
        used = [a for a in anns if a in tvs]
        ret = attach(tvs[used[0]]) if (returns_typevar and used) else attach(am.known(None))
        if returns_typevar and used:
            typevars_of_params["%return"] = [tvs[used[0]]._attrs["typevar"]]
        sig = Obj(
            "Signature", parameters=sig_params, callable=None, return_value=ret, all_typevars={tvs[a]._attrs["typevar"] for a in used}, typevars_of_params=typevars_of_params,
            _return_key="%return", impl=None, evaluator=None, allow_call=False, is_asynq=False,
        )
        sig._attrs["_apply_annotated_constraints"] = lambda raw_return, composites, ctx_: raw_return

        def composite(args, kwargs=None):
            return Obj("Composite", value=args[0], varname=(args[1] if len(args) > 1 else None), node=(args[2] if len(args) > 2 else None))

        composite.wants_kwargs = True  # type: ignore[attr-defined]

        def call_return(args, kwargs=None):
            d = dict(zip(("return_value", "sig", "is_error", "used_any_for_match", "remaining_arguments"), args))
            d.update(kwargs or {})
            for k, dv in (("is_error", False), ("used_any_for_match", False), ("remaining_arguments", None), ("sig", None)):
                d.setdefault(k, dv)
            return Obj("CallReturn", **d)

        call_return.wants_kwargs = True  # type: ignore[attr-defined]

        def mk_error(args, kwargs=None):
            kw = kwargs or {}
            return Obj("CanAssignError", message=str(args[0]) if args else "", children=list(args[1]) if len(args) > 1 else list(kw.get("children", [])), get_error_code=lambda: None)

        mk_error.wants_kwargs = True  # type: ignore[attr-defined]
        base_hook = it.isinstance_hook

        def isinstance_hook(v: Any, cls: str) -> Optional[bool]:
            if cls in ("LowerBound", "UpperBound", "IsOneOf", "OrBound"):
                return isinstance(v, Obj) and v._kind == cls
            return base_hook(v, cls)

        it.isinstance_hook = isinstance_hook
        it.funcs.pop("unify_bounds_maps", None)  # the nominal model stubs it; here the real one is interpreted
        it.funcs.update({
            "Composite": composite, "CallReturn": call_return, "CanAssignError": mk_error,
            "AnyValue": lambda args: attach(amod.V("AnyValue", source=args[0] if args else None)),
            "LowerBound": lambda args: _B("LowerBound", typevar=args[0], value=args[1]),
            "UpperBound": lambda args: _B("UpperBound", typevar=args[0], value=args[1]),
            "IsOneOf": lambda args: _B("IsOneOf", typevar=args[0], constraints=tuple(args[1])),
            "is_instance_of_typing_name": lambda args: False,
            "all_of_type": lambda args: all(isinstance(x, Obj) and x._kind == (args[1].label if isinstance(args[1], Opaque) else str(args[1])) for x in args[0]),
            "unite_values": lambda args: attach(am.union(list(args))) if len(args) != 1 else args[0],
        })
        for name, fn in self.sig_methods.items():
            it.method_defs[("Signature", name)] = fn
        for name, fn in self.tv_methods.items():
            it.method_defs[("TypeVarValue", name)] = fn
        it.module_defs["can_assign_and_used_any"] = self.can_assign_and_used_any
        it.module_defs.update(self.generic_module_defs)
        it.globals["UNANNOTATED"] = self.unannotated
        it.globals["pyanalyze"] = Obj("pyanalyze", typevar=Obj("typevar", resolve_bounds_map=lambda bounds_map, c=None, **kw: it.call_def(self.generic_module_defs["resolve_bounds_map"], [bounds_map, c], self.generic_module_defs["resolve_bounds_map"], kw)))
        for m in ("DEFAULT", "ARGS", "KWARGS", "UNKNOWN", "ELLIPSIS_COMPOSITE", "ELLIPSIS"):
            it.globals[m] = Sym(m)
        actual = Obj(
            "ActualArguments", positionals=[(True, composite([attach(am.known(o))])) for o in positionals], star_args=None, keywords={}, star_kwargs=None, kwargs_required=False,
            pos_or_keyword_params=frozenset(), min_star_args=0, ellipsis=False, param_spec=None,
        )
        fn = self.sig_methods["check_call_preprocessed"]
        try:
            res = it.call_def(fn, [sig, actual, ctx], fn)
        except Unsupported as u:
            raise AnchorError(f"generic call checking cannot be modelled: {u}")
        except AssertionFailed as af:
            return ("crash", f"assertion {af}")
        except (PyRaise, ModelError) as e:
            return ("crash", str(e))
        if not (isinstance(res, Obj) and res._kind == "CallReturn"):
            raise AnchorError(f"check_call_preprocessed returned {res!r} in the model")
        return bool(res.get("is_error", None)), errors


def generic_reference(anns: Sequence[str], positionals: Sequence[Any]) -> str:
    """"ok" | "binding-error" | "argument-not-in-declared-type" | "no-solution-for-a-type-variable"."""
    if len(positionals) != len(anns):
        return "binding-error"
    by_tv: Dict[str, List[Any]] = {}
    for a, o in zip(anns, positionals):
        if a in ("T", "C", "B"):
            by_tv.setdefault(a, []).append(o)
        elif not member(o, a):
            return "argument-not-in-declared-type"
    for tv, objs in by_tv.items():
        if tv == "B" and not all(isinstance(o, int) for o in objs):
            return "no-solution-for-a-type-variable"
        if tv == "C" and not (all(isinstance(o, int) for o in objs) or all(isinstance(o, str) for o in objs)):
            return "no-solution-for-a-type-variable"
    return "ok"


# ------------------------------------------------------------------ *args / **kwargs
VP, VK = "VAR_POSITIONAL", "VAR_KEYWORD"


class VarCallModel(CallModel):
    """Call checking for functions with typed *args / **kwargs: the tuple / TypedDict values that
    bind_arguments builds for them are checked against tuple[T, ...] / dict[str, T] by the container
    model (GenericValue / SequenceValue / TypedDictValue.can_assign interpreted)."""

    def __init__(self, prog: Program) -> None:
        super().__init__(prog)
        from . import container_model as cmod

        self.am = cmod.ContainerModel(prog)
        self.cmod = cmod

    def run_var(self, params: Sequence[CParam], positionals: Sequence[Any], keywords: Dict[str, Any]) -> Any:
        """params: (kind, has_default, annotation) named p0.. ; a VAR_POSITIONAL parameter is named
        `args`, a VAR_KEYWORD one `kwargs`.  -> (is_error, [messages]) or ("crash", why)"""
        am = self.am
        self.unannotated = amod.V("AnyValue", source=Sym("AnySource.unannotated"))
        errors: List[str] = []
        used_any = [False]

        def reset_any_used():
            saved: List[bool] = []
            return Obj("ContextManager", __enter__=lambda: (saved.append(used_any[0]), used_any.__setitem__(0, False))[0], __exit__=lambda exc=None: used_any.__setitem__(0, saved.pop()))

        cactx = Obj("CanAssignContext", should_exclude_any=lambda: False, record_any_used=lambda: used_any.__setitem__(0, True), has_used_any_match=lambda: used_any[0], reset_any_used=reset_any_used)
        it = am._interp(cactx)
        cactx._attrs["make_type_object"] = lambda typ: am.type_object(typ, it)
        attach = lambda v: am._attach(v, it) if isinstance(v, amod.V) else v  # noqa: E731

        def on_error(*args: Any, **kwargs: Any) -> None:
            m = args[0] if args else None
            errors.append(m.label[4:] if isinstance(m, Opaque) and m.label.startswith("str:") else str(m))

        ctx = Obj("CheckCallContext", visitor=None, can_assign_ctx=cactx, on_error=on_error, node=None)
        sig_params: Dict[str, Obj] = {}
        i = 0
        for kind, has_default, ann in params:
            if kind == VP:
                name, a = "args", am.generic(tuple, [self.annotation(ann)])
            elif kind == VK:
                name, a = "kwargs", am.generic(dict, [am.typed(str), self.annotation(ann)])
            else:
                name, a = f"p{i}", self.annotation(ann)
                i += 1
            sig_params[name] = Obj("SigParameter", name=name, kind=Sym(f"ParameterKind.{kind}"), default=attach(am.known(1)) if has_default else None, annotation=attach(a), is_unnamed=lambda: False)
        ret = amod.V("TypedValue", typ=bytes, literal_only=False)
        sig = Obj(
            "Signature", parameters=sig_params, callable=None, return_value=ret, all_typevars=set(), typevars_of_params={}, _return_key="%return", impl=None, evaluator=None,
            allow_call=False, is_asynq=False,
        )
        sig._attrs["_apply_annotated_constraints"] = lambda raw_return, composites, ctx_: raw_return

        def composite(args, kwargs=None):
            return Obj("Composite", value=args[0], varname=(args[1] if len(args) > 1 else None), node=(args[2] if len(args) > 2 else None))

        composite.wants_kwargs = True  # type: ignore[attr-defined]

        def call_return(args, kwargs=None):
            d = dict(zip(("return_value", "sig", "is_error", "used_any_for_match", "remaining_arguments"), args))
            d.update(kwargs or {})
            for k, dv in (("is_error", False), ("used_any_for_match", False), ("remaining_arguments", None), ("sig", None)):
                d.setdefault(k, dv)
            return Obj("CallReturn", **d)

        call_return.wants_kwargs = True  # type: ignore[attr-defined]

        def td_entry(args, kwargs=None):
            d = dict(zip(("typ", "required", "readonly"), args))
            d.update(kwargs or {})
            d.setdefault("required", True)
            d.setdefault("readonly", False)
            return Obj("TypedDictEntry", **d)

        td_entry.wants_kwargs = True  # type: ignore[attr-defined]

        def typed_dict(args, kwargs=None):
            items = dict(args[0])
            extra = (kwargs or {}).get("extra_keys", args[1] if len(args) > 1 else None)
            value_types = [e.get("typ", None) for e in items.values()] + ([extra] if extra is not None else [])
            vt = am.unite(value_types) if value_types else amod.V("AnyValue", source=Sym("AnySource.unreachable"))
            return attach(amod.V("TypedDictValue", typ=dict, args=(am.typed(str), vt), items=items, extra_keys=extra, extra_keys_readonly=False, literal_only=False, spec=("td", (), "open", False)))

        typed_dict.wants_kwargs = True  # type: ignore[attr-defined]
        it.funcs.update({"Composite": composite, "CallReturn": call_return, "TypedDictEntry": td_entry, "TypedDictValue": typed_dict})
        it.funcs["CanAssignError"] = lambda args: Obj("CanAssignError", message=str(args[0]) if args else "", get_error_code=lambda: None)
        for name, fn in self.sig_methods.items():
            it.method_defs[("Signature", name)] = fn
        it.module_defs["can_assign_and_used_any"] = self.can_assign_and_used_any
        it.globals["UNANNOTATED"] = self.unannotated
        for m in ("DEFAULT", "ARGS", "KWARGS", "UNKNOWN", "ELLIPSIS_COMPOSITE", "ELLIPSIS"):
            it.globals[m] = Sym(m)
        actual = Obj(
            "ActualArguments", positionals=[(True, composite([attach(am.known(o))])) for o in positionals], star_args=None,
            keywords={k: (True, composite([attach(am.known(o))])) for k, o in keywords.items()}, star_kwargs=None, kwargs_required=False, pos_or_keyword_params=frozenset(), min_star_args=0,
            ellipsis=False, param_spec=None,
        )
        fn = self.sig_methods["check_call_preprocessed"]
        try:
            res = it.call_def(fn, [sig, actual, ctx], fn)
        except Unsupported as u:
            raise AnchorError(f"call checking with *args / **kwargs cannot be modelled: {u}")
        except AssertionFailed as af:
            return ("crash", f"assertion {af}")
        except (PyRaise, ModelError) as e:
            return ("crash", str(e))
        if not (isinstance(res, Obj) and res._kind == "CallReturn"):
            raise AnchorError(f"check_call_preprocessed returned {res!r} in the model")
        return bool(res.get("is_error", None)), errors


def var_reference(params: Sequence[CParam], positionals: Sequence[Any], keywords: Dict[str, Any]) -> str:
    named = [(k, d, a) for k, d, a in params if k not in (VP, VK)]
    vp = next((a for k, _, a in params if k == VP), "<none>")
    vk = next((a for k, _, a in params if k == VK), "<none>")
    pos_params = [i for i, (k, _, _) in enumerate(named) if k in (PO, POK)]
    bound: Dict[int, Any] = {}
    extra_pos = list(positionals[len(pos_params):])
    if extra_pos and vp == "<none>":
        return "binding-error"
    for i, o in zip(pos_params, positionals):
        bound[i] = o
    names = {f"p{i}": i for i, (k, _, _) in enumerate(named) if k in (POK, KO)}
    extra_kw = {}
    for k, o in keywords.items():
        if k in names:
            if names[k] in bound:
                return "binding-error"
            bound[names[k]] = o
        elif vk != "<none>":
            extra_kw[k] = o
        else:
            return "binding-error"
    for i, (k, d, _) in enumerate(named):
        if i not in bound and not d:
            return "binding-error"
    for i, o in bound.items():
        if not member(o, named[i][2]):
            return "argument-not-in-declared-type"
    if any(not member(o, vp) for o in extra_pos):
        return "argument-not-in-declared-type"
    if any(not member(o, vk) for o in extra_kw.values()):
        return "argument-not-in-declared-type"
    return "ok"


def var_signatures() -> Iterator[Tuple[CParam, ...]]:
    for first in ((), ((PO, False, "int"),), ((POK, False, "int"),), ((POK, True, "str"),)):
        for vp in (None, "int", "str", "object"):
            for ko in ((), ((KO, True, "int"),)):
                for vk in (None, "int", "str"):
                    if vp is None and vk is None:
                        continue
                    yield tuple(first) + (((VP, False, vp),) if vp else ()) + tuple(ko) + (((VK, False, vk),) if vk else ())


def var_calls(params: Sequence[CParam], wide: bool = False) -> Iterator[Tuple[Tuple[Any, ...], Dict[str, Any]]]:
    objects = (1, "a", 1.5) if wide else (1, "a")
    kw_names = ("p0", "p1", "x", "args", "kwargs") if wide else ("p0", "x", "args")
    for npos in range(0, 4):
        for pos in itertools.product(objects, repeat=npos) if npos <= 2 else [(1, 1, 1), (1, "a", 1)]:
            for r in range(0, 3):
                for kws in itertools.combinations(kw_names, r):
                    for vals in itertools.product(objects[:2], repeat=r):
                        yield tuple(pos), dict(zip(kws, vals))
