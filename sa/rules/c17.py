"""C17 - format-string diagnostics: alphabet / table agreement with CPython's formatter."""

from __future__ import annotations

import ast
import re
from typing import Dict, List, Optional, Set, Tuple

try:  # Python >= 3.11
    import re._parser as sre_parse  # type: ignore
except ImportError:  # pragma: no cover
    import sre_parse  # type: ignore

from ..fold import CannotFold, Folder
from ..model import AnchorError, Program, dotted, last_attr, norm, parent, walk_no_nested
from ..report import Check, guard
from .common import calls_in, need_locals, returns_of

# CPython: Objects/unicodeobject.c (PyUnicode_Format) and bytesobject.c (_PyBytes_FormatEx)
STR_CONVERSIONS = set("diouxXeEfFgGcrsa%")
BYTES_CONVERSIONS = set("diouxXeEfFgGcrsab%")
FLAGS = set("#0- +")
LENGTH_MODIFIERS = set("hlL")


def _group_charclass(pattern: str, group: str, flags: int) -> Set[str]:
    """Characters accepted by the (single) character class of a named group."""
    tree = sre_parse.parse(pattern, flags)
    gid = tree.state.groupdict[group]
    found: List[Set[str]] = []

    def chars_of_in(items) -> Set[str]:
        out: Set[str] = set()
        for op, av in items:
            name = str(op)
            if name == "LITERAL":
                out.add(chr(av))
            elif name == "RANGE":
                lo, hi = av
                out.update(chr(c) for c in range(lo, hi + 1))
            elif name == "NEGATE":
                raise AnchorError("negated character class in a format regex group")
            elif name == "CATEGORY":
                raise AnchorError("category escape in a format regex group")
        return out

    def walk(seq) -> None:
        for op, av in seq:
            name = str(op)
            if name == "SUBPATTERN":
                g, _, _, sub = av
                if g == gid:
                    for op2, av2 in sub:
                        n2 = str(op2)
                        if n2 == "IN":
                            found.append(chars_of_in(av2))
                        elif n2 == "LITERAL":
                            found.append({chr(av2)})
                        elif n2 in ("MAX_REPEAT", "MIN_REPEAT"):
                            for op3, av3 in av2[2]:
                                if str(op3) == "IN":
                                    found.append(chars_of_in(av3))
                walk(sub)
            elif name in ("MAX_REPEAT", "MIN_REPEAT"):
                walk(av[2])
            elif name == "BRANCH":
                for b in av[1]:
                    walk(b)

    walk(tree)
    if not found:
        raise AnchorError(f"no character class found in group {group}")
    out: Set[str] = set()
    for f in found:
        out |= f
    return out


def _arm_chars(prog: Program, fn: ast.FunctionDef, folder: Folder) -> Tuple[Dict[str, Set[str]], bool]:
    """For accept_no_mvv: which conversion characters each arm of the chain handles."""
    chain = [s for s in fn.body if isinstance(s, ast.If)]
    if not chain:
        raise AnchorError("accept_no_mvv: dispatch chain not found")
    cur: Optional[ast.If] = chain[0]
    arms: Dict[str, Set[str]] = {}
    has_failing_default = False
    i = 0

    def chars(test: ast.AST) -> Set[str]:
        out: Set[str] = set()
        if isinstance(test, ast.BoolOp):
            if isinstance(test.op, ast.Or):
                for v in test.values:
                    out |= chars(v)
            else:
                # a and b: the character constraint is in one conjunct (the other is is_bytes)
                for v in test.values:
                    out |= chars(v)
            return out
        if isinstance(test, ast.Compare) and len(test.ops) == 1 and norm(test.left) == "self.conversion_type":
            r = test.comparators[0]
            if isinstance(test.ops[0], ast.Eq) and isinstance(r, ast.Constant):
                return {r.value}
            if isinstance(test.ops[0], ast.In):
                v = folder.fold(r, {})
                return set(v)
        return out

    while cur is not None:
        arms[f"arm{i}"] = chars(cur.test)
        i += 1
        if len(cur.orelse) == 1 and isinstance(cur.orelse[0], ast.If):
            cur = cur.orelse[0]
        else:
            for s in cur.orelse:
                if isinstance(s, ast.Assert) and isinstance(s.test, ast.Constant) and s.test.value is False:
                    has_failing_default = True
            cur = None
    return arms, has_failing_default


def r17_1(prog: Program, chk: Check) -> None:
    chk.rule("R17.1", "conversion alphabet: parser regex, specifier dispatch and CPython's documented alphabets agree", floor=16)
    folder = Folder(prog, "format_strings")
    pattern = folder.table("_FORMAT_STRING_REGEX")
    if not isinstance(pattern, str):
        raise AnchorError("_FORMAT_STRING_REGEX does not fold to a string")
    site = "pyanalyze/format_strings.py"
    conv = _group_charclass(pattern, "conversion_type", re.VERBOSE | re.DOTALL)
    flags = _group_charclass(pattern, "conversion_flags", re.VERBOSE | re.DOTALL)
    length = _group_charclass(pattern, "length_modifier", re.VERBOSE | re.DOTALL)
    want = STR_CONVERSIONS | BYTES_CONVERSIONS
    for ch in sorted(want | conv):
        chk.ob(
            "R17.1",
            f"format_strings::_FORMAT_STRING_REGEX::conversion_type::{ch!r}",
            (ch in conv) == (ch in want),
            site,
            f"conversion character {ch!r}: parsed by the regex={ch in conv}, valid in CPython (str or bytes)={ch in want}",
        )
    chk.ob("R17.1", "format_strings::_FORMAT_STRING_REGEX::conversion_flags", flags == FLAGS, site, f"flag characters {sorted(flags)} differ from CPython's {sorted(FLAGS)}")
    chk.ob("R17.1", "format_strings::_FORMAT_STRING_REGEX::length_modifier", length == LENGTH_MODIFIERS, site, f"length modifiers {sorted(length)} differ from CPython's {sorted(LENGTH_MODIFIERS)}")
    fn = prog.func("format_strings", "ConversionSpecifier.accept_no_mvv")
    arms, failing = _arm_chars(prog, fn, folder)
    handled: Set[str] = set()
    for s in arms.values():
        handled |= s
    for ch in sorted(conv):
        chk.ob(
            "R17.1",
            f"format_strings::ConversionSpecifier.accept_no_mvv::handles::{ch!r}",
            ch in handled or not failing,
            prog.site("format_strings", fn),
            f"conversion {ch!r} is parsed by the regex but no arm handles it: it reaches `assert False` (internal_error)",
        )
    num = folder.table("_NUMERIC_CONVERSION_TYPES")
    chk.ob("R17.1", "format_strings::_NUMERIC_CONVERSION_TYPES", set(num) == set("diouxXeEfFgG"), site, f"numeric conversions are {sorted(num)}; CPython's numeric conversions are diouxXeEfFgG")
    # %b is linted for str patterns
    lint = prog.func("format_strings", "ConversionSpecifier.lint")
    ok = False
    for n in walk_no_nested(lint):
        if isinstance(n, ast.If) and norm(n.test) == "self.conversion_type == 'b'":
            ok = any(isinstance(x, ast.If) and norm(x.test) == "not self.is_bytes" and any(isinstance(y, (ast.Expr,)) and isinstance(y.value, ast.Yield) for y in x.body) for x in n.body)
    chk.ob("R17.1", "format_strings::ConversionSpecifier.lint::b-only-for-bytes", ok, prog.site("format_strings", lint), "%b must be reported for str patterns (CPython raises ValueError: unsupported format character 'b')")


def r17_2(prog: Program, chk: Check) -> None:
    chk.rule("R17.2", "str.format: conversion set and field-name specials", floor=3)
    folder = Folder(prog, "format_strings")
    conv = folder.table("_FORMAT_STRING_CONVERSIONS")
    site = "pyanalyze/format_strings.py"
    chk.ob("R17.2", "format_strings::_FORMAT_STRING_CONVERSIONS", set(conv) == {"r", "s", "a"}, site, f"!conversions are {sorted(conv)}; str.format accepts exactly r, s, a")
    fn = prog.func("format_strings", "_parse_replacement_field")
    need_locals(fn, "specials", "allowed_specials", "char")
    specials = None
    for n in walk_no_nested(fn):
        if isinstance(n, ast.Assign) and norm(n.targets[0]) == "specials" and isinstance(n.value, ast.Set):
            specials = {e.value for e in n.value.elts if isinstance(e, ast.Constant)}
    chk.ob("R17.2", "format_strings::_parse_replacement_field::specials", specials == {"}", ".", "[", "!", ":"}, prog.site("format_strings", fn), f"field-name specials are {specials}; the format mini-language uses }} . [ ! :")
    after_bang = None
    for n in walk_no_nested(fn):
        if isinstance(n, ast.If) and norm(n.test) == "char == '!'":
            for s in n.body:
                if isinstance(s, ast.Assign) and norm(s.targets[0]) == "allowed_specials" and isinstance(s.value, ast.Set):
                    after_bang = {e.value for e in s.value.elts if isinstance(e, ast.Constant)}
    chk.ob("R17.2", "format_strings::_parse_replacement_field::after-conversion", after_bang == {":", "}"}, prog.site("format_strings", fn), "after a !conversion only ':' or '}' may follow")
    pc = prog.func("format_strings", "_parse_children")
    need_locals(pc, "next_char", "char")
    t = norm(pc)
    chk.ob("R17.2", "format_strings::_parse_children::escapes", "next_char == '{'" in t and "next_char == '}'" in t and "state.add_error(" in t, prog.site("format_strings", pc), "{{ and }} are escapes; a lone } is an error")


def r17_3(prog: Program, chk: Check) -> None:
    chk.rule("R17.3", "the result type of %-formatting is the type of the template", floor=1)
    fn = prog.func("format_strings", "check_string_format")
    need_locals(fn, "format_str")
    rets = returns_of(fn)
    ok = bool(rets) and all(isinstance(r.value, ast.Tuple) and norm(r.value.elts[0]) == "TypedValue(type(format_str))" for r in rets)
    chk.ob("R17.3", "format_strings::check_string_format::result-type", ok, prog.site("format_strings", fn), "check_string_format must return TypedValue(type(format_str)): str % ... is str, bytes % ... is bytes")
    t = norm(fn)
    chk.ob("R17.3", "format_strings::check_string_format::bytes-pattern-parser", "isinstance(format_str, bytes)" in t and "from_bytes_pattern" in t and "from_pattern" in t, prog.site("format_strings", fn), "bytes templates must be parsed with the bytes regex")


def _expand_in(test: ast.AST) -> ast.AST:
    """`K in (a, b)` with a constant K  ->  `a == K or b == K` (same truth value)."""
    if isinstance(test, ast.Compare) and len(test.ops) == 1 and isinstance(test.ops[0], ast.In) and isinstance(test.left, ast.Constant) and isinstance(test.comparators[0], (ast.Tuple, ast.List, ast.Set)):
        vals = [ast.Compare(left=e, ops=[ast.Eq()], comparators=[test.left]) for e in test.comparators[0].elts]
        return ast.BoolOp(op=ast.Or(), values=vals) if len(vals) > 1 else vals[0]
    if isinstance(test, ast.BoolOp):
        return ast.BoolOp(op=test.op, values=[_expand_in(v) for v in test.values])
    if isinstance(test, ast.UnaryOp) and isinstance(test.op, ast.Not):
        return ast.UnaryOp(op=ast.Not(), operand=_expand_in(test.operand))
    return test


def r17_4(prog: Program, chk: Check) -> None:
    chk.rule(
        "R17.4",
        "argument consumption of a %-specifier: `*` as width and `*` as precision each take one argument, before the value; %% takes none",
        floor=8,
    )
    from ..guarded import Evaluator, Trace, truth_table

    m = "format_strings"
    fn = prog.func(m, "PercentFormatString.get_serial_specifiers")
    loop = next((n for n in walk_no_nested(fn) if isinstance(n, ast.For) and norm(n.iter) == "self.specifiers" and isinstance(n.target, ast.Name)), None)
    if loop is None:
        raise AnchorError("get_serial_specifiers: loop over self.specifiers not found")
    v = loop.target.id

    def atom_of(test: ast.AST):
        if isinstance(test, ast.Compare) and len(test.ops) == 1 and isinstance(test.ops[0], (ast.Eq, ast.NotEq)):
            l, r = test.left, test.comparators[0]
            if isinstance(l, ast.Constant):
                l, r = r, l
            if isinstance(r, ast.Constant) and isinstance(l, ast.Attribute) and norm(l.value) == v:
                pol = isinstance(test.ops[0], ast.Eq)
                if l.attr == "field_width" and r.value == "*":
                    return "W_STAR", pol
                if l.attr == "precision" and r.value == "*":
                    return "P_STAR", pol
                if l.attr == "conversion_type" and r.value == "%":
                    return "PERCENT", pol
        return None

    def action_of(st: ast.stmt, tr: Trace):
        if isinstance(st, ast.Expr) and isinstance(st.value, ast.Yield) and st.value.value is not None:
            y = st.value.value
            if isinstance(y, ast.Call) and last_attr(y) == "StarConversionSpecifier":
                return ["STAR"]
            if norm(y) == v:
                return ["VALUE"]
            return ["?" + norm(y)]
        if isinstance(st, ast.Expr) and isinstance(st.value, ast.YieldFrom):
            return ["?" + norm(st.value)]
        return None

    class Ev(Evaluator):
        def truth(self, test, val):  # type: ignore[override]
            return super().truth(_expand_in(test), val)

    ev = Ev(atom_of, action_of)
    table = truth_table(loop.body, ["W_STAR", "P_STAR", "PERCENT"], {}, ev)
    for valuation, seqs in table.items():
        val = dict(valuation)
        want = ["STAR"] * (int(val["W_STAR"]) + int(val["P_STAR"])) + ([] if val["PERCENT"] else ["VALUE"])
        label = ",".join(f"{k}={'1' if b else '0'}" for k, b in valuation)
        chk.ob("R17.4", f"{m}::PercentFormatString.get_serial_specifiers::{label}", seqs == [want], prog.site(m, loop),
               f"arguments consumed for ({label}) are {seqs}; CPython consumes {want} (each `*` is one int argument, taken before the value)",
               witness={"unknown_tests": sorted(ev.unknown_tests)})


def r17_5(prog: Program, chk: Check) -> None:
    chk.rule(
        "R17.5",
        "str.format field names: a name is a positional index exactly when it is all decimal characters (CPython get_integer): "
        "int() is applied only under an isdecimal() test of the same string, never as a trial conversion",
        floor=2,
    )
    m = "format_strings"
    fn = prog.func(m, "_parse_replacement_field")
    ints = [c for c in calls_in(fn, "int") if isinstance(c.func, ast.Name) and c.args]
    if not ints:
        raise AnchorError("_parse_replacement_field: no int() conversion of the field name")
    from .common import guards_of

    for c in ints:
        subject = norm(c.args[0])
        gs = guards_of(c, fn)
        guarded = any(
            inbody and isinstance(t, ast.Call) and isinstance(t.func, ast.Attribute) and t.func.attr == "isdecimal" and norm(t.func.value) == subject
            for t, inbody in gs
        )
        chk.ob("R17.5", f"{m}::_parse_replacement_field::int({subject})::under-isdecimal", guarded, prog.site(m, c),
               f"int({subject}) must be reached only when {subject}.isdecimal(): isdigit() admits superscripts that int() rejects, an ASCII class misses the decimal digits CPython accepts")
        p = parent(c)
        in_try = False
        while p is not None and p is not fn:
            if isinstance(p, ast.Try) and any(c in list(ast.walk(b)) for b in p.body):
                in_try = True
            p = parent(p)
        chk.ob("R17.5", f"{m}::_parse_replacement_field::int({subject})::not-trial-conversion", not in_try, prog.site(m, c),
               "a try/int()/except classification accepts '+1', ' 0', '0_0', '-1' as indices; CPython looks those up as keyword names")


# ------------------------------------------------------------------- R17.6
EXTRA_TEMPLATES = ["{0} {}", "{} {0}", "{}{0}", "{0}{}", "{a}{}", "{0:{}}", "{:{0}}", "{0:{1}}", "{a[0]}", "{a[]}", "{a.b}", "{a.0}", "{0!r:x}", "{a!r}", "{{}}", "{{{0}}}", "{0.a[1]!r:x}", "{a]}", "{a[0]x}", "{a[0].b}", "{+1}", "{ 0}", "{0_0}", "{-1}", "{1 }", "{\u00b2}", "{\u0663}", "{0}{+1}", "{a a}", "{a-b}", "{:{{}", "{:{{}}}", "{:{}}", "{:}}", "{[]}", "{0[]}", "{a[]}"]

# documented / deliberate strictness: reports where CPython formats fine
STRICTER = {
    "were not used": "unused arguments are a documented lint of pyanalyze, not a CPython error",
    "invalid attribute": "an attribute name that is not an identifier cannot be found on any ordinary object (CPython fails with AttributeError for all but exotic __getattr__ objects)",
}


def _format_chunk(args):
    part, nparts, max_len = args
    import itertools

    from ..model import Program as _P
    from . import format_model as fm

    model = fm.FormatModel(_P())
    combos = [(0, ()), (1, ()), (2, ()), (0, ("a",)), (1, ("a",))]
    templates = ["".join(t) for L in range(0, max_len + 1) for t in itertools.product(fm.ALPHABET, repeat=L)] + EXTRA_TEMPLATES
    n = 0
    classes: Dict[str, Dict[str, object]] = {}

    def note(key: str, bad: bool, detail) -> None:
        c = classes.setdefault(key, {"n": 0, "bad": 0, "witness": []})
        c["n"] += 1  # type: ignore[operator]
        if bad:
            c["bad"] += 1  # type: ignore[operator]
            w = c["witness"]
            w.append(detail)  # type: ignore[union-attr]
            w.sort(key=lambda d: (len(d["template"]), d["template"], d["positional_args"]))  # type: ignore[union-attr]
            del w[12:]  # type: ignore[arg-type]

    for idx, t in enumerate(templates):
        if idx % nparts != part:
            continue
        for nargs, kws in combos:
            n += 1
            errs = model.call_errors(t, nargs, kws)
            oc, msg = fm.cpython_outcome(t, nargs, kws)
            d = {"template": t, "positional_args": nargs, "keyword_args": list(kws), "pyanalyze_reports": errs[:2], "cpython": f"{oc}: {msg}" if msg else oc}
            crashed = any(e.startswith("<crash") for e in errs)
            note("analysis-does-not-crash", crashed, d)
            if oc in ("template-error", "missing-argument"):
                cat = msg.split(":")[0] if oc == "missing-argument" else next((te for te in fm.TEMPLATE_ERRORS if te in msg), "other")
                note(f"reported-when-cpython-raises::{cat}", not errs, d)
            elif oc == "ok":
                real = [e for e in errs if not any(k in e for k in STRICTER)]
                note("silent-when-cpython-formats (outside the listed stricter rules)", bool(real), d)
    return n, classes


def r17_6(prog: Program, chk: Check) -> None:
    import multiprocessing as mp
    import os as _os

    max_len = 3 if _os.environ.get("VERIF_SELFTEST") else 5 if chk.tier == "thorough" else 4
    chk.rule(
        "R17.6",
        "str.format as a finite model: parse_format_string, _parse_children, _parse_replacement_field, the _ParserState methods, the field iterators and "
        f"_str_format_impl are interpreted from their AST for every template of up to {max_len} characters over the alphabet {{ }} a 0 . [ ] ! r x : (plus a list of longer ones) "
        "with 0-2 positional and 0-1 keyword arguments; a diagnostic is shown whenever CPython's str.format raises a template or missing-argument error on universal "
        "argument values, and none (outside the listed stricter rules) when it formats",
        floor=6,
    )
    procs = 2 if _os.environ.get("VERIF_SELFTEST") else min(16, _os.cpu_count() or 1)
    tasks = [(i, procs * 4, max_len) for i in range(procs * 4)]
    with mp.get_context("fork").Pool(procs) as pl:
        results = pl.map(_format_chunk, tasks)
    total = 0
    merged: Dict[str, Dict[str, object]] = {}
    for n, classes in results:
        total += n
        for k, c in classes.items():
            m = merged.setdefault(k, {"n": 0, "bad": 0, "witness": []})
            m["n"] += c["n"]  # type: ignore[operator]
            m["bad"] += c["bad"]  # type: ignore[operator]
            m["witness"] = sorted(list(m["witness"]) + list(c["witness"]), key=lambda d: (len(d["template"]), d["template"], d["positional_args"]))[:12]  # type: ignore[arg-type]
    chk.model_evaluations += total
    chk.analysed["format_model"] = {"calls_interpreted": total, "max_template_length": max_len, "alphabet": "{}a0.[]!rx:", "stricter_rules": STRICTER}
    site = prog.site("format_strings", prog.func("format_strings", "parse_format_string"))
    for k, c in sorted(merged.items()):
        wit = c["witness"]
        if int(c["bad"]) == 0:  # type: ignore[arg-type]
            chk.ob("R17.6", f"format_strings::format-model::{k}", True, site, f"{c['n']} calls, none disagree")
            continue
        # failing class: one obligation per failing template, so that a recorded finding names its input
        seen_t = []
        for w in wit:  # type: ignore[union-attr]
            if w["template"] in seen_t:
                continue
            seen_t.append(w["template"])
            chk.ob("R17.6", f"format_strings::format-model::{k}::template={w['template']!r}", False, site,
                   f"\"{w['template']}\".format({w['positional_args']} positional, keywords {w['keyword_args']}): pyanalyze shows {w['pyanalyze_reports'] or 'nothing'}, CPython: {w['cpython']}", witness=w)
        rest = int(c["bad"]) - len(wit)  # type: ignore[arg-type]
        if rest > 0:
            chk.ob("R17.6", f"format_strings::format-model::{k}::and-more", False, site, f"{rest} further disagreeing calls in this class (of {c['n']})")


# ------------------------------------------------------------------- R17.7
# messages of the deliberately stricter lint rules of %-formatting (each is documented at the place that emits it)
PERCENT_STRICTER = (
    "use of % on string with no conversion specifiers",  # comment in PercentFormatString.accept: "will produce errors for some things that aren't errors at runtime"
    "cannot combine specifiers that require a mapping with those that do not",  # PercentFormatString.lint
    "using % combined with optional specifiers does not make sense",  # ConversionSpecifier.lint
    "%c requires an integer in range(256)",  # also for text templates, where CPython takes every code point: pinned by pyanalyze/test_format_strings.py::test_character (`"%c" % 257  # E`)
)


def _percent_chunk(args):
    part, nparts, stride = args
    from ..model import AnchorError as _AE
    from ..model import Program as _P
    from . import percent_model as pmod

    model = pmod.PercentModel(_P())
    classes: Dict[str, Dict[str, object]] = {}
    unsupported = []
    n = 0

    def note(key: str, bad: bool, d) -> None:
        c = classes.setdefault(key, {"n": 0, "bad": 0, "witness": []})
        c["n"] += 1  # type: ignore[operator]
        if bad:
            c["bad"] += 1  # type: ignore[operator]
            w = c["witness"]
            w.append(d)  # type: ignore[union-attr]
            w.sort(key=lambda x: (len(x["expression"]), repr(x)))  # type: ignore[union-attr]
            del w[4:]  # type: ignore[arg-type]

    idx = 0
    for t0 in pmod.templates():
        for t in pmod.both_kinds(t0):
            idx += 1
            if idx % nparts != part:
                continue
            kind = ("bytes" if isinstance(t, bytes) else "str") + ("-mapping" if (b"%(" in t if isinstance(t, bytes) else "%(" in t) else "")
            for j, a in enumerate(pmod.ARGS):
                if stride > 1 and (idx + j) % stride and t0 not in pmod.SPECIAL_TEMPLATES:
                    continue
                n += 1
                d = {"expression": f"{t!r} % {a!r}"}
                ref = pmod.cpython(t, a)
                try:
                    msgs = model.diagnostics(t, a)
                except _AE as e:
                    unsupported.append({**d, "why": str(e)[:300]})
                    continue
                if isinstance(msgs, tuple):
                    note(f"{kind}::no-crash", True, {**d, "error": msgs[1]})
                    continue
                note(f"{kind}::no-crash", False, d)
                if ref != "ok":
                    note(f"{kind}::a format error is reported whenever CPython raises", not msgs, {**d, "cpython": ref})
                else:
                    extra = [m for m in msgs if not any(m.startswith(sx) for sx in PERCENT_STRICTER)]
                    note(f"{kind}::nothing is reported when CPython formats (outside the documented stricter rules)", bool(extra), {**d, "messages": extra})
    return n, classes, unsupported


def r17_7(prog: Program, chk: Check) -> None:
    import multiprocessing as mp
    import os as _os

    chk.rule(
        "R17.7",
        "%-formatting as a finite model against CPython: PercentFormatString.from_pattern / from_bytes_pattern (the regular expression compiled from its folded literal), "
        "ConversionSpecifier.from_match / lint / accept_no_mvv, PercentFormatString.lint / accept / accept_mapping_args_no_mvv / accept_tuple_args_no_mvv / get_serial_specifiers "
        "and StarConversionSpecifier.accept are interpreted from their AST on ~270 templates (every single specifier and every pair of 15 specifiers - flags, width, precision, *, "
        "mapping keys, %%, integer-only and numeric conversions, %c, %b - str and bytes, plus malformed ones) x 23 literal right operands (scalars, tuples, dicts with str / bytes / "
        "int keys); CPython evaluates the same expression: a format error is reported whenever it raises, and nothing outside three documented stricter rules when it formats",
        floor=8,
    )
    selftest = bool(_os.environ.get("VERIF_SELFTEST"))
    procs = 2 if selftest else min(16, _os.cpu_count() or 1)
    stride = 6 if selftest else 1
    with mp.get_context("fork").Pool(procs) as pl:
        results = pl.map(_percent_chunk, [(i, procs * 2, stride) for i in range(procs * 2)])
    total = 0
    merged: Dict[str, Dict[str, object]] = {}
    unsupported = []
    for n, classes, uns in results:
        total += n
        unsupported += uns
        for k, c in classes.items():
            m = merged.setdefault(k, {"n": 0, "bad": 0, "witness": []})
            m["n"] += c["n"]  # type: ignore[operator]
            m["bad"] += c["bad"]  # type: ignore[operator]
            m["witness"] = sorted(list(m["witness"]) + list(c["witness"]), key=lambda x: (len(x["expression"]), repr(x)))[:4]  # type: ignore[arg-type]
    chk.model_evaluations += total
    chk.analysed["percent_model"] = {"expressions": total, "not_modelled": len(unsupported)}
    site = prog.site("format_strings", prog.func("format_strings", "PercentFormatString.accept"))
    for k, c in sorted(merged.items()):
        wit = c["witness"]
        chk.ob("R17.7", f"format_strings::percent-model::{k}", int(c["bad"]) == 0, site,  # type: ignore[arg-type]
               f"{c['n']} expressions, {c['bad']} failing" + (f"; smallest: {wit[0]}" if wit else ""), witness=wit)  # type: ignore[index]
    if unsupported:
        raise AnchorError(f"{len(unsupported)} expressions cannot be modelled; first: {unsupported[0]}")


def run(prog: Program, chk: Check) -> None:
    guard(chk, r17_1, prog, chk)
    guard(chk, r17_2, prog, chk)
    guard(chk, r17_3, prog, chk)
    guard(chk, r17_4, prog, chk)
    guard(chk, r17_5, prog, chk)
    guard(chk, r17_6, prog, chk)
    guard(chk, r17_7, prog, chk)