"""C02 - narrowing never loses the actual value and never widens.

Decided clauses (see DESIGN.md):
  R02.a no silent drop (abstract dispatch over Value classes x polarity)
  R02.b never widens (provenance of yielded/returned values)
  R02.c inversion duality of the constraint algebra
  R02.d comparator complement table
  R02.e truthiness verdict sets
"""

from __future__ import annotations

import ast
from typing import Dict, List, Optional, Set, Tuple

from ..adi import BOOL_UNIVERSE, FALSE, TRUE, Interp, enum_universe
from ..fold import CannotFold, Folder, Sym
from ..model import AnchorError, Program, dotted, kw, last_attr, norm, parent, walk_no_nested
from ..report import Check, guard
from .common import (
    SINGLETONS,
    calls_in,
    comp_bound_names,
    enclosing_functions,
    guards_of,
    local_assignments,
    name_leaves,
    params_of,
    returns_of,
    value_universe,
    yields_of,
)

# classes outside the domain of apply_to_value / predicates, with reason
NARROWING_EXCLUDED = {
    "MultiValuedValue": "contract of apply_to_value: callers flatten unions first (checked by R02.a-flatten)",
    "UninitializedValue": "only instance is UNINITIALIZED_VALUE, explicitly tested and returned on",
}


def predicate_units(prog: Program) -> List[Tuple[str, str, ast.FunctionDef]]:
    """Every def with parameters (.., value, positive: bool) -> Optional[Value]."""
    out = []
    for m, q, fn in prog.iter_functions():
        names = [a.arg for a in fn.args.args]
        if names and names[0] == "self":
            names = names[1:]
        if len(names) == 2 and names[1] == "positive":
            ann = fn.args.args[-1].annotation
            if ann is not None and norm(ann) == "bool" and fn.returns is not None and "Value" in norm(fn.returns):
                out.append((m, q, fn))
    return sorted(out, key=lambda t: (t[0], t[1], t[2].lineno))


def r02f(prog: Program, chk: Check) -> None:
    chk.rule(
        "R02.f",
        "closed-world complement: a predicate may enumerate `the other members` of a type only when the variable's "
        "type IS that type (identity test on .typ), never for a supertype",
        floor=2,
    )
    for m, q, fn in predicate_units(prog):
        for comp in [n for n in walk_no_nested(fn) if isinstance(n, (ast.ListComp, ast.GeneratorExp))]:
            if len(comp.generators) != 1:
                continue
            it = comp.generators[0].iter
            # iterating a *type* (pattern_type / self.pattern_type / type(x)) enumerates its members
            it_text = norm(it)
            is_type_iter = False
            if isinstance(it, ast.Name):
                srcs = local_assignments(fn, it.id)
                is_type_iter = any(isinstance(s, ast.Call) and isinstance(s.func, ast.Name) and s.func.id == "type" for s in srcs)
            if isinstance(it, ast.Attribute) and it.attr.endswith("_type"):
                is_type_iter = True
            if not is_type_iter:
                continue
            # the enumeration must be guarded by `<x>.typ is <that type>`
            type_exprs = {it_text}
            if isinstance(it, ast.Name):
                type_exprs |= {norm(s) for s in local_assignments(fn, it.id)}
            ok = False
            for g, pol in guards_of(comp, fn):
                if not pol:
                    continue
                parts = g.values if isinstance(g, ast.BoolOp) and isinstance(g.op, ast.And) else [g]
                for part in parts:
                    if isinstance(part, ast.Compare) and len(part.ops) == 1 and isinstance(part.ops[0], ast.Is):
                        l, r = norm(part.left), norm(part.comparators[0])
                        if l.endswith(".typ") and r in type_exprs or r.endswith(".typ") and l in type_exprs:
                            ok = True
            chk.ob(
                "R02.f",
                f"{m}::{q}::complement-enumeration::{it_text}",
                ok,
                prog.site(m, comp),
                f"the members of `{it_text}` are enumerated as the narrowed type without an identity test `value.typ is {it_text}`: "
                "for a variable declared as a supertype the values outside that type are lost",
            )


def r02g(prog: Program, chk: Check) -> None:
    chk.rule(
        "R02.g",
        "a match-case guard always contributes its constraint to the case (even a null one): otherwise the "
        "negation used for later cases claims the pattern alone failed",
        floor=1,
    )
    fn = None
    for key in ("NameCheckVisitor.visit_Match",):
        if prog.has_func("name_check_visitor", key):
            fn = prog.func("name_check_visitor", key)
    if fn is None:
        raise AnchorError("NameCheckVisitor.visit_Match not found")
    guard_ifs = [n for n in walk_no_nested(fn) if isinstance(n, ast.If) and norm(n.test) in ("case.guard is not None", "case.guard")]
    if not guard_ifs:
        raise AnchorError("visit_Match: `if case.guard is not None` not found")
    gi = guard_ifs[0]
    appends = [c for c in calls_in(gi, "append") if isinstance(c.func, ast.Attribute) and norm(c.func.value) == "constraints"]
    ok = bool(appends) and all(len(guards_of(c, gi)) <= 1 for c in appends)
    chk.ob(
        "R02.g",
        "name_check_visitor::NameCheckVisitor.visit_Match::guard-constraint-unconditional",
        ok,
        prog.site("name_check_visitor", gi),
        "the guard's constraint is appended to the case's constraints only under an extra condition: a guard without narrowing "
        "information is then treated as always true when the case is negated",
    )
    inv = [c for c in calls_in(fn, "invert") if "AndConstraint.make(constraints)" in norm(c)]
    chk.ob(
        "R02.g",
        "name_check_visitor::NameCheckVisitor.visit_Match::negation-of-whole-case",
        bool(inv),
        prog.site("name_check_visitor", fn),
        "later cases must be narrowed by the negation of (pattern AND guard), not of the pattern alone",
    )


def r02hi(prog: Program, chk: Check) -> None:
    chk.rule("R02.h", "when the narrowed operand is on the right of a comparison the operator is mirrored (2 < len(x) means len(x) > 2)", floor=3)
    f = Folder(prog, "name_check_visitor")
    try:
        flipped = f.table("AST_TO_FLIPPED")
        rows = {k.last: v.last for k, v in flipped.items()}
    except (CannotFold, AnchorError):
        rows = {}
    chk.ob("R02.h", "name_check_visitor::AST_TO_FLIPPED", rows == {"Lt": "Gt", "LtE": "GtE", "Gt": "Lt", "GtE": "LtE"}, "pyanalyze/name_check_visitor.py", f"the operand-swap table is {rows}; it must map Lt<->Gt and LtE<->GtE")
    vs = prog.func("name_check_visitor", "NameCheckVisitor._visit_single_compare")
    pcalls = calls_in(vs, "_constraint_from_predicate_provider")
    if len(pcalls) != 2:
        raise AnchorError("_visit_single_compare: expected two _constraint_from_predicate_provider calls")
    for c in pcalls:
        provider, literal, op = (norm(a) for a in c.args[:3])
        on_right = provider.startswith("rhs")
        mirrored = isinstance(c.args[2], ast.Call) and last_attr(c.args[2]) == "_flip_comparator"
        chk.ob(
            "R02.h",
            f"name_check_visitor::NameCheckVisitor._visit_single_compare::provider-on-{'right' if on_right else 'left'}",
            mirrored == on_right,
            prog.site("name_check_visitor", c),
            f"predicate provider `{provider}` with operator `{op}`: the operator must be mirrored exactly when the provider is the right operand",
        )
    co = prog.func("name_check_visitor", "NameCheckVisitor._constraint_from_compare_op")
    ok = False
    for n in walk_no_nested(co):
        if isinstance(n, ast.If) and norm(n.test) == "not is_right":
            ok = any("_flip_comparator(op)" in norm(s) and "ext" in norm(s) for s in n.body)
    chk.ob("R02.h", "name_check_visitor::NameCheckVisitor._constraint_from_compare_op::ext-mirrored", ok, prog.site("name_check_visitor", co), "for `5 < x` the annotation attached to x must come from the mirrored operator (Gt(5), not Lt(5))")
    fc = prog.func("name_check_visitor", "_flip_comparator")
    chk.ob("R02.h", "name_check_visitor::_flip_comparator::uses-table", "AST_TO_FLIPPED" in norm(fc), prog.site("name_check_visitor", fc), "_flip_comparator must consult AST_TO_FLIPPED")

    chk.rule("R02.i", "a constraint is applied to a variable only if every current definition of the variable is one the condition was computed from (subset test on origins)", floor=1)
    ac = prog.func("stacked_scopes", "FunctionScope._add_single_constraint")
    ok = False
    for n in walk_no_nested(ac):
        if isinstance(n, ast.If) and n.body and isinstance(n.body[-1], ast.Return):
            t = n.test
            # current - constraint (non-empty)  |  not current <= constraint  |  not current.issubset(constraint)
            if isinstance(t, ast.BinOp) and isinstance(t.op, ast.Sub) and "current" in norm(t.left) and "constraint" in norm(t.right):
                ok = True
            if isinstance(t, ast.UnaryOp) and isinstance(t.op, ast.Not):
                o = t.operand
                if isinstance(o, ast.Compare) and isinstance(o.ops[0], ast.LtE) and "current" in norm(o.left) and "constraint" in norm(o.comparators[0]):
                    ok = True
                if isinstance(o, ast.Call) and last_attr(o) == "issubset" and "current" in norm(o.func) and "constraint" in norm(o.args[0]):
                    ok = True
    chk.ob("R02.i", "stacked_scopes::FunctionScope._add_single_constraint::origin-subset", ok, prog.site("stacked_scopes", ac), "the origin test must bail out unless current origins are a subset of the constraint's origins; an overlap test applies a stale constraint to a rebinding that was never tested")


def r02j(prog: Program, chk: Check) -> None:
    chk.rule(
        "R02.j",
        "isinstance() is a runtime-class test while assignability follows numeric promotion: the predicate built for "
        "isinstance() is flagged as a runtime check, its negative arm never drops a member on assignability alone when "
        "that flag is set, and the table of promoted types it consults agrees with TypeObject's artificial bases",
        floor=4,
    )
    from .c03 import promotion_edges

    edges = {e for e in promotion_edges(prog) if not e[0].startswith("<")}
    m = "predicates"
    call = prog.func(m, "IsAssignablePredicate.__call__")
    pol = [a.arg for a in call.args.args][-1]
    # `return None` statements in the negative arm
    neg_returns = []
    for r in returns_of(call):
        if not (r.value is None or (isinstance(r.value, ast.Constant) and r.value.value is None)):
            continue
        gs = guards_of(r, call)
        if any(norm(t) == pol and not inbody for t, inbody in gs):
            neg_returns.append((r, gs))
    if not neg_returns:
        raise AnchorError("IsAssignablePredicate.__call__: no `return None` in the negative arm")
    flag = None
    helper = None
    for r, gs in neg_returns:
        ok = False
        # (a) guarded by `not self.<flag>`
        for t, inbody in gs:
            if isinstance(t, ast.UnaryOp) and isinstance(t.op, ast.Not) and isinstance(t.operand, ast.Attribute) and norm(t.operand.value) == "self" and t.operand.attr != "positive_only" and inbody:
                flag, ok = t.operand.attr, True
            if isinstance(t, ast.Attribute) and norm(t.value) == "self" and t.attr != "positive_only" and not inbody:
                flag, ok = t.attr, True
        # (b) preceded in its block by `if self.<flag>: return <call>`
        blk = parent(r)
        for fld in ("body", "orelse"):
            stmts = getattr(blk, fld, None)
            if isinstance(stmts, list) and any(x is r for x in stmts):
                for st in stmts[: [x is r for x in stmts].index(True)]:
                    if isinstance(st, ast.If) and isinstance(st.test, ast.Attribute) and norm(st.test.value) == "self" and st.body and isinstance(st.body[-1], ast.Return) and isinstance(st.body[-1].value, ast.Call):
                        flag, ok = st.test.attr, True
                        helper = last_attr(st.body[-1].value)
        chk.ob("R02.j", f"{m}::IsAssignablePredicate.__call__::negative-drop@guarded-by-runtime-flag", ok, prog.site(m, r),
               "in the negative arm a member is dropped because it is assignable to the tested type; for a runtime isinstance() test that is wrong for "
               "int vs float/complex (assignable, never an instance) - the drop must be bypassed when the predicate stands for a runtime check")
    if helper is None:
        for r in returns_of(call):
            if isinstance(r.value, ast.Call) and isinstance(r.value.func, ast.Name) and prog.has_func(m, r.value.func.id):
                if any(norm(t) == pol and not inbody for t, inbody in guards_of(r, call)):
                    helper = r.value.func.id
    # the isinstance and issubclass implementations set the flag
    for impl_name, builtin in (("_isinstance_impl", "isinstance"), ("_issubclass_impl", "issubclass")):
        impl = prog.func("implementation", impl_name)
        built = calls_in(impl, "IsAssignablePredicate")
        if not built:
            raise AnchorError(f"{impl_name} does not build an IsAssignablePredicate")
        for c in built:
            v = kw(c, flag) if flag else None
            chk.ob("R02.j", f"implementation::{impl_name}::predicate-is-runtime-check", isinstance(v, ast.Constant) and v.value is True, prog.site("implementation", c),
                   f"the predicate narrowing on {builtin}() must be built with {flag or '<runtime flag>'}=True")
    # promoted-type table agrees with the promotion edges
    rows: Dict[str, Set[str]] = {}
    table_name = None
    if helper and prog.has_func(m, helper):
        hf = prog.func(m, helper)
        for n in ast.walk(hf):
            if isinstance(n, ast.Name) and n.id.isupper() or (isinstance(n, ast.Name) and n.id.startswith("_") and n.id[1:].isupper()):
                table_name = n.id  # type: ignore[union-attr]
    if table_name:
        try:
            t = Folder(prog, m).table(table_name)
            for k, vs in t.items():
                rows[getattr(k, "last", str(k))] = {getattr(v, "last", str(v)) for v in vs}
        except (CannotFold, AnchorError):
            rows = {}
    for sub, sup in sorted(edges):
        chk.ob("R02.j", f"{m}::promoted-types::{sub}->{sup}", sub in rows.get(sup, set()), f"pyanalyze/{m}.py",
               f"TypeObject promotes {sub} to {sup}; a value declared {sup} may therefore be a {sub} at run time and must survive `not isinstance(x, {sup})` "
               f"(table {table_name or '<none found>'} = {rows})")
    extra = {(s_, k) for k, vs in rows.items() for s_ in vs} - edges
    chk.ob("R02.j", f"{m}::promoted-types::no-extra", not extra, f"pyanalyze/{m}.py", f"promoted-type rows without a matching artificial base: {sorted(extra)} (narrowing would widen)")


# ------------------------------------------------------------------- R02.k
def r02k(prog: Program, chk: Check) -> None:
    import itertools

    from . import narrow_model as nmod

    chk.rule(
        "R02.k",
        "the narrowing predicates as a finite model: IsAssignablePredicate (as used for isinstance), EqualsPredicate (== and is) and InPredicate, with _non_instances and "
        "is_universally_assignable, are interpreted from their AST on every static value over a universe of 12 runtime objects (bools, ints, a float, strings, None, an enum) "
        "and 7 classes, for every tested class / pair of classes / literal / pair of literals and both polarities; assignability is the membership oracle of the universe "
        "(with int -> float promotion). Every object of the value for which the run-time condition has the branch's polarity stays in the narrowed value, and the narrowed "
        "value contains nothing outside the original value and the tested one",
        floor=6,
    )
    nm = nmod.NarrowModel(prog)
    U, T = nmod.UNIVERSE, nmod.TYPES
    CLASSES = tuple(o for o in U if isinstance(o, type))

    def predicate_flags(impl: str) -> dict:
        """The constant keyword arguments with which `impl` builds its IsAssignablePredicate (read from the source)."""
        fn = prog.func("implementation", impl)
        calls = [c for c in walk_no_nested(fn) if isinstance(c, ast.Call) and last_attr(c.func) == "IsAssignablePredicate"]
        if len(calls) != 1:
            raise AnchorError(f"{impl}: expected one IsAssignablePredicate(...) call, found {len(calls)}")
        flags = {"positive_only": False, "runtime_check": False}
        for k in calls[0].keywords:
            if k.arg in flags:
                if not (isinstance(k.value, ast.Constant) and isinstance(k.value.value, bool)):
                    raise AnchorError(f"{impl}: {k.arg}= is not a constant")
                flags[k.arg] = k.value.value
        return flags

    isinstance_flags, issubclass_flags = predicate_flags("_isinstance_impl"), predicate_flags("_issubclass_impl")
    vals = [("AnyValue", None)] + [("KnownValue", o) for o in U] + [("TypedValue", t) for t in T] + [("SubclassValue", t) for t in CLASSES + (object,)]
    classes: Dict[str, List[dict]] = {}
    counts: Dict[str, int] = {}
    total = 0

    def check(kind: str, fields: dict, cond, tested, label: str) -> None:
        nonlocal total
        for vk, vp in vals:
            V = nm.value(vk, nm.value("TypedValue", vp) if vk == "SubclassValue" else vp)
            mv = nmod.members(V)
            for pos in (True, False):
                total += 1
                pol = "positive" if pos else "negative"
                res = nm.apply(kind, fields, V, pos)
                d = {"condition": label, "branch": pol, "value": nmod.describe(V)}
                k_keep = f"{kind}::{pol}::keeps-every-object-that-takes-the-branch"
                k_wide = f"{kind}::{pol}::never-widens"
                counts[k_keep] = counts.get(k_keep, 0) + 1
                counts[k_wide] = counts.get(k_wide, 0) + 1
                classes.setdefault(k_keep, [])
                classes.setdefault(k_wide, [])
                if isinstance(res, tuple):
                    classes[k_keep].append({**d, "crash": res[1]})
                    continue
                mr = nmod.members(res) if res is not None else frozenset()
                for i in sorted(mv):
                    c = cond(U[i])
                    if c is not None and c == pos and i not in mr:
                        classes[k_keep].append({**d, "object": repr(U[i]), "narrowed_to": nmod.describe(res)})
                        break
                extra = mr - mv - tested
                if extra:
                    classes[k_wide].append({**d, "narrowed_to": nmod.describe(res), "new_objects": [repr(U[i]) for i in sorted(extra)]})

    for r in (1, 2):
        for ts in itertools.combinations(T, r):
            pat = nm.unite([nm.value("TypedValue", t) for t in ts])
            check("IsAssignablePredicate", dict(pattern_value=pat, **isinstance_flags), lambda o, ts=ts: isinstance(o, ts), nmod.members(pat), "isinstance(x, (" + ", ".join(t.__name__ for t in ts) + "))")
    # issubclass(x, C) / issubclass(x, (C, D)): the predicate _issubclass_impl builds
    for r in (1, 2):
        for ts in itertools.combinations(CLASSES + (object,), r):
            pat = nm.unite([nm.value("SubclassValue", nm.value("TypedValue", t)) for t in ts])

            def cond_sub(o, ts=ts):
                return issubclass(o, ts) if isinstance(o, type) else None  # issubclass() of a non-class raises

            check("IsAssignablePredicate", dict(pattern_value=pat, **issubclass_flags), cond_sub, nmod.members(pat), "issubclass(x, (" + ", ".join(t.__name__ for t in ts) + "))")
    for v in U:
        for use_is in (False, True):
            def cond(o, v=v, use_is=use_is):
                if use_is:
                    return o is v
                if o == v and type(o) is not type(v):
                    return None  # cross-type equality is outside the property's quantifier
                return o == v

            check("EqualsPredicate", dict(pattern_val=v, use_is=use_is), cond, frozenset(i for i, o in enumerate(U) if nmod.same(o, v)), ("x is " if use_is else "x == ") + repr(v))
    for vs in itertools.combinations(U, 2):
        if type(vs[0]) is not type(vs[1]):
            continue

        def cond_in(o, vs=vs):
            if any(o == v and type(o) is not type(v) for v in vs):
                return None
            return o in vs

        check("InPredicate", dict(pattern_vals=vs, pattern_type=type(vs[0])), cond_in, frozenset(i for i, o in enumerate(U) if any(nmod.same(o, v) for v in vs)), "x in " + repr(vs))
    # containment in a string is a substring test, in bytes a subsequence / byte test: not membership among the items
    for container in ("a", "ab", "b", b"a"):
        def cond_sub(o, container=container):
            try:
                return o in container
            except TypeError:
                return None  # the comparison itself raises: no branch is taken

        items = list(container)
        check("InPredicate", dict(pattern_vals=container, pattern_type=type(items[0])), cond_sub, frozenset(i for i, o in enumerate(U) if any(nmod.same(o, v) for v in items)), "x in " + repr(container))
    chk.model_evaluations += total
    chk.analysed["narrowing_model"] = {"applications": total, "universe": [repr(o) for o in U], "classes": [t.__name__ for t in T]}
    site = f"pyanalyze/predicates.py"
    for k, bad in sorted(classes.items()):
        bad.sort(key=lambda d: (len(d["condition"]), len(d["value"]), repr(d)))
        chk.ob("R02.k", f"predicates::narrowing-model::{k}", not bad, site, f"{counts[k]} applications, {len(bad)} failing" + (f"; smallest: {bad[0]}" if bad else ""), witness=bad[:5])


# ------------------------------------------------------------------- R02.l
def r02l(prog: Program, chk: Check) -> None:
    import itertools

    from . import narrow_model as nmod

    chk.rule(
        "R02.l",
        "Constraint.apply_to_value as a finite model: the is_instance, is_value and is_truthy arms (truthiness verdicts given by the oracle of the universe) and their "
        "one_of / all_of compositions are interpreted from the AST on every static value of the same universe, both polarities: no object that takes the branch is lost, "
        "nothing outside the value and the tested class / literal appears; for compositions the result contains the union (one_of) resp. the intersection (all_of) of what the parts keep",
        floor=8,
    )
    nm = nmod.NarrowModel(prog)
    U, T = nmod.UNIVERSE, nmod.TYPES
    vals = [("AnyValue", None)] + [("KnownValue", o) for o in U] + [("TypedValue", t) for t in T]
    conds = []
    for t in T:
        conds.append(("is_instance", t, (lambda o, t=t: isinstance(o, t)), frozenset(i for i, o in enumerate(U) if isinstance(o, t)), f"isinstance(x, {t.__name__})"))
    for v in U:
        conds.append(("is_value", v, (lambda o, v=v: o is v), frozenset(i for i, o in enumerate(U) if o is v), f"x is {v!r}"))
    conds.append(("is_truthy", None, (lambda o: bool(o)), frozenset(), "bool(x)"))
    classes: Dict[str, List[dict]] = {}
    counts: Dict[str, int] = {}
    total = 0

    def judge(key: str, V, res, keep_if, tested, d) -> None:
        nonlocal total
        total += 1
        k_keep, k_wide = f"{key}::keeps-every-object-that-takes-the-branch", f"{key}::never-widens"
        for k in (k_keep, k_wide):
            counts[k] = counts.get(k, 0) + 1
            classes.setdefault(k, [])
        if isinstance(res, tuple):
            classes[k_keep].append({**d, "crash": res[1]})
            return
        mv = nmod.members(V)
        mr = frozenset().union(*[nmod.members(r) for r in res]) if res else frozenset()
        for i in sorted(mv):
            if keep_if(U[i]) and i not in mr:
                classes[k_keep].append({**d, "object": repr(U[i]), "narrowed_to": [nmod.describe(r) for r in res]})
                break
        extra = mr - mv - tested
        if extra:
            classes[k_wide].append({**d, "narrowed_to": [nmod.describe(r) for r in res], "new_objects": [repr(U[i]) for i in sorted(extra)]})

    for ct, payload, cond, tested, label in conds:
        for vk, vp in vals:
            V = nm.value(vk, vp)
            for pos in (True, False):
                res = nm.apply_constraint(nm.constraint(ct, pos, payload), V)
                judge(f"{ct}::{'positive' if pos else 'negative'}", V, res, (lambda o, cond=cond, pos=pos: cond(o) == pos), tested, {"condition": label, "branch": "positive" if pos else "negative", "value": nmod.describe(V)})
    # compositions of two atomic constraints
    atoms = [c for c in conds if c[0] != "is_truthy"][:10] + [conds[-1]]
    for (c1, c2) in itertools.combinations(atoms, 2):
        for p1, p2 in itertools.product((True, False), repeat=2):
            k1 = nm.constraint(c1[0], p1, c1[1])
            k2 = nm.constraint(c2[0], p2, c2[1])
            for vk, vp in vals:
                V = nm.value(vk, vp)
                d = {"condition": f"{'' if p1 else 'not '}{c1[4]} <op> {'' if p2 else 'not '}{c2[4]}", "value": nmod.describe(V)}
                res = nm.apply_constraint(nm.constraint("one_of", True, [k1, k2]), V)
                judge("one_of", V, res, (lambda o: c1[2](o) == p1 or c2[2](o) == p2), c1[3] | c2[3], {**d, "op": "or"})
                res = nm.apply_constraint(nm.constraint("all_of", True, [k1, k2]), V)
                judge("all_of", V, res, (lambda o: c1[2](o) == p1 and c2[2](o) == p2), c1[3] | c2[3], {**d, "op": "and"})
    chk.model_evaluations += total
    chk.analysed["constraint_model"] = {"applications": total}
    site = prog.site("stacked_scopes", prog.func("stacked_scopes", "Constraint.apply_to_value"))
    for k, bad in sorted(classes.items()):
        bad.sort(key=lambda d: (len(d["condition"]), len(d["value"]), repr(d)))
        chk.ob("R02.l", f"stacked_scopes::constraint-model::{k}", not bad, site, f"{counts[k]} applications, {len(bad)} failing" + (f"; smallest: {bad[0]}" if bad else ""), witness=bad[:5])


# ------------------------------------------------------------------- R02.n
def r02n(prog: Program, chk: Check) -> None:
    import itertools

    from ..minterp import AssertionFailed, Interp, ModelError, Obj, PyRaise, Unsupported

    chk.rule(
        "R02.n",
        "the constraint carried by a condition's value asserts no more than the condition: stacked_scopes.extract_constraints with AndConstraint.make / OrConstraint.make is "
        "interpreted from the AST on every value built from a plain value, values annotated with the atomic constraints a, b (or both) and unions of two or three of those, "
        "plain or annotated again; read as propositional formulas (a value without constraint says nothing: True; annotations conjoin; the members of a union - `p or q`, a flag "
        "assigned in two branches - disjoin), the extracted constraint is implied by the value's formula under every truth assignment, so a branch is never narrowed by a "
        "disjunct that need not hold",
        floor=2,
    )
    fn = prog.func("stacked_scopes", "extract_constraints")
    and_make = prog.find_method("AndConstraint", "make")
    or_make = prog.find_method("OrConstraint", "make")
    if and_make is None or or_make is None:
        raise AnchorError("AndConstraint.make / OrConstraint.make not found")
    NULL = Obj("NullConstraint")
    atoms = {n: Obj("Constraint", name=n) for n in "ab"}

    def plain():
        return ("plain",)

    leaves = [("plain",), ("ann", ("plain",), ("a",)), ("ann", ("plain",), ("b",)), ("ann", ("plain",), ("a", "b"))]
    unions = [("union", tuple(c)) for k in (2, 3) for c in itertools.product(leaves, repeat=k)]
    values = leaves + unions + [("ann", u, (c,)) for u in unions[:: 3] for c in "ab"] + [("union", (u, l)) for u in [("ann", u2, ("a",)) for u2 in unions[:: 7]] for l in leaves]

    def build(spec):
        if spec[0] == "plain":
            return Obj("TypedValue")
        if spec[0] == "ann":
            exts = [Obj("ConstraintExtension", constraint=atoms[c]) for c in spec[2]]
            return Obj("AnnotatedValue", value=build(spec[1]), get_metadata_of_type=lambda typ, exts=exts: list(exts))
        return Obj("MultiValuedValue", vals=tuple(build(x) for x in spec[1]))

    def ref(spec, asg) -> bool:
        if spec[0] == "plain":
            return True
        if spec[0] == "ann":
            return all(asg[c] for c in spec[2]) and ref(spec[1], asg)
        return any(ref(x, asg) for x in spec[1])

    def sem(c, asg) -> bool:
        if c is NULL:
            return True
        if c._kind == "Constraint":
            return asg[c._attrs["name"]]
        if c._kind == "AndConstraint":
            return all(sem(x, asg) for x in c._attrs["constraints"])
        if c._kind == "OrConstraint":
            return any(sem(x, asg) for x in c._attrs["constraints"])
        raise AnchorError(f"extract_constraints returned {c!r}")

    def show(spec) -> str:
        if spec[0] == "plain":
            return "v"
        if spec[0] == "ann":
            return f"{show(spec[1])}[{' & '.join(spec[2])}]"
        return "(" + " | ".join(show(x) for x in spec[1]) + ")"

    def show_c(c) -> str:
        if c is NULL:
            return "no constraint"
        if c._kind == "Constraint":
            return c._attrs["name"]
        return "(" + (" AND " if c._kind == "AndConstraint" else " OR ").join(show_c(x) for x in c._attrs["constraints"]) + ")"

    def hook(v, cls):
        if cls in ("AnnotatedValue", "MultiValuedValue", "OrConstraint", "AndConstraint", "Constraint"):
            return isinstance(v, Obj) and v._kind == cls
        return None

    holder: List[Interp] = []
    and_cls = Obj("class", __call__=lambda cs: Obj("AndConstraint", constraints=tuple(cs)))
    or_cls = Obj("class", __call__=lambda cs: Obj("OrConstraint", constraints=tuple(cs)))
    and_cls._attrs["make"] = lambda cs: holder[0].call_def(and_make[1], [and_cls, cs], and_make[1])  # type: ignore[index]
    or_cls._attrs["make"] = lambda cs: holder[0].call_def(or_make[1], [or_cls, cs], or_make[1])  # type: ignore[index]
    for a in atoms.values():
        a._attrs["invert"] = lambda a=a: Obj("Constraint", name="not " + a._attrs["name"])
    unsound, crashes = [], []
    n = 0
    for spec in values:
        it = Interp({}, {}, (), {"id": lambda args: id(args[0])}, hook, {}, {"extract_constraints": fn}, {"NULL_CONSTRAINT": NULL, "AndConstraint": and_cls, "OrConstraint": or_cls, "ConstraintExtension": "ConstraintExtension"})
        holder[:] = [it]
        try:
            res = it.call_def(fn, [build(spec)], fn)
        except Unsupported as u:
            raise AnchorError(f"extract_constraints cannot be modelled: {u}")
        except (AssertionFailed, PyRaise, ModelError) as e:
            crashes.append({"value": show(spec), "error": str(e)})
            continue
        for va, vb in itertools.product((False, True), repeat=2):
            n += 1
            asg = {"a": va, "b": vb}
            if ref(spec, asg) and not sem(res, asg):
                unsound.append({"condition value": show(spec), "extracted": show_c(res), "holds with": {k: v for k, v in asg.items()}, "but the extracted constraint is": False})
                break
    chk.model_evaluations += n
    unsound.sort(key=lambda d: len(d["condition value"]))
    site = prog.site("stacked_scopes", fn)
    chk.ob("R02.n", "stacked_scopes::extract_constraints::the extracted constraint is implied by the condition", not unsound, site, f"{len(values)} values x 4 truth assignments, {len(unsound)} values whose constraint can be false while the condition holds" + (f"; smallest: {unsound[0]}" if unsound else ""), witness=unsound[:5])
    chk.ob("R02.n", "stacked_scopes::extract_constraints::no-crash", not crashes, site, f"{len(crashes)} crashes" + (f"; first: {crashes[0]}" if crashes else ""), witness=crashes[:3])


def r02m(prog: Program, chk: Check) -> None:
    from .c01 import r01_j

    r01_j(prog, chk, rule="R02.m")  # the sequence-pattern model of C01 R01.j, decided here for the narrowing clauses of C02


def run(prog: Program, chk: Check) -> None:
    guard(chk, r02hi, prog, chk)
    guard(chk, r02m, prog, chk)
    guard(chk, r02n, prog, chk)
    guard(chk, r02j, prog, chk)
    guard(chk, r02k, prog, chk)
    guard(chk, r02l, prog, chk)
    guard(chk, r02f, prog, chk)
    guard(chk, r02g, prog, chk)
    guard(chk, r02a, prog, chk)
    guard(chk, r02b, prog, chk)
    guard(chk, r02c, prog, chk)
    guard(chk, r02d, prog, chk)
    guard(chk, r02e, prog, chk)  # --------------------------------------------------------------------- R02.a
def r02a(prog: Program, chk: Check) -> None:
    chk.rule(
        "R02.a",
        "no silent drop: for every ConstraintType arm / predicate, polarity and bindable Value class, "
        "some path yields/returns a value (abstract dispatch over the class hierarchy)",
        floor=300,
    )
    cu = value_universe(prog, extra_exclude=list(NARROWING_EXCLUDED))
    eu = enum_universe(prog, "ConstraintType")
    fn = prog.func("stacked_scopes", "Constraint.apply_to_value")
    mod = prog.module("stacked_scopes")
    pnames = params_of(fn)
    if "value" not in pnames:
        raise AnchorError("Constraint.apply_to_value has no parameter 'value'")
    chk.analysed["value_domain"] = sorted(cu.atoms)
    chk.analysed["constraint_types"] = sorted(eu.atoms)
    for m in sorted(eu.atoms):
        for pol in (TRUE, FALSE):
            for c in sorted(cu.atoms):
                it = Interp(
                    prog,
                    fn,
                    universes={"value": cu, "self.constraint_type": eu, "self.positive": BOOL_UNIVERSE},
                    class_universe=cu,
                    singletons=SINGLETONS,
                )
                it.run(
                    {
                        "value": frozenset({c}),
                        "self.constraint_type": frozenset({m}),
                        "self.positive": frozenset({pol}),
                    }
                )
                sign = "+" if pol == TRUE else "-"
                chk.ob(
                    "R02.a",
                    f"stacked_scopes::Constraint.apply_to_value::arm={m}{sign}::dropped={c}",
                    bool(it.yields),
                    prog.site(mod, fn),
                    f"a value of class {c} reaches no yield under constraint type {m} (positive={pol}): "
                    "it is silently removed from the narrowed type",
                )
    # every ConstraintType member has an arm (the failing default is unreachable)
    for m in sorted(eu.atoms):
        hit = []

        def on_stmt(node: ast.AST, env: Dict[str, frozenset]) -> None:
            if isinstance(node, ast.Assert) and isinstance(node.test, ast.Constant) and node.test.value is False:
                hit.append(node)

        it = Interp(
            prog,
            fn,
            universes={"value": cu, "self.constraint_type": eu, "self.positive": BOOL_UNIVERSE},
            class_universe=cu,
            singletons=SINGLETONS,
            on_stmt=on_stmt,
        )
        it.run({"value": cu.atoms, "self.constraint_type": frozenset({m}), "self.positive": frozenset({TRUE, FALSE})})
        chk.ob(
            "R02.a",
            f"stacked_scopes::Constraint.apply_to_value::arm-exists={m}",
            not hit,
            prog.site(mod, fn),
            f"ConstraintType.{m} reaches the failing default of apply_to_value",
        )

    # predicates
    units = predicate_units(prog)
    chk.analysed["predicate_units"] = [f"{m}::{q}" for m, q, _ in units]
    if len(units) < 6:
        chk.error(f"R02.a: only {len(units)} predicate units found (expected >= 6)")
    for m, q, pf in units:
        vname = [a.arg for a in pf.args.args if a.arg != "self"][0]
        for c in sorted(cu.atoms):
            kept = []
            for pol in (TRUE, FALSE):
                it = Interp(
                    prog,
                    pf,
                    universes={vname: cu, "positive": BOOL_UNIVERSE},
                    class_universe=cu,
                    singletons=SINGLETONS,
                    summaries={"unannotate": _sum_unannotate},
                )
                it.run({vname: frozenset({c}), "positive": frozenset({pol})})
                keeps = [
                    r
                    for r, _ in it.returns
                    if r.value is not None and not (isinstance(r.value, ast.Constant) and r.value.value is None)
                ]
                if keeps:
                    kept.append(pol)
            # a predicate may make one polarity unreachable for a class (e.g. an
            # irrefutable pattern); losing the class in BOTH polarities types the
            # taken branch as Never.
            chk.ob(
                "R02.a",
                f"{m}::{q}::dropped-in-both-polarities={c}",
                bool(kept),
                prog.site(m, pf),
                f"predicate can only return None for a value of class {c} in both polarities",
            )

    # R02.a-flatten: callers of apply_to_values hand it flattened values
    cv = prog.func("stacked_scopes", "_constrain_value")
    flat = [c for c in calls_in(cv, "flatten_values")]
    chk.ob(
        "R02.a",
        "stacked_scopes::_constrain_value::flattens-before-apply",
        len(flat) >= 2 and bool(calls_in(cv, "apply_to_values")),
        prog.site("stacked_scopes", cv),
        "_constrain_value must flatten unions (flatten_values on both input paths) before apply_to_values",
    )


def _sum_unannotate(it: Interp, call: ast.Call, env: Dict[str, frozenset]) -> Optional[frozenset]:
    if not call.args:
        return None
    base = it.eval(call.args[0], env)
    if base is None or it.class_universe is None:
        return None
    out = set(base) - {"AnnotatedValue"}
    if "AnnotatedValue" in base:
        out |= set(it.class_universe.atoms) - {"AnnotatedValue"}
    return frozenset(out)


# --------------------------------------------------------------------- R02.b
# leaves that may appear in a narrowed result although they are module-level
# names: (unit qualname, leaf) -> reason
R02B_LEAF_EXCEPTIONS = {
    ("patma::LenPredicate.__call__", "tuple"): "guarded by `cleaned.typ is tuple`: the constructed tuple type is the input's own type",
    ("patma::LenPredicate.__call__", "False"): "is_many flag of a SequenceValue member",
    ("stacked_scopes::Constraint.apply_to_value", "_PROMOTED_TYPES"): "the types promoted to the declared type are members of it (int is accepted where float is declared); the table's agreement with TypeObject's artificial bases is R02.j, and R02.l shows on the model that nothing outside the value appears",
    ("predicates::_non_instances", "_PROMOTED_TYPES"): "same table, same reason",
}


def _resolve_leaf_ok(
    unit: ast.AST, name: ast.Name, allowed_params: Set[str], seen: Set[str], outer: List[ast.AST]
) -> Optional[str]:
    """None if the name leaf is derived only from allowed sources, else why not."""
    nid = name.id
    if nid in ("None", "True", "False", "self", "cls"):
        return None
    if nid in allowed_params:
        return None
    if nid in seen:
        return None
    seen = seen | {nid}
    assigns = local_assignments(unit, nid)
    if not assigns:
        # free variable of a closure: parameters / locals of the enclosing
        # function are components of the tested value
        for o in outer:
            if nid in params_of(o) or local_assignments(o, nid):
                return None
        # comprehension-bound inside the expression itself is handled by caller
        return f"module-level or unknown name `{nid}`"
    for a in assigns:
        why = _expr_ok(unit, a, allowed_params, seen, outer)
        if why:
            return f"{nid} <- {why}"
    return None


def _expr_ok(
    unit: ast.AST, expr: ast.AST, allowed_params: Set[str], seen: Set[str], outer: List[ast.AST]
) -> Optional[str]:
    bound = comp_bound_names(expr)
    for leaf in name_leaves(expr):
        if leaf.id in bound:
            continue
        why = _resolve_leaf_ok(unit, leaf, allowed_params, seen, outer)
        if why:
            return why
    # attribute leaves rooted at module-level names, e.g. AnySource.inference
    return None


FORBIDDEN_CTORS = {
    "AnyValue": "Any is wider than both the input and the tested type",
}


def r02b(prog: Program, chk: Check) -> None:
    chk.rule(
        "R02.b",
        "never widens: every yielded/returned value of a narrowing unit is built only from the input "
        "value, the tested value (self.* / closure variables) and recursive application",
        floor=25,
    )
    units: List[Tuple[str, str, ast.FunctionDef]] = [
        ("stacked_scopes", "Constraint.apply_to_value", prog.func("stacked_scopes", "Constraint.apply_to_value"))
    ] + predicate_units(prog)
    for m, q, fn in units:
        allowed = set(params_of(fn))
        outer = [o for o in enclosing_functions(fn) if isinstance(o, (ast.FunctionDef, ast.AsyncFunctionDef))]
        outs: List[Tuple[ast.AST, ast.AST]] = []
        for r in returns_of(fn):
            if r.value is not None:
                outs.append((r, r.value))
        for y in yields_of(fn):
            if y.value is not None:
                outs.append((y, y.value))
        idx: Dict[str, int] = {}
        for node, expr in outs:
            text = norm(expr)
            idx[text] = idx.get(text, 0) + 1
            key = f"{m}::{q}::out={text}" + (f"#{idx[text]}" if idx[text] > 1 else "")
            why = _expr_ok(fn, expr, allowed, set(), outer)
            if why:
                leafname = why.split("`")[1] if "`" in why else why
                if (f"{m}::{q}", leafname) in R02B_LEAF_EXCEPTIONS:
                    why = None
            if not why:
                for c in ast.walk(expr):
                    if isinstance(c, ast.Call) and isinstance(c.func, ast.Name) and c.func.id in FORBIDDEN_CTORS:
                        why = f"constructs {c.func.id}: {FORBIDDEN_CTORS[c.func.id]}"
                # also constructors reached through local names
                if not why:
                    for leaf in name_leaves(expr):
                        for a in local_assignments(fn, leaf.id):
                            for c in ast.walk(a):
                                if isinstance(c, ast.Call) and isinstance(c.func, ast.Name) and c.func.id in FORBIDDEN_CTORS:
                                    why = f"{leaf.id} constructs {c.func.id}: {FORBIDDEN_CTORS[c.func.id]}"
            chk.ob(
                "R02.b",
                key,
                not why,
                prog.site(m, node),
                f"narrowed result `{text}` has a source outside the input/tested value: {why}",
            )


# --------------------------------------------------------------------- R02.c
def _single_return(fn: ast.FunctionDef) -> Optional[ast.expr]:
    rets = returns_of(fn)
    if len(rets) != 1:
        return None
    return rets[0].value


def _is_inverted_children(expr: ast.AST, wrapper: str) -> bool:
    """wrapper(tuple(cons.invert() for cons in self.constraints))"""
    if not (isinstance(expr, ast.Call) and last_attr(expr) == wrapper and len(expr.args) == 1):
        return False
    arg = expr.args[0]
    if isinstance(arg, ast.Call) and last_attr(arg) in ("tuple", "list") and len(arg.args) == 1:
        arg = arg.args[0]
    if not isinstance(arg, (ast.GeneratorExp, ast.ListComp)):
        return False
    if len(arg.generators) != 1:
        return False
    gen = arg.generators[0]
    if gen.ifs or not isinstance(gen.target, ast.Name):
        return False
    if norm(gen.iter) != "self.constraints":
        return False
    elt = arg.elt
    return (
        isinstance(elt, ast.Call)
        and isinstance(elt.func, ast.Attribute)
        and elt.func.attr == "invert"
        and isinstance(elt.func.value, ast.Name)
        and elt.func.value.id == gen.target.id
        and not elt.args
    )


def r02c(prog: Program, chk: Check) -> None:
    chk.rule("R02.c", "inversion duality: De Morgan shape of every AbstractConstraint.invert", floor=7)
    subs = prog.subclasses("AbstractConstraint", strict=True)
    expected = {"AndConstraint": "OrConstraint", "OrConstraint": "AndConstraint", "EquivalentConstraint": "EquivalentConstraint"}
    for cname in subs:
        ci = prog.cls(cname)
        site = prog.site(ci.module, ci.node)
        found = prog.find_method(cname, "invert")
        own = found is not None and found[0].name != "AbstractConstraint"
        key = f"{ci.module.name}::{cname}.invert"
        if not chk.ob("R02.c", key + "::defined", own, site, f"{cname} does not override the abstract invert()"):
            continue
        fn = found[1]  # type: ignore[index]
        if cname in expected:
            ret = _single_return(fn)
            ok = ret is not None and _is_inverted_children(ret, expected[cname])
            chk.ob(
                "R02.c",
                key + "::de-morgan",
                ok,
                prog.site(ci.module, fn),
                f"{cname}.invert must return {expected[cname]}(tuple(c.invert() for c in self.constraints)) over all children",
            )
        elif cname == "Constraint":
            ctor = [c for c in calls_in(fn, "Constraint", nested=False)]
            ok = False
            if len(ctor) == 1 and len(ctor[0].args) == 4 and not ctor[0].keywords:
                a = [norm(x) for x in ctor[0].args]
                ok = a == ["self.varname", "self.constraint_type", "not self.positive", "self.value"]
            chk.ob(
                "R02.c",
                key + "::flips-positive-only",
                ok,
                prog.site(ci.module, fn),
                "Constraint.invert must rebuild Constraint(self.varname, self.constraint_type, not self.positive, self.value)",
            )
            # the cached inverse must be that object
            rets = [norm(r.value) for r in returns_of(fn) if r.value is not None]
            chk.ob(
                "R02.c",
                key + "::returns",
                set(rets) <= {"self.inverted", "inverted"} and "inverted" in rets,
                prog.site(ci.module, fn),
                f"Constraint.invert returns {rets}; expected the cached or freshly built inverse only",
            )
        elif cname == "NullConstraint":
            ret = _single_return(fn)
            chk.ob("R02.c", key + "::self", ret is not None and norm(ret) == "self", prog.site(ci.module, fn), "NullConstraint.invert must return self")
        elif cname == "PredicateProvider":
            ret = _single_return(fn)
            chk.ob(
                "R02.c",
                key + "::null",
                ret is not None and norm(ret) == "NULL_CONSTRAINT",
                prog.site(ci.module, fn),
                "PredicateProvider.invert must return NULL_CONSTRAINT (no narrowing), never itself",
            )
        else:
            chk.ob("R02.c", key + "::unclassified", False, site, f"new AbstractConstraint subclass {cname}: invert() shape not classified")
    # `not x` uses invert()
    fn = prog.func("name_check_visitor", "NameCheckVisitor.visit_UnaryOp")
    ok = any(
        isinstance(c.func, ast.Attribute) and c.func.attr == "invert"
        for r in returns_of(fn)
        if r.value is not None
        for c in calls_in(r.value)
    )
    chk.ob(
        "R02.c",
        "name_check_visitor::NameCheckVisitor.visit_UnaryOp::not-inverts",
        ok,
        prog.site("name_check_visitor", fn),
        "`not cond` must attach constraint.invert() to its result",
    )


# --------------------------------------------------------------------- R02.d
COMPLEMENT = {
    "Eq": ("operator.eq", "operator.ne"),
    "NotEq": ("operator.ne", "operator.eq"),
    "Lt": ("operator.lt", "operator.ge"),
    "LtE": ("operator.le", "operator.gt"),
    "Gt": ("operator.gt", "operator.le"),
    "GtE": ("operator.ge", "operator.lt"),
    "Is": ("operator.is_", "operator.is_not"),
    "IsNot": ("operator.is_not", "operator.is_"),
    "In": ("_in", "_not_in"),
    "NotIn": ("_not_in", "_in"),
}
NEGATED_AST = {"Eq": "NotEq", "NotEq": "Eq", "Lt": "GtE", "LtE": "Gt", "Gt": "LtE", "GtE": "Lt", "Is": "IsNot", "IsNot": "Is", "In": "NotIn", "NotIn": "In"}


def r02d(prog: Program, chk: Check) -> None:
    chk.rule("R02.d", "comparator table: positive = the AST operator, negative = its logical complement", floor=20)
    f = Folder(prog, "name_check_visitor")
    site = "pyanalyze/name_check_visitor.py"
    try:
        table = f.table("COMPARATOR_TO_OPERATOR")
    except CannotFold as e:
        raise AnchorError(f"cannot fold COMPARATOR_TO_OPERATOR: {e}")
    try:
        rev = f.table("AST_TO_REVERSE")
    except CannotFold as e:
        # derived from COMPARATOR_TO_OPERATOR by comprehension: an inconsistent base
        # table makes the derivation fail (at import time, too)
        rev = {}
        chk.ob("R02.d", "name_check_visitor::AST_TO_REVERSE::derivable", False, site, f"AST_TO_REVERSE cannot be derived from COMPARATOR_TO_OPERATOR: {e}")
    rows = {k.last: v for k, v in table.items() if isinstance(k, Sym)}
    for cls, (pos, neg) in COMPLEMENT.items():
        row = rows.get(cls)
        got = (repr(row[0]), repr(row[1])) if row else None
        chk.ob(
            "R02.d",
            f"name_check_visitor::COMPARATOR_TO_OPERATOR::{cls}",
            got == (pos, neg),
            site,
            f"row ast.{cls} is {got}, the language semantics require ({pos}, {neg})",
        )
    for extra in sorted(set(rows) - set(COMPLEMENT)):
        chk.ob("R02.d", f"name_check_visitor::COMPARATOR_TO_OPERATOR::{extra}", False, site, f"unknown comparator row ast.{extra}")
    revrows = {k.last: v.last for k, v in rev.items() if isinstance(k, Sym) and isinstance(v, Sym)}
    for cls, neg in NEGATED_AST.items():
        chk.ob(
            "R02.d",
            f"name_check_visitor::AST_TO_REVERSE::{cls}",
            revrows.get(cls) == neg,
            site,
            f"AST_TO_REVERSE[ast.{cls}] is {revrows.get(cls)}, complement is ast.{neg}",
        )
    # _in/_not_in helper bodies
    fin = prog.func("name_check_visitor", "_in")
    fnot = prog.func("name_check_visitor", "_not_in")
    r1, r2 = _single_return(fin), _single_return(fnot)
    chk.ob(
        "R02.d",
        "name_check_visitor::_in::body",
        r1 is not None and norm(r1) == "operator.contains(b, a)",
        prog.site("name_check_visitor", fin),
        "_in(a, b) must be operator.contains(b, a)",
    )
    chk.ob(
        "R02.d",
        "name_check_visitor::_not_in::body",
        r2 is not None and norm(r2) == "not operator.contains(b, a)",
        prog.site("name_check_visitor", fnot),
        "_not_in(a, b) must be `not operator.contains(b, a)`",
    )
    # _OPERATOR in predicates.py: (positive, use_is) -> op
    pf = Folder(prog, "predicates")
    optab = pf.table("_OPERATOR")
    want = {(True, True): "operator.is_", (False, True): "operator.is_not", (True, False): "operator.eq", (False, False): "operator.ne"}
    for k, v in want.items():
        chk.ob(
            "R02.d",
            f"predicates::_OPERATOR::{k}",
            repr(optab.get(k)) == v,
            "pyanalyze/predicates.py",
            f"_OPERATOR[{k}] is {optab.get(k)!r}, expected {v}",
        )


# --------------------------------------------------------------------- R02.e
TRUE_FAMILY = {"value_always_true", "value_always_true_mutable", "type_always_true"}
FALSE_FAMILY = {"value_always_false", "value_always_false_mutable"}


def r02e(prog: Program, chk: Check) -> None:
    chk.rule("R02.e", "truthiness verdict sets and union rule", floor=6)
    f = Folder(prog, "boolability")
    site = "pyanalyze/boolability.py"
    t = {s.last for s in f.table("_TRUE_BOOLABILITIES")}
    fa = {s.last for s in f.table("_FALSE_BOOLABILITIES")}
    chk.ob("R02.e", "boolability::_TRUE_BOOLABILITIES", t == TRUE_FAMILY, site, f"_TRUE_BOOLABILITIES is {sorted(t)}; only the three always-true members may narrow the false branch away")
    chk.ob("R02.e", "boolability::_FALSE_BOOLABILITIES", fa == FALSE_FAMILY, site, f"_FALSE_BOOLABILITIES is {sorted(fa)}")
    st = prog.func("boolability", "Boolability.is_safely_true")
    sf = prog.func("boolability", "Boolability.is_safely_false")
    r = _single_return(st)
    chk.ob("R02.e", "boolability::Boolability.is_safely_true", r is not None and norm(r) == "self in _TRUE_BOOLABILITIES", prog.site("boolability", st), "is_safely_true must be membership in _TRUE_BOOLABILITIES")
    r = _single_return(sf)
    chk.ob(
        "R02.e",
        "boolability::Boolability.is_safely_false",
        r is not None and norm(r) in ("self is Boolability.value_always_false", "self == Boolability.value_always_false"),
        prog.site("boolability", sf),
        "is_safely_false must hold only for value_always_false (mutable empties may become non-empty)",
    )
    # union rule in get_boolability: the arm that picks min() must be preceded
    # by arms returning erroring_bool / boolable when present and by the
    # mixed true/false arm returning boolable
    gb = prog.func("boolability", "get_boolability")
    arms: List[Tuple[str, str]] = []
    for n in walk_no_nested(gb):
        if isinstance(n, ast.If) and any(isinstance(x, ast.Name) and x.id == "boolabilities" for x in ast.walk(n.test)):
            cur: Optional[ast.If] = n
            if isinstance(parent(n), ast.If) and n in parent(n).orelse:  # type: ignore[union-attr]
                continue
            while cur is not None:
                rets = [norm(r.value) for r in returns_of(ast.Module(body=cur.body, type_ignores=[])) if r.value is not None]
                arms.append((norm(cur.test), ";".join(rets)))
                if len(cur.orelse) == 1 and isinstance(cur.orelse[0], ast.If):
                    cur = cur.orelse[0]
                else:
                    cur = None
    texts = [a for a in arms]
    mixed_idx = next((i for i, (t_, r_) in enumerate(texts) if "_TRUE_BOOLABILITIES" in t_ and "_FALSE_BOOLABILITIES" in t_ and r_ == "Boolability.boolable"), None)
    min_idx = next((i for i, (t_, r_) in enumerate(texts) if "min(" in r_), None)
    err_idx = next((i for i, (t_, r_) in enumerate(texts) if "erroring_bool" in t_ and r_ == "Boolability.erroring_bool"), None)
    boo_idx = next((i for i, (t_, r_) in enumerate(texts) if "Boolability.boolable in boolabilities" in t_ and r_ == "Boolability.boolable"), None)
    ok = None not in (mixed_idx, min_idx, err_idx, boo_idx) and max(err_idx, boo_idx, mixed_idx) < min_idx  # type: ignore[type-var]
    chk.ob(
        "R02.e",
        "boolability::get_boolability::union-arms",
        ok,
        prog.site("boolability", gb),
        f"union arms {texts}: erroring/boolable/mixed-true-false arms must all precede the min() arm",
        witness=texts,
    )
    # polarity of always-true / always-false verdicts in _get_boolability_no_mvv:
    # each such return must be control dependent on a test; and the two branches
    # of a test may not return verdicts of the same family with opposite guards
    nf = prog.func("boolability", "_get_boolability_no_mvv")
    for r in returns_of(nf):
        if r.value is None:
            continue
        mem = norm(r.value).replace("Boolability.", "")
        if mem not in TRUE_FAMILY | FALSE_FAMILY or mem == "type_always_true":
            continue
        gs = guards_of(r, nf)
        non_dispatch = [(norm(g), pol) for g, pol in gs if "isinstance(value," not in norm(g)]
        chk.ob(
            "R02.e",
            f"boolability::_get_boolability_no_mvv::verdict={mem}::guards={'&'.join(('' if p else 'not ') + g for g, p in non_dispatch)}",
            bool(non_dispatch),
            prog.site("boolability", r),
            f"verdict {mem} returned without any test on the value's content",
        )
    # sibling polarity: for `if T: return X ... else: return Y` with X, Y in
    # opposite families the true-family must sit on the non-empty side.
    EMPTY_ATOMS = {"not value.members": True, "boolean_value": False, "value.kv_pairs": False, "may_be_empty": None}
    for r in returns_of(nf):
        if r.value is None:
            continue
        mem = norm(r.value).replace("Boolability.", "")
        fam = "T" if mem in ("value_always_true", "value_always_true_mutable") else "F" if mem in FALSE_FAMILY else None
        if fam is None:
            continue
        for g, pol in guards_of(r, nf):
            gt = norm(g)
            if gt in EMPTY_ATOMS and EMPTY_ATOMS[gt] is not None:
                empty_side = EMPTY_ATOMS[gt]
                is_empty_here = pol == empty_side
                chk.ob(
                    "R02.e",
                    f"boolability::_get_boolability_no_mvv::polarity::{mem}@{gt}={pol}",
                    (fam == "F") == is_empty_here,
                    prog.site("boolability", r),
                    f"verdict {mem} is returned on the {'empty/false' if is_empty_here else 'non-empty/true'} side of `{gt}`",
                )
