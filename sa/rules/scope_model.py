"""Finite model of reaching definitions (C09): the control-flow visitors of
NameCheckVisitor (visit_If, visit_While, visit_For, _handle_loop_else, visit_Try,
visit_try_except, visit_Break, visit_Continue, _subscope_and_maybe_supress) and
the scope machinery (FunctionScope.set / get_local / subscope / loop_scope /
suppressing_subscope / get_combined_scope / combine_subscopes, Scope.get,
StackedScopes) are interpreted from their AST in the collecting phase on
generated function bodies (real `ast` trees); the definition nodes recorded for
each variable use are compared with an independent reaching-definitions
analysis (strict and liberal, as the property defines them)."""

from __future__ import annotations

import ast
import collections
import itertools
from typing import Any, Dict, FrozenSet, Iterator, List, Optional, Sequence, Set, Tuple

from ..minterp import AssertionFailed, Interp, ModelError, Obj, Opaque, PyRaise, Sym, Unsupported
from ..model import AnchorError, Program

UNINIT = "<unbound>"


class ScopeModel:
    VISITOR_METHODS = ("visit_If", "visit_While", "visit_For", "_handle_loop_else", "visit_Try", "visit_try_except", "visit_Break", "visit_Continue", "_subscope_and_maybe_supress", "visit_With", "visit_single_cm")
    OPTIONAL_VISITOR_METHODS = ("_combine_with_previous_iteration",)
    SCOPE_METHODS = ("set", "get_local", "subscope", "loop_scope", "suppressing_subscope", "get_combined_scope", "combine_subscopes", "get_all_definition_nodes", "_add_composite")
    STACK_METHODS = ("get", "get_with_scope", "set", "subscope", "loop_scope", "suppressing_subscope", "combine_subscopes", "current_scope")

    def __init__(self, prog: Program) -> None:
        self.prog = prog
        self.method_defs: Dict[Tuple[str, str], ast.FunctionDef] = {}
        ncv = prog.cls("NameCheckVisitor")
        for m in self.VISITOR_METHODS:
            if m not in ncv.methods:
                raise AnchorError(f"NameCheckVisitor.{m} not found")
            self.method_defs[("NameCheckVisitor", m)] = ncv.methods[m]
        # helpers of the visitor that the interpreted methods call on self: interpreted too when present
        for m, fn in ncv.methods.items():
            if m.startswith("_") and m not in self.VISITOR_METHODS and any(
                isinstance(c, ast.Call) and isinstance(c.func, ast.Attribute) and c.func.attr == m and isinstance(c.func.value, ast.Name) and c.func.value.id == "self"
                for vm in self.VISITOR_METHODS for c in ast.walk(ncv.methods[vm])
            ) and m not in ("_set_name_in_scope", "_generic_visit_list", "_member_value_of_iterator", "_is_collecting", "_check_boolability", "_show_error_if_checking"):
                self.method_defs[("NameCheckVisitor", m)] = fn
        fs = prog.cls("FunctionScope")
        for m in self.SCOPE_METHODS:
            if m not in fs.methods:
                raise AnchorError(f"FunctionScope.{m} not found")
            self.method_defs[("FunctionScope", m)] = fs.methods[m]
        # every other method of FunctionScope is interpreted too when something calls it (value computation is stubbed)
        for m, fn in fs.methods.items():
            if m not in ("resolve_reference", "_get_value_from_nodes", "_resolve_origin", "__init__"):
                self.method_defs.setdefault(("FunctionScope", m), fn)
        sc = prog.classes_by_qual.get(("stacked_scopes", "Scope")) if hasattr(prog, "classes_by_qual") else None
        sc = sc or prog.cls("Scope")
        self.method_defs[("FunctionScope", "get")] = sc.methods["get"]
        self.method_defs[("ModuleScope", "get")] = sc.methods["get"]
        self.method_defs[("ModuleScope", "get_local")] = sc.methods["get_local"]
        ss = prog.cls("StackedScopes")
        for m in self.STACK_METHODS:
            self.method_defs[("StackedScopes", m)] = ss.methods[m]
        # the values mode (closures, both phases) also needs value resolution, module scopes and the scope stack
        self.value_method_defs: Dict[Tuple[str, str], ast.FunctionDef] = dict(self.method_defs)
        for m, fn in fs.methods.items():
            if m != "__init__":
                self.value_method_defs.setdefault(("FunctionScope", m), fn)
        for m, fn in sc.methods.items():
            if m not in ("__init__", "__post_init__"):
                self.value_method_defs.setdefault(("FunctionScope", m), fn)
                self.value_method_defs[("ModuleScope", m)] = fn
        for m, fn in ss.methods.items():
            if m != "__init__":
                self.value_method_defs.setdefault(("StackedScopes", m), fn)
        for m in ("_visit_function_body", "visit_Nonlocal", "visit_Global", "_is_collecting"):
            if m not in ncv.methods:
                raise AnchorError(f"NameCheckVisitor.{m} not found")
            self.value_method_defs[("NameCheckVisitor", m)] = ncv.methods[m]
        self.module_defs = {"uniq_chain": prog.func("stacked_scopes", "uniq_chain")}
        self.value_module_defs = dict(self.module_defs, _constrain_value=prog.func("stacked_scopes", "_constrain_value"))
        for name in ("LEAVES_SCOPE", "LEAVES_LOOP"):
            v = prog.module_assign("stacked_scopes", name)
            if not (isinstance(v, ast.Constant) and isinstance(v.value, str)):
                raise AnchorError(f"stacked_scopes.{name} is not a string constant")
            setattr(self, name, v.value)

    def reported(self, fn_node: ast.FunctionDef) -> Any:
        """{use node id: set of definition labels} after the collecting phase, or ("crash", why).
        Definition labels: the literal assigned, "for:<var>" for a loop target, UNINIT."""
        uninit = Sym("_UNINITIALIZED")
        uninit_value = Obj("UninitializedValue")
        empty_origin = frozenset()
        collect = Sym("VisitorState.collect_names")
        module_scope = Obj("ModuleScope", scope_type=Sym("ScopeType.module_scope"), variables={}, parent_scope=None, scope_node=None)
        module_scope._attrs["resolve_reference"] = lambda value, state: value
        fscope = Obj(
            "FunctionScope",
            scope_type=Sym("ScopeType.function_scope"), variables={}, parent_scope=module_scope, scope_node=None, simplification_limit=None,
            name_to_current_definition_nodes=collections.defaultdict(list),
            usage_to_definition_nodes=collections.defaultdict(list),
            definition_node_to_value={uninit: Opaque("empty")},
            name_to_all_definition_nodes=collections.defaultdict(dict),
            name_to_composites=collections.defaultdict(dict),
            referencing_value_vars=collections.defaultdict(lambda: uninit_value),
            accessed_from_special_nodes=set(), current_loop_scopes=[], declared_types={},
        )
        fscope._attrs["resolve_reference"] = lambda value, state: value
        fscope._attrs["_get_value_from_nodes"] = lambda definers, ctx, constraints=(): Obj("Value")
        fscope._attrs["_resolve_origin"] = lambda definers: frozenset(definers)
        scopes = Obj("StackedScopes", scopes=[Obj("BuiltinScope"), module_scope, fscope])
        holder: List[Interp] = []
        labels: Dict[Any, str] = {uninit: UNINIT}
        null_constraint = Obj("NullConstraint")
        null_constraint._attrs["invert"] = lambda: null_constraint

        def override(obj: Obj, attr: str, value: Any) -> Obj:
            saved: List[Any] = []

            def enter():
                saved.append(obj.get(attr, fn_node))
                obj._attrs[attr] = value

            def exit_(exc=None):
                obj._attrs[attr] = saved.pop()

            return Obj("ContextManager", __enter__=enter, __exit__=exit_)

        nop_cm = lambda *a, **k: Obj("ContextManager", __enter__=lambda: [], __exit__=lambda exc=None: None)  # noqa: E731

        def visit(node: Any) -> Any:
            it = holder[0]
            if isinstance(node, (ast.If, ast.While, ast.For, ast.Try, ast.Break, ast.Continue, ast.With)):
                md = self.method_defs[("NameCheckVisitor", "visit_" + type(node).__name__)]
                return it.call_def(md, [visitor, node], md)
            if isinstance(node, ast.Assign):
                tgt = node.targets[0]
                labels[tgt] = repr(node.value.value)  # type: ignore[attr-defined]
                it.call_def(self.method_defs[("StackedScopes", "set")], [scopes, tgt.id, Obj("Value"), tgt, visitor.get("state", node)], node)  # type: ignore[attr-defined]
                return None
            if isinstance(node, ast.Name) and isinstance(node.ctx, ast.Store):
                labels[node] = f"for:{node.id}"
                it.call_def(self.method_defs[("StackedScopes", "set")], [scopes, node.id, visitor.get("being_assigned", node), node, visitor.get("state", node)], node)
                return None
            if isinstance(node, ast.Expr) and isinstance(node.value, ast.Name):
                use = node.value
                it.call_def(self.method_defs[("StackedScopes", "get")], [scopes, use.id, use, visitor.get("state", node)], node)
                return None
            if isinstance(node, ast.Return):
                it.call_def(self.method_defs[("StackedScopes", "set")], [scopes, self.LEAVES_SCOPE, Obj("Value"), node, visitor.get("state", node)], node)
                return None
            if isinstance(node, ast.ExceptHandler):
                return generic_visit_list(node.body)
            if isinstance(node, ast.Pass):
                return None
            if isinstance(node, ast.Expr) and isinstance(node.value, ast.Call):
                return None  # an opaque call: no effect on the scopes, may raise
            if isinstance(node, ast.Call):
                return Obj("Value")  # the context expression of a with statement
            raise AnchorError(f"scope model: statement {type(node).__name__} is outside the generated grammar")

        def generic_visit_list(stmts: Any) -> None:
            for st in stmts:
                visit(st)

        def set_name_in_scope(varname: str, node: Any, value: Any = None, **kw: Any) -> Any:
            it = holder[0]
            it.call_def(self.method_defs[("StackedScopes", "set")], [scopes, varname, value, node, visitor.get("state", node)], fn_node)
            return Obj("Value"), frozenset()

        def constraint_from_condition(node: Any, check_boolability: bool = True) -> Any:
            return Obj("CondValue", node=node), null_constraint

        visitor = Obj(
            "NameCheckVisitor",
            scopes=scopes, state=collect, being_assigned=None, yield_checker=Opaque("yield_checker"),
            options=Obj("Options", get_value_for=lambda opt: False),
            visit=visit, _generic_visit_list=generic_visit_list, _set_name_in_scope=set_name_in_scope,
            constraint_from_condition=constraint_from_condition, add_constraint=lambda node, c: None,
            catch_errors=nop_cm, _member_value_of_iterator=lambda node, is_async=False: Obj("Value"),
            _is_collecting=lambda: True,
            # `with suppress():` may swallow exceptions, any other context manager of the grammar may not
            visit_withitem=lambda item, is_async=False: isinstance(item.context_expr, ast.Call) and isinstance(item.context_expr.func, ast.Name) and item.context_expr.func.id == "suppress",
        )

        def get_boolability(args: List[Any]) -> Any:
            v = args[0]
            n = v.get("node", fn_node) if isinstance(v, Obj) and v._kind == "CondValue" else None
            if isinstance(n, ast.Constant) and n.value is True:
                return Sym("Boolability.value_always_true")
            return Sym("Boolability.boolable")

        def isinstance_hook(v: Any, cls: str) -> Optional[bool]:
            if cls == "Value":
                return isinstance(v, Obj) and v._kind in ("Value", "CondValue")
            if cls in ("ReferencingValue", "CompositeVariable", "AnnotatedValue", "FunctionScope", "_ConstrainedValue"):
                return isinstance(v, Obj) and v._kind == cls
            return None

        def lookup_context(args: List[Any]) -> Any:
            return Obj("_LookupContext", varname=args[0], fallback_value=args[1], node=args[2], state=args[3])

        funcs = {
            "get_boolability": get_boolability,
            "_extract_definite_value": lambda args: None,
            "unannotate_value": lambda args: (args[0], []),
            "AnyValue": lambda args: Obj("Value"),
            "_LookupContext": lookup_context,
            "unite_and_simplify": lambda args: Obj("Value"),
        }
        globals_ = {
            "ast": ast,
            "qcore": Obj("qcore", override=override, empty_context=nop_cm()),
            "chain": Obj("chain", from_iterable=lambda x: [z for y in x for z in y]),
            "OrderedDict": collections.OrderedDict,
            "LEAVES_SCOPE": self.LEAVES_SCOPE, "LEAVES_LOOP": self.LEAVES_LOOP,
            "_UNINITIALIZED": uninit, "UNINITIALIZED_VALUE": uninit_value, "EMPTY_ORIGIN": empty_origin,
            "ForLoopAlwaysEntered": Sym("ForLoopAlwaysEntered"), "UnionSimplificationLimit": Sym("UnionSimplificationLimit"), "AlwaysPresentExtension": Sym("AlwaysPresentExtension"),
        }
        it = Interp({}, {}, (), funcs, isinstance_hook, self.method_defs, self.module_defs, globals_)
        holder.append(it)
        try:
            generic_visit_list(fn_node.body)
        except Unsupported as u:
            raise AnchorError(f"the scope machinery cannot be modelled: {u}")
        except AssertionFailed as af:
            return ("crash", f"assertion {af}")
        except (PyRaise, ModelError) as e:
            return ("crash", str(e))
        usage = fscope.get("usage_to_definition_nodes", fn_node)
        out: Dict[int, Set[str]] = {}
        for (node, varname), definers in usage.items():
            if isinstance(node, ast.Name):
                out.setdefault(id(node), set()).update(labels.get(d, f"?{d!r}") for d in definers)
        return out


    # ------------------------------------------------------------ values mode
    def revealed(self, fn_node: ast.FunctionDef, module_vars: Sequence[str] = ()) -> Any:
        """{use node id: set of labels} of the values that the *checking* phase obtains for each
        variable use, or ("crash", why).  The function is visited the way the checker visits it:
        NameCheckVisitor._visit_function_body is interpreted (new FunctionScope through
        StackedScopes.add_scope, collecting pass, checking pass), nested defs recursively, and
        values are resolved by the real FunctionScope._get_value_from_nodes / _resolve_value /
        _resolve_origin / Scope.get / resolve_reference.  A value is the set of labels of the
        assignments it may come from."""
        uninit = Sym("_UNINITIALIZED")
        uninit_value = Obj("UninitializedValue", labels=frozenset({UNINIT}))
        never = Obj("Value", labels=frozenset())
        collect = Sym("VisitorState.collect_names")
        check = Sym("VisitorState.check_names")

        def val(*labels: str) -> Obj:
            return Obj("Value", labels=frozenset(labels))

        def unite(args: List[Any], kwargs: Any = None) -> Any:
            uniq: List[Any] = []
            for a in args:
                if not isinstance(a, Obj) or "labels" not in a._attrs:
                    raise AnchorError(f"scope model: cannot unite {a!r}")
                if not any(a is u or (a._kind == u._kind and a._attrs["labels"] == u._attrs["labels"]) for u in uniq):
                    uniq.append(a)
            uniq = [u for u in uniq if u._attrs["labels"]] or uniq[:1]
            if len(uniq) == 1:
                return uniq[0]
            return Obj("Value", labels=frozenset().union(*[u._attrs["labels"] for u in uniq]))

        unite.wants_kwargs = True  # type: ignore[attr-defined]

        class Ctx(Obj):
            def _key(self) -> Any:
                a = self._attrs
                fb = a["fallback_value"]
                return (a["varname"], None if fb is None else id(fb), a["node"] if not isinstance(a["node"], (list, dict)) else id(a["node"]), a["state"])

            def __eq__(self, other: Any) -> bool:
                return isinstance(other, Ctx) and self._key() == other._key()

            def __hash__(self) -> int:
                return hash(self._key())

        def lookup_context(args: List[Any]) -> Any:
            return Ctx("_LookupContext", varname=args[0], fallback_value=args[1], node=args[2], state=args[3])

        def replace(args: List[Any], kwargs: Any = None) -> Any:
            src = args[0]
            if not isinstance(src, Ctx):
                raise AnchorError("scope model: dataclasses.replace on something other than the lookup context")
            return Ctx("_LookupContext", **{**src._attrs, **(kwargs or {})})

        replace.wants_kwargs = True  # type: ignore[attr-defined]

        def make_fscope(args: List[Any], kwargs: Any = None) -> Obj:
            parent = args[0]
            scope_node = args[1] if len(args) > 1 else (kwargs or {}).get("scope_node")
            limit = args[2] if len(args) > 2 else (kwargs or {}).get("simplification_limit")
            return Obj(
                "FunctionScope",
                scope_type=Sym("ScopeType.function_scope"), variables={}, parent_scope=parent, scope_node=scope_node, scope_object=None, simplification_limit=limit,
                name_to_current_definition_nodes=collections.defaultdict(list),
                usage_to_definition_nodes=collections.defaultdict(list),
                definition_node_to_value={uninit: empty_constrained},
                name_to_all_definition_nodes=collections.defaultdict(dict),
                name_to_composites=collections.defaultdict(dict),
                referencing_value_vars=collections.defaultdict(lambda: uninit_value),
                accessed_from_special_nodes=set(), current_loop_scopes=[], declared_types={},
            )

        make_fscope.wants_kwargs = True  # type: ignore[attr-defined]
        empty_constrained = Obj("_ConstrainedValue", definition_nodes=(), constraints=[], resolution_cache={})
        builtin_scope = Obj("ModuleScope", scope_type=Sym("ScopeType.builtin_scope"), variables={}, parent_scope=None, scope_node=None, scope_object=None, simplification_limit=None, declared_types={})
        module_scope = Obj(
            "ModuleScope", scope_type=Sym("ScopeType.module_scope"), variables={v: val(f"mod:{v}") for v in module_vars}, parent_scope=builtin_scope, scope_node=None, scope_object=None,
            simplification_limit=None, declared_types={},
        )
        scopes = Obj("StackedScopes", scopes=[builtin_scope, module_scope], simplification_limit=None)
        holder: List[Interp] = []
        observed: Dict[int, Set[str]] = {}
        null_constraint = Obj("NullConstraint")
        null_constraint._attrs["invert"] = lambda: null_constraint

        def override(obj: Obj, attr: str, value: Any) -> Obj:
            saved: List[Any] = []

            def enter():
                saved.append(obj.get(attr, fn_node))
                obj._attrs[attr] = value

            def exit_(exc=None):
                obj._attrs[attr] = saved.pop()

            return Obj("ContextManager", __enter__=enter, __exit__=exit_)

        nop_cm = lambda *a, **k: Obj("ContextManager", __enter__=lambda: [], __exit__=lambda exc=None: None)  # noqa: E731
        md = self.value_method_defs

        def sset(name: Any, value: Any, node: Any) -> None:
            it = holder[0]
            it.call_def(md[("StackedScopes", "set")], [scopes, name, value, node, visitor.get("state", fn_node)], fn_node)

        def function_info(node: ast.FunctionDef) -> Obj:
            return Obj("FunctionInfo", node=node, params=[], is_evaluated=False, async_kind=Sym("AsyncFunctionKind.normal"))

        def visit(node: Any) -> Any:
            it = holder[0]
            if isinstance(node, (ast.If, ast.While, ast.For, ast.Try, ast.Break, ast.Continue, ast.With, ast.Nonlocal, ast.Global)):
                d = md[("NameCheckVisitor", "visit_" + type(node).__name__)]
                return it.call_def(d, [visitor, node], d)
            if isinstance(node, ast.FunctionDef):
                d = md[("NameCheckVisitor", "_visit_function_body")]
                it.call_def(d, [visitor, function_info(node)], d)
                return None
            if isinstance(node, ast.Assign):
                tgt = node.targets[0]
                sset(tgt.id, val(repr(node.value.value)), tgt)  # type: ignore[attr-defined]
                return None
            if isinstance(node, ast.Name) and isinstance(node.ctx, ast.Store):
                sset(node.id, val(f"for:{node.id}"), node)
                return None
            if isinstance(node, ast.Expr) and isinstance(node.value, ast.Name):
                use = node.value
                state = visitor.get("state", node)
                v = it.call_def(md[("StackedScopes", "get")], [scopes, use.id, use, state], node)
                if state is check:
                    if not (isinstance(v, Obj) and "labels" in v._attrs):
                        raise AnchorError(f"scope model: the lookup of {use.id} produced {v!r}")
                    observed.setdefault(id(use), set()).update(v._attrs["labels"])
                return None
            if isinstance(node, ast.Return):
                sset(self.LEAVES_SCOPE, val("<return>"), node)
                return None
            if isinstance(node, ast.ExceptHandler):
                return generic_visit_list(node.body)
            if isinstance(node, ast.Pass):
                return None
            if isinstance(node, ast.Expr) and isinstance(node.value, ast.Call):
                return None  # an opaque call (or a call of the nested function): no effect on the scopes
            if isinstance(node, ast.Call):
                return val("<cm>")
            raise AnchorError(f"scope model: statement {type(node).__name__} is outside the generated grammar")

        def generic_visit_list(stmts: Any) -> None:
            for st in stmts:
                visit(st)

        def set_name_in_scope(varname: str, node: Any, value: Any = None, **kw: Any) -> Any:
            sset(varname, value if value is not None else val("<none>"), node)
            return val("<set>"), frozenset()

        visitor = Obj(
            "NameCheckVisitor",
            scopes=scopes, state=check, being_assigned=None,
            yield_checker=Obj("YieldChecker", set_function_node=nop_cm, reset_yield_checks=lambda: None),
            options=Obj("Options", get_value_for=lambda opt: False),
            visit=visit, _generic_visit_list=generic_visit_list, _set_name_in_scope=set_name_in_scope,
            constraint_from_condition=lambda node, check_boolability=True: (Obj("CondValue", node=node, labels=frozenset({"<cond>"})), null_constraint),
            add_constraint=lambda node, c: None,
            catch_errors=nop_cm, _member_value_of_iterator=lambda node, is_async=False: val("<iter>"),
            visit_withitem=lambda item, is_async=False: isinstance(item.context_expr, ast.Call) and isinstance(item.context_expr.func, ast.Name) and item.context_expr.func.id == "suppress",
            return_values=[], is_generator=False, async_kind=None, _name_node_to_statement={}, current_class=None, unused_finder=None, annotate=False,
            _check_method_first_arg=lambda node, function_info=None: None,
            _check_function_unused_vars=lambda scope, enclosing_statement=None: None,
            _compute_return_type=lambda *a, **k: Obj("FunctionResult"),
            _show_error_if_checking=lambda *a, **k: None,
        )

        def get_boolability(args: List[Any]) -> Any:
            v = args[0]
            n = v.get("node", fn_node) if isinstance(v, Obj) and v._kind == "CondValue" else None
            if isinstance(n, ast.Constant) and n.value is True:
                return Sym("Boolability.value_always_true")
            return Sym("Boolability.boolable")

        def isinstance_hook(v: Any, cls: str) -> Optional[bool]:
            if cls == "Value":
                return isinstance(v, Obj) and "labels" in v._attrs
            if cls == "AnyValue":
                return False
            if cls in ("ReferencingValue", "CompositeVariable", "AnnotatedValue", "FunctionScope", "_ConstrainedValue"):
                return isinstance(v, Obj) and v._kind == cls
            return None

        def function_result(args: List[Any], kwargs: Any = None) -> Any:
            return Obj("FunctionResult")

        function_result.wants_kwargs = True  # type: ignore[attr-defined]
        funcs = {
            "get_boolability": get_boolability,
            "_extract_definite_value": lambda args: None,
            "unannotate_value": lambda args: (args[0], []),
            "AnyValue": lambda args: val("<any>"),
            "KnownValue": lambda args: val(f"<known:{args[0]!r}>"),
            "_LookupContext": lookup_context,
            "replace": replace,
            "flatten_values": lambda args: [args[0]],
            "unite_values": unite,
            "unite_and_simplify": unite,
            "safe_equals": lambda args: args[0] is args[1] or (isinstance(args[0], Obj) and isinstance(args[1], Obj) and args[0]._attrs.get("labels") == args[1]._attrs.get("labels")),
            "ReferencingValue": lambda args: Obj("ReferencingValue", scope=args[0], name=args[1], labels=frozenset({"<reference>"})),
            "FunctionScope": make_fscope,
            "FunctionResult": function_result,
        }
        globals_ = {
            "ast": ast,
            "qcore": Obj("qcore", override=override, empty_context=nop_cm()),
            "chain": Obj("chain", from_iterable=lambda x: [z for y in x for z in y]),
            "OrderedDict": collections.OrderedDict,
            "LEAVES_SCOPE": self.LEAVES_SCOPE, "LEAVES_LOOP": self.LEAVES_LOOP,
            "_UNINITIALIZED": uninit, "UNINITIALIZED_VALUE": uninit_value, "EMPTY_ORIGIN": frozenset(), "NO_RETURN_VALUE": never,
            "_empty_constrained": empty_constrained,
            "ForLoopAlwaysEntered": Sym("ForLoopAlwaysEntered"), "UnionSimplificationLimit": Sym("UnionSimplificationLimit"), "AlwaysPresentExtension": Sym("AlwaysPresentExtension"),
        }
        it = Interp({}, {}, (), funcs, isinstance_hook, md, self.value_module_defs, globals_)
        holder.append(it)
        try:
            visit(fn_node)
        except Unsupported as u:
            raise AnchorError(f"the scope machinery cannot be modelled (values): {u}")
        except AssertionFailed as af:
            return ("crash", f"assertion {af}")
        except (PyRaise, ModelError) as e:
            return ("crash", str(e))
        return observed


# ------------------------------------------------------------------ reference
State = Dict[str, FrozenSet[str]]


def _join(states: Sequence[Optional[State]]) -> Optional[State]:
    live = [s for s in states if s is not None]
    if not live:
        return None
    keys = set().union(*live)
    return {k: frozenset().union(*[s.get(k, frozenset({UNINIT})) for s in live]) for k in keys}


def function_names(fn: ast.FunctionDef) -> Tuple[Set[str], Set[str]]:
    """(names declared nonlocal / global, names assigned) directly in fn, nested functions excluded."""
    declared: Set[str] = set()
    assigned: Set[str] = set()
    todo: List[ast.AST] = list(fn.body)
    while todo:
        n = todo.pop()
        if isinstance(n, (ast.FunctionDef, ast.Lambda)):
            continue
        if isinstance(n, (ast.Nonlocal, ast.Global)):
            declared.update(n.names)
        elif isinstance(n, ast.Assign):
            assigned.update(t.id for t in n.targets if isinstance(t, ast.Name))
        elif isinstance(n, ast.For) and isinstance(n.target, ast.Name):
            assigned.add(n.target.id)
        todo.extend(ast.iter_child_nodes(n))
    return declared, assigned


class Reaching:
    """Structural reaching-definitions analysis of the generated grammar.  liberal=True:
    exception edges at every statement of a try body, every loop may exit after any iteration
    (also `while True`); liberal=False (strict): no exception edges (the grammar has no calls),
    `while True` only exits through break."""

    def __init__(self, liberal: bool) -> None:
        self.liberal = liberal
        self.uses: Dict[int, Set[str]] = {}
        self.executed: Set[str] = set()  # labels of the assignments some path executes
        self.defs: Dict[str, ast.FunctionDef] = {}  # nested functions defined so far
        self.rename: List[Tuple[Dict[str, str], Set[str]]] = []  # per function being executed: its own names, its global declarations
        self.returns: List[List[State]] = []  # states at the return statements of the nested function being executed

    def run(self, fn_node: ast.FunctionDef, initial: Optional[State] = None) -> Dict[int, Set[str]]:
        declared, assigned = function_names(fn_node)
        self.rename.append(({n: f"{fn_node.name}.{n}" for n in assigned - declared}, self.global_names(fn_node)))
        self.block(fn_node.body, dict(initial or {}), [])
        return self.uses

    @staticmethod
    def global_names(fn: ast.FunctionDef) -> Set[str]:
        return {n for x in ast.walk(fn) if isinstance(x, ast.Global) for n in x.names if not any(x in ast.walk(f) for f in ast.walk(fn) if isinstance(f, ast.FunctionDef) and f is not fn)}

    def key(self, name: str) -> str:
        """The variable a name denotes here: the innermost enclosing function that owns it, else the module's."""
        for own, global_decl in reversed(self.rename):
            if name in global_decl:
                return name
            if name in own:
                return own[name]
        return name

    def call_nested(self, fn: ast.FunctionDef, st: State, exc: List[List[State]]) -> Optional[State]:
        """A call of a nested function at a known point: its body runs on the caller's state;
        names it declares nonlocal / global or only reads are the caller's, the others are its own."""
        declared, assigned = function_names(fn)
        own = {n: f"{fn.name}.{n}" for n in assigned - declared}
        entry = {k: v for k, v in st.items() if k not in own.values()}
        self.rename.append((own, self.global_names(fn)))
        self.returns.append([])
        try:
            out, _, _ = self.block(fn.body, entry, exc)
            rets = self.returns[-1]
        finally:
            self.rename.pop()
            self.returns.pop()
        res = _join([out] + rets)
        if res is None:
            return None
        return {k: v for k, v in res.items() if k not in own.values()}

    def block(self, stmts: Sequence[ast.stmt], st: Optional[State], exc: List[List[State]]) -> Tuple[Optional[State], List[State], List[State]]:
        """-> (state after normal completion or None, states at break, states at continue)"""
        brk: List[State] = []
        cont: List[State] = []
        for s in stmts:
            if st is None:
                break
            if self.liberal:
                for e in exc:
                    e.append(dict(st))
            st, b, c = self.stmt(s, st, exc)
            brk += b
            cont += c
            if self.liberal and st is not None:
                for e in exc:
                    e.append(dict(st))
        return st, brk, cont

    def stmt(self, s: ast.stmt, st: State, exc: List[List[State]]) -> Tuple[Optional[State], List[State], List[State]]:
        if isinstance(s, ast.Assign):
            t = s.targets[0]
            self.executed.add(repr(s.value.value))  # type: ignore[attr-defined]
            return {**st, self.key(t.id): frozenset({repr(s.value.value)})}, [], []  # type: ignore[attr-defined]
        if isinstance(s, ast.Expr) and isinstance(s.value, ast.Name):
            self.uses.setdefault(id(s.value), set()).update(st.get(self.key(s.value.id), frozenset({UNINIT})))
            return st, [], []
        if isinstance(s, (ast.Pass, ast.Nonlocal, ast.Global)):
            return st, [], []
        if isinstance(s, ast.FunctionDef):
            self.defs[s.name] = s
            return st, [], []
        if isinstance(s, ast.Expr) and isinstance(s.value, ast.Call):
            for e in exc:  # strict and liberal: a call may raise
                e.append(dict(st))
            callee = s.value.func.id if isinstance(s.value.func, ast.Name) else None
            if callee in self.defs:
                return self.call_nested(self.defs[callee], st, exc), [], []
            return st, [], []
        if isinstance(s, ast.Return):
            if self.returns:
                self.returns[-1].append(dict(st))
            return None, [], []
        if isinstance(s, ast.Break):
            return None, [dict(st)], []
        if isinstance(s, ast.Continue):
            return None, [], [dict(st)]
        if isinstance(s, ast.If):
            a, b1, c1 = self.block(s.body, dict(st), exc)
            b, b2, c2 = self.block(s.orelse, dict(st), exc)
            return _join([a, b]), b1 + b2, c1 + c2
        if isinstance(s, (ast.While, ast.For)):
            always = isinstance(s, ast.While) and isinstance(s.test, ast.Constant) and s.test.value is True
            head: Optional[State] = dict(st)
            breaks: List[State] = []
            for _ in range(6):  # fixpoint over a finite lattice of small height
                entry = dict(head) if head is not None else None
                if entry is not None and isinstance(s, ast.For):
                    entry[self.key(s.target.id)] = frozenset({f"for:{s.target.id}"})  # type: ignore[attr-defined]
                out, b, c = self.block(s.body, entry, exc)
                breaks = b
                new_head = _join([st, out] + c)
                if new_head == head:
                    break
                head = new_head
            exits_normally = head if (self.liberal or not always) else None
            after_else, b2, c2 = self.block(s.orelse, dict(exits_normally), exc) if exits_normally is not None else (None, [], [])
            # liberal: "every loop may exit after any iteration" is read in the most permissive way,
            # also as an exit that does not run the else block
            skip_else = [dict(head)] if (self.liberal and head is not None and s.orelse) else []
            return _join([after_else] + breaks + skip_else), b2, c2
        if isinstance(s, ast.With):
            suppressing = isinstance(s.items[0].context_expr, ast.Call) and getattr(s.items[0].context_expr.func, "id", "") == "suppress"
            if not suppressing:
                return self.block(s.body, dict(st), exc)
            mine_w: List[State] = []
            out, b, c = self.block(s.body, dict(st), exc + [mine_w])
            return _join([out] + mine_w), b, c
        if isinstance(s, ast.Try):
            mine: List[State] = []
            body_out, b0, c0 = self.block(s.body, dict(st), exc + [mine])
            else_out, b1, c1 = self.block(s.orelse, body_out, exc) if body_out is not None else (None, [], [])
            outs = [else_out]
            brk, cont = b0 + b1, c0 + c1
            handler_in = _join(mine)
            for h in s.handlers:
                if handler_in is None:
                    continue
                o, b, c = self.block(h.body, dict(handler_in), exc)
                outs.append(o)
                brk += b
                cont += c
            if not s.finalbody:
                return _join(outs), brk, cont
            # finally runs on normal completion and on every abrupt exit of the statement
            res = None
            normal = _join(outs)
            if normal is not None:
                res, b, c = self.block(s.finalbody, dict(normal), exc)
                brk2, cont2 = list(b), list(c)
            else:
                brk2, cont2 = [], []
            new_brk: List[State] = []
            for bs in brk:
                o, b, c = self.block(s.finalbody, dict(bs), exc)
                if o is not None:
                    new_brk.append(o)
                brk2 += b
                cont2 += c
            new_cont: List[State] = []
            for cs in cont:
                o, b, c = self.block(s.finalbody, dict(cs), exc)
                if o is not None:
                    new_cont.append(o)
                brk2 += b
                cont2 += c
            if self.liberal:
                # an exception that no handler caught, or a return, also runs the finally block
                for e in mine:
                    self.block(s.finalbody, dict(e), exc)
            return res, new_brk + brk2, new_cont + cont2
        raise AnchorError(f"reference: statement {type(s).__name__} outside the grammar")


# ----------------------------------------------------------------- programs
def _blocks(depth: int, budget: int, counter: List[int], in_loop: bool) -> Iterator[List[str]]:
    """Statement lists (as source lines, relative indentation) of the grammar."""
    simple = ["x = {n}", "y = {n}", "x", "y", "return"] + (["break", "continue"] if in_loop else [])
    if budget <= 0:
        return
    for s in simple:
        yield [s]
    if depth > 0:
        inner = [["x = {n}"], ["x"], ["x = {n}", "break"] if in_loop else ["x = {n}", "return"], ["pass"]] + ([["x = {n}", "continue"]] if in_loop else [])
        loop_inner = [["x = {n}"], ["x", "x = {n}"], ["x = {n}", "break"], ["x = {n}", "continue"], ["if c:", "    break", "x = {n}"], ["if c:", "    x = {n}", "    continue", "y = {n}"]]
        for a in inner:
            for b in inner[:3] + [[]]:
                yield ["if c:"] + ["    " + l for l in a] + (["else:"] + ["    " + l for l in b] if b else [])
        for head in ("while c:", "while True:", "for i in it:"):
            for a in loop_inner:
                for e in ([], ["x = {n}"], ["y"], ["x"]):
                    if head == "while True:" and e:
                        continue
                    yield [head] + ["    " + l for l in a] + (["else:"] + ["    " + l for l in e] if e else [])
        with_body = [["x = {n}", "g()", "y = {n}"], ["g()", "x = {n}"], ["x = {n}", "break"] if in_loop else ["x = {n}", "return"], ["x = {n}", "g()", "continue"] if in_loop else ["x = {n}"]]
        for head in ("with suppress():", "with cm():"):
            for a in with_body:
                yield [head] + ["    " + l for l in a]
        try_body = [["x = {n}"], ["x = {n}", "g()", "y = {n}"], ["g()", "x = {n}"], ["x = {n}", "return"], ["x = {n}", "break"] if in_loop else ["x = {n}", "g()", "x = {n}"]]
        for a in try_body:
            for h in (["pass"], ["x = {n}"], ["x"], ["return"]):
                for e in ([], ["y = {n}"]):
                    for f in ([], ["x"], ["y = {n}"]):
                        yield ["try:"] + ["    " + l for l in a] + ["except E:"] + ["    " + l for l in h] + (["else:"] + ["    " + l for l in e] if e else []) + (["finally:"] + ["    " + l for l in f] if f else [])


def programs(step: int = 3) -> Iterator[str]:
    """def f(): <prefix assignment?> <construct> <uses>  - and constructs nested in a loop or a try."""
    counter = [0]

    def render(lines: List[str]) -> str:
        out = []
        n = 0
        for l in lines:
            while "{n}" in l:
                n += 1
                l = l.replace("{n}", str(n), 1)
            out.append("    " + l)
        return "def f():\n" + "\n".join(out) + "\n"

    # always included, whatever the sampling step: the shapes of the recorded findings
    for pinned in (
        ["y = {n}", "while c:", "    try:", "        break", "    finally:", "        y = {n}", "y"],
        ["y = {n}", "for i in it:", "    try:", "        continue", "    finally:", "        y = {n}", "y"],
        ["for i in it:", "    if c:", "        x = {n}", "        break", "    else:", "        x", "    x", "x"],
        ["x = {n}", "while c:", "    if c:", "        x = {n}", "        break", "else:", "    x", "x"],
        ["try:", "    try:", "        x = {n}", "        return", "    except E:", "        return", "    finally:", "        y = {n}", "    y = {n}", "except E:", "    x", "finally:", "    y", "y"],
        ["y = {n}", "while c:", "    y = {n}", "else:", "    y", "y"],
        ["while c:", "    x", "    x = {n}", "else:", "    x = {n}", "x"],
        ["while True:", "    x", "    x = {n}"],
        # a body whose last statement leaves, with a `continue` on a nested path: the loop does go round again
        ["x = {n}", "while c:", "    x", "    if c:", "        x = {n}", "        continue", "    break", "x"],
        ["x = {n}", "for i in it:", "    x", "    if c:", "        x = {n}", "        continue", "    return", "x"],
        ["while c:", "    if c:", "        x", "    if c:", "        x = {n}", "        continue", "    return", "x"],
        ["x = {n}", "for i in it:", "    x", "    x = {n}", "    continue", "x"],
        ["x = {n}", "while c:", "    x", "    try:", "        x = {n}", "        continue", "    finally:", "        y = {n}", "    break", "x"],
        # a body whose tail always returns: nothing of that path reaches the code after the loop
        ["x = {n}", "for i in it:", "    if c:", "        continue", "    x = {n}", "    return", "x"],
        ["x = {n}", "while c:", "    if c:", "        continue", "    x = {n}", "    return", "else:", "    x", "x"],
    ):
        yield render(pinned)
    constructs = [b for b in _blocks(1, 3, counter, False) if len(b) > 1]
    for pre in ([], ["x = {n}"], ["x = {n}", "y = {n}"]):
        for c in constructs:
            yield render(pre + c + ["x", "y"])
    # nesting: construct inside a while loop with else, inside try/finally, inside if
    loop_constructs = [b for b in _blocks(1, 3, counter, True) if len(b) > 1]
    for c in loop_constructs[::step]:
        yield render(["x = {n}", "while c:"] + ["    " + l for l in c] + ["    y"] + ["else:", "    x"] + ["x", "y"])
        yield render(["for i in it:"] + ["    " + l for l in c] + ["    x"] + ["x", "y"])
    # an abrupt exit directly in a with body, overwritten on the fall-through path
    for head in ("with suppress():", "with cm():"):
        for loop in ("while c:", "while True:", "for i in it:"):
            for leave in ("break", "continue"):
                for pre in ([], ["x = {n}"]):
                    yield render(pre + [loop, "    " + head, "        x = {n}", "        " + leave, "    x = {n}", "x"])
                    yield render(pre + [loop, "    " + head, "        x = {n}", "        g()", "        " + leave, "    x = {n}", "x"])
        for pre in ([], ["y = {n}"]):
            yield render(pre + ["if c:", "    y = {n}", "    while True:", "        " + head, "            x = {n}", "            break", "else:", "    x = {n}", "x", "y"])
    # what a continue carries reaches the else block (the loop test fails afterwards); what a break carries does not
    for loop in ("while c:", "for i in it:"):
        for leave in ("continue", "break"):
            for pre in ([], ["x = {n}"]):
                yield render(pre + [loop, "    if c:", "        x = {n}", "        " + leave, "    x = {n}", "else:", "    x", "x"])
                yield render(pre + [loop, "    if c:", "        if c:", "            x = {n}", "            " + leave, "        x = {n}", "    else:", "        x = {n}", "else:", "    x", "x"])
                yield render(pre + [loop, "    try:", "        g()", "        x = {n}", "        " + leave, "    except E:", "        x = {n}", "else:", "    x", "x"])
    # statements after a jump in the same block are dead: they must not hide what the jump carries out
    for loop in ("while c:", "while True:", "for i in it:"):
        for leave in ("break", "continue"):
            for pre in ([], ["x = {n}"]):
                yield render(pre + [loop, "    x = {n}", "    " + leave, "    x = {n}", "x"])
                yield render(pre + [loop, "    if c:", "        x = {n}", "        " + leave, "        x = {n}", "    x", "x"])
                yield render(pre + [loop, "    try:", "        x = {n}", "        " + leave, "        x = {n}", "    except E:", "        pass", "    x", "x"])
    for c in constructs[::step]:
        yield render(["try:"] + ["    " + l for l in c] + ["    y = {n}", "except E:", "    x", "finally:", "    y"] + ["x", "y"])
        yield render(["if c:"] + ["    " + l for l in c] + ["else:", "    x = {n}"] + ["x", "y"])


def closure_programs() -> Iterator[Tuple[str, Tuple[str, ...]]]:
    """(source, module variables): a function with a nested function that reads or assigns a name of
    the enclosing function (nonlocal, or a plain closure read), or a module variable (global), with
    a call of the nested function at a known point; CPython's own compiler filters the combinations
    that are syntax errors (nonlocal without a binding)."""

    def render(lines: List[str]) -> str:
        out = []
        n = 0
        for l in lines:
            while "{n}" in l:
                n += 1
                l = l.replace("{n}", str(n), 1)
            out.append("    " + l)
        return "def f():\n" + "\n".join(out) + "\n"

    def ind(lines: List[str]) -> List[str]:
        return ["    " + l for l in lines]

    bodies = [
        ["x"], ["x = {n}", "x"], ["if c:", "    x = {n}", "x"], ["for i in it:", "    x = {n}", "x"],
        ["while c:", "    x = {n}", "    break", "x"], ["try:", "    g()", "    x = {n}", "except E:", "    pass", "x"],
        ["if c:", "    x = {n}", "else:", "    x = {n}", "x"], ["if c:", "    return", "x = {n}", "x"], ["x", "x = {n}"],
        ["if c:", "    x = {n}", "    return", "x"],
    ]
    for pre in ([], ["x = {n}"], ["if c:", "    x = {n}"]):
        for decl in (["nonlocal x"], []):
            for body in bodies:
                for mid in ([], ["x = {n}"]):
                    for call in (["inner()"], ["inner()", "inner()"], []):
                        for post in (["x"], ["x = {n}", "x"]):
                            src = render(pre + ["def inner():"] + ind(decl + body) + mid + call + post)
                            try:
                                compile(src, "<closure>", "exec")
                            except SyntaxError:
                                continue
                            yield src, ()
    for body in bodies:
        gbody = [l.replace("x", "g") if l.strip() in ("x", "x = {n}") else l for l in body]
        gbody = [l.replace("gxcept", "except") for l in gbody]
        for decl in (["global g"], []):
            yield render(decl + gbody), ("g",)
            yield render(["def inner():"] + ind(decl + gbody) + ["inner()", "g"]), ("g",)
            yield render(["g = {n}", "def inner():"] + ind(decl + gbody) + ["inner()", "g"]), ("g",)


def classify_uses(fn: ast.FunctionDef) -> Tuple[Dict[int, Tuple[str, str]], Dict[str, Set[str]], Set[str]]:
    """-> ({id(use): (kind, variable)}, {variable: labels of all its assignments}, variables a nested
    function assigns through nonlocal).  kind: own | nonlocal | global | free (a closure read of an
    enclosing function's variable) | module (a read of a module variable without a declaration)."""
    kinds: Dict[int, Tuple[str, str]] = {}
    labels: Dict[str, Set[str]] = {}
    written_by_nested: Set[str] = set()

    def walk(f: ast.FunctionDef, chain: List[Tuple[ast.FunctionDef, Set[str], Set[str]]]) -> None:
        declared, assigned = function_names(f)
        globals_ = Reaching.global_names(f)
        chain = chain + [(f, declared, assigned)]

        def resolve(n: str) -> Tuple[str, str]:
            if n in globals_:
                return "global", n
            if n in assigned and n not in declared:
                return "own", f"{f.name}.{n}"
            for g, gdecl, gassigned in reversed(chain[:-1]):
                if n in gassigned and n not in gdecl:
                    return ("nonlocal" if n in declared else "free"), f"{g.name}.{n}"
            return "module", n

        todo: List[ast.AST] = list(f.body)
        while todo:
            x = todo.pop()
            if isinstance(x, ast.FunctionDef):
                walk(x, chain)
                continue
            if isinstance(x, ast.Name) and isinstance(x.ctx, ast.Load):
                kinds[id(x)] = resolve(x.id)
            elif isinstance(x, ast.Assign) and isinstance(x.targets[0], ast.Name):
                kind, var = resolve(x.targets[0].id)
                labels.setdefault(var, set()).add(repr(x.value.value))  # type: ignore[attr-defined]
                if kind == "nonlocal":
                    written_by_nested.add(var)
            todo.extend(c for c in ast.iter_child_nodes(x) if not (isinstance(x, ast.Assign) and c in x.targets))
        return None

    walk(fn, [])
    return kinds, labels, written_by_nested
