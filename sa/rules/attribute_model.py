"""Finite model of attribute lookup on known objects (C19): attributes.get_attribute,
_get_attribute_from_known, KnownAttributeHook.get_attribute with _default_transformer, and
_get_attribute_from_mro are interpreted from their AST on real runtime objects (numbers, strings,
bytes, tuples, None, a module, classes, enum members); typeshed and annotation lookups are
switched off (they only add declared attributes).  The reference is CPython's getattr."""

from __future__ import annotations

import ast
import enum
import math
import sys
import types
from typing import Any, Dict, Iterator, List, Optional, Sequence, Tuple

from ..minterp import AssertionFailed, Interp, ModelError, Obj, Opaque, PyRaise, Sym, Unsupported
from ..model import AnchorError, Program
from .operator_model import Level


class Plain:
    """A user class with a class attribute, an instance attribute set in __init__ and a property."""

    kind = "plain"

    def __init__(self) -> None:
        self.x = 1

    @property
    def double(self) -> int:
        return 2


OBJECTS: Tuple[Tuple[str, Any], ...] = (
    ("1", 1), ("2.5", 2.5), ("True", True), ("'abc'", "abc"), ("b'abc'", b"abc"), ("(1, 2)", (1, 2)), ("None", None), ("int", int), ("str", str), ("math", math),
    ("Level.LOW", Level.LOW), ("Level", Level), ("Plain", Plain), ("Plain()", Plain()),
)
ATTRS: Tuple[str, ...] = (
    "real", "imag", "upper", "bit_length", "__dict__", "__class__", "__doc__", "pi", "ptah", "name", "value", "LOW", "count", "x", "kind", "double", "__name__", "__len__", "mro",
)


class AttributeModel:
    FUNCS = ("get_attribute", "get_root_value", "_get_attribute_from_known", "_default_transformer", "_get_attribute_from_mro")

    def __init__(self, prog: Program) -> None:
        self.module_defs = {name: prog.func("attributes", name) for name in self.FUNCS}
        hook = prog.cls("KnownAttributeHook")
        self.method_defs = {("KnownAttributeHookCls", "get_attribute"): hook.methods["get_attribute"]}

    def provider(self, typ: type, attr: str) -> Any:
        """What _get_attribute_from_mro(typ, ctx, on_class=False) names as the class that provides `attr`:
        ("missing",) | ("provider", class, is_known) | ("crash", why)"""
        return self.lookup(typ, attr, provider_of=typ)

    def lookup(self, obj: Any, attr: str, provider_of: Any = None) -> Any:
        """("missing",) | ("literal", value) | ("other", description) | ("crash", why)"""
        uninit = Obj("UninitializedValue")

        def known(o: Any) -> Obj:
            return Obj("KnownValue", val=o)

        def isinstance_hook(v: Any, cls: str) -> Optional[bool]:
            if cls in ("KnownValue", "AnnotatedValue", "TypeAliasValue", "TypeVarValue", "TypedValue", "SubclassValue", "UnboundMethodValue", "AnyValue", "MultiValuedValue", "SyntheticModuleValue", "CallableValue", "GenericValue"):
                return isinstance(v, Obj) and v._kind == cls
            return None

        options = Obj("Options", get_value_for=lambda cls_: [lambda o, a: holder[0].call_def(self.module_defs["_default_transformer"], [o, a], self.module_defs["_default_transformer"])])
        ctx = Obj(
            "AttrContext", root_value=known(obj), attr=attr, options=options, skip_mro=False, skip_unwrap=False, prefer_typeshed=False,
            record_attr_read=lambda o: None, record_usage=lambda o, v: None, should_ignore_none_attributes=lambda: False,
            get_attribute_from_typeshed=lambda typ, on_class=False: uninit,
        )
        funcs = {
            "KnownValue": lambda a: known(a[0]),
            "AnyValue": lambda a: Obj("AnyValue", source=a[0] if a else None),
            "TypedValue": lambda a: Obj("TypedValue", typ=a[0]),
            "GenericValue": lambda a: Obj("GenericValue", typ=a[0], args=tuple(a[1])),
            "safe_isinstance": lambda a: isinstance(a[0], a[1]),
            "safe_issubclass": lambda a: isinstance(a[0], type) and issubclass(a[0], a[1]),
            "type_from_annotations": (lambda a, kw=None: None),
            "AnnotationsContext": lambda a: Obj("AnnotationsContext"),
            "get_attrs_attribute": lambda a: None,
            "set_self": lambda a: a[0],
        }
        funcs["type_from_annotations"].wants_kwargs = True  # type: ignore[attr-defined]
        globals_ = {
            "sys": sys, "types": types, "Enum": enum.Enum, "NoneType": type(None), "Any": __import__("typing").Any, "UNINITIALIZED_VALUE": uninit,
            "KnownAttributeHook": Obj("KnownAttributeHookCls"), "__native_getattr__": True, "object": object,
        }
        holder: List[Interp] = []
        it = Interp({}, {}, (), funcs, isinstance_hook, self.method_defs, self.module_defs, globals_)
        holder.append(it)
        if provider_of is not None:
            fn = self.module_defs["_get_attribute_from_mro"]
            try:
                res = it.call_def(fn, [provider_of, ctx, False], fn)
            except Unsupported as u:
                raise AnchorError(f"_get_attribute_from_mro cannot be modelled: {u}")
            except (AssertionFailed, PyRaise, ModelError) as e:
                return ("crash", str(e))
            if not isinstance(res, tuple) or len(res) != 3:
                return ("crash", f"returned {res!r}")
            return ("missing",) if res[0] is uninit else ("provider", res[1], res[2])
        fn = self.module_defs["get_attribute"]
        try:
            res = it.call_def(fn, [ctx], fn)
        except Unsupported as u:
            raise AnchorError(f"attribute lookup cannot be modelled: {u}")
        except AssertionFailed as af:
            return ("crash", f"assertion {af}")
        except (PyRaise, ModelError) as e:
            return ("crash", str(e))
        if res is uninit:
            return ("missing",)
        if isinstance(res, Obj) and res._kind == "KnownValue":
            return ("literal", res._attrs["val"])
        return ("other", res._kind if isinstance(res, Obj) else repr(res))


def reference(obj: Any, attr: str) -> Any:
    try:
        return ("value", getattr(obj, attr))
    except AttributeError:
        return ("AttributeError",)
