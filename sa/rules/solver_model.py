"""Finite model of typevar.solve() (C15): the solver is interpreted from its AST
over a small concrete lattice of types (sets of runtime classes; assignability
is set inclusion, unite_values is union) for every multiset of bounds in every
order, and its answers are compared with the definition of a solution."""

from __future__ import annotations

import ast
import itertools
from typing import Any, Dict, FrozenSet, Iterator, List, Optional, Sequence, Tuple

from ..minterp import AssertionFailed, Interp, Obj, Opaque, Sym, Unsupported
from ..model import AnchorError, Program

TYPES: Dict[str, FrozenSet[str]] = {
    "bool": frozenset({"b"}),
    "int": frozenset({"b", "i"}),
    "str": frozenset({"s"}),
    "int|str": frozenset({"b", "i", "s"}),
    "object": frozenset({"b", "i", "s", "o"}),
}
NAME_OF = {v: k for k, v in TYPES.items()}

BoundSpec = Tuple[str, Any]  # ("L", type name) | ("U", type name) | ("C", (type names...))


def bound_pool() -> List[BoundSpec]:
    pool: List[BoundSpec] = []
    for t in TYPES:
        pool.append(("L", t))
        pool.append(("U", t))
    # an argument of type Any contributes a lower bound, a parameter of type Any an upper bound
    pool.append(("L", "Any"))
    pool.append(("U", "Any"))
    pool.append(("C", ("int", "str")))
    pool.append(("C", ("str", "object")))
    pool.append(("C", ("bool", "int", "str")))
    # a constraint list whose *first* member an upper bound can rule out (the remaining ones shift position)
    pool.append(("C", ("object", "int", "str")))
    return pool


def multisets(max_size: int) -> Iterator[Tuple[BoundSpec, ...]]:
    pool = bound_pool()
    for r in range(1, max_size + 1):
        for combo in itertools.combinations(pool, r):  # resolve_bounds_map de-duplicates bounds
            if sum(1 for b in combo if b[0] == "C") > 1:
                continue  # a type variable has one constraint list
            yield combo


def tname(m: FrozenSet[str]) -> str:
    return NAME_OF.get(m, "{" + ",".join(sorted(m)) + "}")


# ---------------------------------------------------------------- reference
def satisfies(members: FrozenSet[str], bounds: Sequence[BoundSpec]) -> Optional[str]:
    for kind, v in bounds:
        if v == "Any":
            continue  # satisfied by every type
        if kind == "L" and not TYPES[v] <= members:
            return f"does not accept the lower bound {v}"
        if kind == "U" and not members <= TYPES[v]:
            return f"is not accepted by the upper bound {v}"
        if kind == "C" and members not in [TYPES[c] for c in v]:
            return f"is not one of the constraints {v}"
    return None


def solvable(bounds: Sequence[BoundSpec]) -> bool:
    low: FrozenSet[str] = frozenset()
    for kind, v in bounds:
        if kind == "L" and v != "Any":
            low = low | TYPES[v]
    cons = [TYPES[c] for kind, v in bounds if kind == "C" for c in v]
    cands = cons if cons else [low] + list(TYPES.values())
    return any(satisfies(c, bounds) is None for c in cands)


# ---------------------------------------------------------------- extraction
class SolverModel:
    def __init__(self, prog: Program) -> None:
        self.fn = prog.func("typevar", "solve")
        a = [x.arg for x in self.fn.args.args]
        if len(a) != 2:
            raise AnchorError("solve: expected (bounds, ctx)")
        self.p_bounds, self.p_ctx = a
        self.module_defs: Dict[str, ast.FunctionDef] = {}
        if prog.has_func("typevar", "remove_redundant_solutions"):
            self.module_defs["remove_redundant_solutions"] = prog.func("typevar", "remove_redundant_solutions")

    def _value(self, members: FrozenSet[str]) -> Obj:
        v = Obj("Value", members=members)
        v._attrs["is_assignable"] = lambda other, ctx=None, me=members: _assignable(me, other)
        v._attrs["can_assign"] = lambda other, ctx=None, me=members: ({} if _assignable(me, other) else Obj("CanAssignError", message="incompatible"))
        return v

    def _any(self) -> Obj:
        v = Obj("AnyValue", members=None)
        v._attrs["is_assignable"] = lambda other, ctx=None: True
        v._attrs["can_assign"] = lambda other, ctx=None: {}
        return v

    def run(self, bounds: Sequence[BoundSpec]) -> Tuple[str, Optional[FrozenSet[str]]]:
        """-> ("value", members) | ("any", None) | ("error", None)"""
        objs = []
        for kind, v in bounds:
            if kind == "L":
                objs.append(Obj("LowerBound", typevar=Sym("T"), value=self._any() if v == "Any" else self._value(TYPES[v])))
            elif kind == "U":
                objs.append(Obj("UpperBound", typevar=Sym("T"), value=self._any() if v == "Any" else self._value(TYPES[v])))
            else:
                objs.append(Obj("IsOneOf", typevar=Sym("T"), constraints=tuple(self._value(TYPES[c]) for c in v)))

        def isinstance_hook(v: Any, cls: str) -> Optional[bool]:
            if cls in ("LowerBound", "UpperBound", "OrBound", "IsOneOf", "AnyValue", "CanAssignError"):
                return isinstance(v, Obj) and v._kind == cls
            return None

        def unite(args: List[Any]) -> Any:
            if any(isinstance(a, Obj) and a._kind == "AnyValue" for a in args):
                return self._any()
            m: FrozenSet[str] = frozenset()
            for a in args:
                if not (isinstance(a, Obj) and a._kind == "Value"):
                    raise AnchorError("solve: unite_values applied to a non-value in the model")
                m = m | a.get("members", self.fn)
            return self._value(m)

        funcs = {
            "unite_values": unite,
            "AnyValue": lambda args: self._any(),
            "CanAssignError": lambda args: Obj("CanAssignError", message="error"),
            "all_of_type": lambda args: all(isinstance(x, Obj) and x._kind == norm_name(args[1]) for x in args[0]),
        }
        env = {self.p_bounds: tuple(objs), self.p_ctx: Opaque("ctx")}
        it = Interp(env, {}, ("BOTTOM", "TOP"), funcs, isinstance_hook, {}, self.module_defs)
        try:
            res = it.run(self.fn)
        except Unsupported as u:
            raise AnchorError(f"solve cannot be modelled: {u}")
        except AssertionFailed as af:
            raise AnchorError(f"solve: assertion reached in the model: {af}")
        if isinstance(res, Obj) and res._kind == "CanAssignError":
            return "error", None
        if isinstance(res, Obj) and res._kind == "AnyValue":
            return "any", None
        if isinstance(res, Obj) and res._kind == "Value":
            return "value", res.get("members", self.fn)
        raise AnchorError(f"solve returned {res!r} in the model")


def norm_name(x: Any) -> str:
    return x.label if isinstance(x, Opaque) else str(x)


def _assignable(me: FrozenSet[str], other: Any) -> bool:
    if isinstance(other, Obj) and other._kind == "AnyValue":
        return True
    if isinstance(other, Obj) and other._kind == "Value":
        return other.get("members", None) <= me
    raise AnchorError("solve: assignability asked of a non-value in the model")


def fmt_bounds(bounds: Sequence[BoundSpec]) -> str:
    out = []
    for kind, v in bounds:
        out.append(f"{v} <= T" if kind == "L" else f"T <= {v}" if kind == "U" else f"T in {list(v)}")
    return "[" + ", ".join(out) + "]"
