"""C16 - automatic fixes: edit-script well-formedness only."""

from __future__ import annotations

import ast
from typing import Dict, List, Optional, Set, Tuple

from ..cfg import CFG
from ..model import AnchorError, Program, dotted, kw, last_attr, norm, parent, walk_no_nested
from ..report import Check, guard
from .common import calls_in, guards_of, local_assignments, need_locals, returns_of


def _is_descending(s: ast.AST) -> bool:
    """sorted(x, reverse=True) | reversed(sorted(x)) | list(reversed(sorted(x))) | sorted(x)[::-1]"""
    if isinstance(s, ast.Call) and last_attr(s) in ("list", "tuple") and len(s.args) == 1:
        return _is_descending(s.args[0])
    if isinstance(s, ast.Call) and last_attr(s) == "sorted":
        rev = kw(s, "reverse")
        return isinstance(rev, ast.Constant) and rev.value is True
    if isinstance(s, ast.Call) and last_attr(s) == "reversed" and len(s.args) == 1:
        a = s.args[0]
        return isinstance(a, ast.Call) and last_attr(a) == "sorted" and kw(a, "reverse") is None
    if isinstance(s, ast.Subscript) and isinstance(s.slice, ast.Slice) and s.slice.lower is None and s.slice.upper is None and norm(s.slice.step or ast.Constant(1)) == "-1":
        a = s.value
        return isinstance(a, ast.Call) and last_attr(a) == "sorted" and kw(a, "reverse") is None
    return False


def r16_ab(prog: Program, chk: Check) -> None:
    chk.rule("R16.a", "deletions run high-to-low: the loop that executes `del lines[i - 1]` iterates sorted(..., reverse=True)", floor=2)
    chk.rule("R16.b", "the additions are spliced after the last deleted line before the deletions run, so no deletion index is disturbed", floor=2)
    fn = prog.func("node_visitor", "BaseNodeVisitor._apply_changes_to_lines")
    need_locals(fn, "lines", "changes")
    site = prog.site("node_visitor", fn)
    dels = [n for n in walk_no_nested(fn) if isinstance(n, ast.Delete)]
    if not dels:
        raise AnchorError("_apply_changes_to_lines: no del statement")
    d = dels[0]
    loop = parent(d)
    ok = False
    src_ok = False
    if isinstance(loop, ast.For) and isinstance(loop.target, ast.Name):
        x = loop.target.id
        t = d.targets[0]
        ok = isinstance(t, ast.Subscript) and norm(t.slice) == f"{x} - 1"
        it = loop.iter
        srcs = [it] if not isinstance(it, ast.Name) else local_assignments(fn, it.id)
        for s in srcs:
            if _is_descending(s):
                src_ok = True
        # the iterated name must not be re-bound to anything unsorted after the sort
        if isinstance(it, ast.Name):
            last = sorted(local_assignments(fn, it.id), key=lambda a: a.lineno)
            src_ok = src_ok and _is_descending(last[-1])
    chk.ob("R16.a", "node_visitor::BaseNodeVisitor._apply_changes_to_lines::delete-uses-1-based-index", ok, site, "the deletion must be `del lines[lineno - 1]` (linenos_to_delete is 1-based)")
    chk.ob("R16.a", "node_visitor::BaseNodeVisitor._apply_changes_to_lines::descending", src_ok, site, "deleting by index must iterate the line numbers in descending order (sorted(..., reverse=True)); any other order shifts the remaining indices")
    # splice at max(lines_to_remove) before the deletion loop
    splice = None
    for n in walk_no_nested(fn):
        if isinstance(n, ast.Assign) and norm(n.targets[0]) == "lines" and isinstance(n.value, ast.List) and len(n.value.elts) == 3:
            splice = n
    ok = False
    if splice is not None:
        e = splice.value.elts
        parts = [norm(x.value) if isinstance(x, ast.Starred) else "?" for x in e]
        mx = None
        for n in walk_no_nested(fn):
            if isinstance(n, ast.Assign) and isinstance(n.value, ast.Call) and last_attr(n.value) == "max":
                mx = norm(n.targets[0])
        ok = mx is not None and parts[0] == f"lines[:{mx}]" and parts[2] == f"lines[{mx}:]" and parts[1] in ("additions", "change.lines_to_add")
    chk.ob("R16.b", "node_visitor::BaseNodeVisitor._apply_changes_to_lines::splice-after-last-deleted", ok, site, "additions must be inserted at index max(linenos_to_delete), i.e. directly after the last deleted line")
    ok = splice is not None and isinstance(loop, ast.For) and splice.lineno < loop.lineno
    chk.ob("R16.b", "node_visitor::BaseNodeVisitor._apply_changes_to_lines::splice-before-deletions", ok, site, "the splice must happen before the deletions (every deleted index is <= the splice point)")


def r16_c(prog: Program, chk: Check) -> None:
    chk.rule("R16.c", "bounded repetition of the autofix loop (one change per pass is decided by the model rule R16.h)", floor=2)
    fn = prog.func("node_visitor", "BaseNodeVisitor._apply_changes_to_lines")
    mn = prog.func("node_visitor", "BaseNodeVisitor.main")
    loop = None
    for n in walk_no_nested(mn):
        if isinstance(n, ast.While) and "_run_and_apply_changes" in norm(n.test):
            loop = n
    ok = False
    if loop is not None:
        asserts = [s for s in loop.body if isinstance(s, ast.Assert) and "ITERATION_LIMIT" in norm(s.test)]
        incs = [s for s in loop.body if isinstance(s, ast.AugAssign) and isinstance(s.op, ast.Add)]
        ok = bool(asserts) and bool(incs) and norm(incs[0].target) in norm(asserts[0].test) and asserts[0] in loop.body
    chk.ob("R16.c", "node_visitor::BaseNodeVisitor.main::iteration-limit", ok, prog.site("node_visitor", mn), "the repeat-until-no-errors loop must count its iterations and assert the ITERATION_LIMIT on every pass")
    lim = prog.module_assign("node_visitor", "ITERATION_LIMIT")
    chk.ob("R16.c", "node_visitor::ITERATION_LIMIT::finite", isinstance(lim, ast.Constant) and isinstance(lim.value, int) and 0 < lim.value <= 10000, "pyanalyze/node_visitor.py", f"ITERATION_LIMIT is {norm(lim)}")


def r16_d(prog: Program, chk: Check) -> None:
    chk.rule("R16.d", "the add-ignores edit is comment-only and code-specific", floor=4)
    fn = prog.func("node_visitor", "BaseNodeVisitor.show_error")
    need_locals(fn, "this_line", "ignore", "indentation", "lineno", "lines", "ignore_comment", "error_code")
    rep = None
    for c in calls_in(fn, "Replacement", nested=False):
        if any(pol and norm(g) == "self.add_ignores" for g, pol in guards_of(c, fn)):
            rep = c
    if rep is None:
        raise AnchorError("show_error: Replacement under add_ignores not found")
    site = prog.site("node_visitor", rep)
    chk.ob("R16.d", "node_visitor::BaseNodeVisitor.show_error::add_ignores::deletes-own-line", norm(rep.args[0]) == "[lineno]", site, "the edit must delete exactly the line of the error")
    adds = rep.args[1]
    ok = isinstance(adds, ast.List) and len(adds.elts) == 2 and norm(adds.elts[1]) == "this_line"
    chk.ob("R16.d", "node_visitor::BaseNodeVisitor.show_error::add_ignores::keeps-original-line", ok, site, "the second added line must be the original line object, unchanged")
    line_src = local_assignments(fn, "this_line")
    chk.ob("R16.d", "node_visitor::BaseNodeVisitor.show_error::add_ignores::original-line-source", bool(line_src) and all(norm(s) == "lines[lineno - 1]" for s in line_src), site, "this_line must be lines[lineno - 1]")
    first = adds.elts[0] if isinstance(adds, ast.List) and adds.elts else None
    ok = False
    if first is not None:
        t = norm(first)
        ok = "ignore" in t and "indentation" in t and t.count("{}") == 2 and "\\n" in t
    chk.ob("R16.d", "node_visitor::BaseNodeVisitor.show_error::add_ignores::comment-only-line", ok, site, "the first added line must consist of indentation and the ignore comment only")
    ig = [a for a in local_assignments(fn, "ignore")]
    texts = [norm(a) for a in ig]
    ok = any("[{error_code.name}]" in t for t in texts) and any(t == "ignore_comment" for t in texts)
    coded = [n for n in walk_no_nested(fn) if isinstance(n, ast.Assign) and norm(n.targets[0]) == "ignore" and "[{error_code.name}]" in norm(n.value)]
    guard_ok = bool(coded) and any(pol and norm(g) == "error_code is not None" for g, pol in guards_of(coded[0], fn))
    chk.ob("R16.d", "node_visitor::BaseNodeVisitor.show_error::add_ignores::code-specific", ok and guard_ok, site, "the inserted comment must name the error code whenever one exists (a bare ignore would suppress every other code on that line)")


def r16_e(prog: Program, chk: Check) -> None:
    chk.rule("R16.e", "Replacement producers agree that linenos_to_delete is 1-based (the consumers are modelled by R16.h / R16.i)", floor=4)
    # producers inside node_visitor
    fn = prog.func("node_visitor", "BaseNodeVisitor.show_errors_for_unused_ignores")
    reps = calls_in(fn, "Replacement")
    ok = bool(reps) and all(norm(c.args[0]) == "[i + 1]" for c in reps) and "enumerate(self._lines())" in norm(prog.func("node_visitor", "BaseNodeVisitor.get_unused_ignores"))
    chk.ob("R16.e", "node_visitor::BaseNodeVisitor.show_errors_for_unused_ignores::one-based", ok, prog.site("node_visitor", fn), "indices from enumerate(lines) are 0-based and must be converted with + 1")
    for q in ("ReplacingNodeVisitor.replace_node", "ReplacingNodeVisitor.remove_node"):
        try:
            f2 = prog.func("node_visitor", q)
        except AnchorError:
            cands = [qq for (m, qq, _) in prog.iter_functions() if m == "node_visitor" and qq.endswith(q.split(".")[1])]
            if not cands:
                raise
            f2 = prog.func("node_visitor", cands[0])
            q = cands[0]
        reps = calls_in(f2, "Replacement")
        src = local_assignments(f2, "lines_to_remove")
        ok = bool(reps) and all(norm(c.args[0]) == "lines_to_remove" for c in reps) and bool(src) and all(last_attr(s) == "get_line_range_for_node" for s in src)
        chk.ob("R16.e", f"node_visitor::{q}::range-from-analysis_lib", ok, prog.site("node_visitor", f2), "node replacements must delete exactly get_line_range_for_node(statement)")
    lr = prog.func("analysis_lib", "get_line_range_for_node")
    t = norm(lr)
    chk.ob("R16.e", "analysis_lib::get_line_range_for_node::one-based", "node.lineno" in t and ("range(" in t or "list(" in t), prog.site("analysis_lib", lr), "line ranges must be built from node.lineno (1-based)")
    # (the interactive consumer's patch arithmetic is decided by the model rule R16.i, not by text)


def _targets_of(stmt_var: str, test: ast.AST) -> bool:
    return norm(test).replace(" ", "") in (f"len({stmt_var}.targets)==1", f"1==len({stmt_var}.targets)")


def _conjuncts(guards) -> List[ast.AST]:
    """Flatten the in-force guards into a list of tests known to be true."""
    out: List[ast.AST] = []

    def pos(t: ast.AST) -> None:
        if isinstance(t, ast.BoolOp) and isinstance(t.op, ast.And):
            for v in t.values:
                pos(v)
        elif isinstance(t, ast.UnaryOp) and isinstance(t.op, ast.Not):
            neg(t.operand)
        else:
            out.append(t)

    def neg(t: ast.AST) -> None:
        if isinstance(t, ast.BoolOp) and isinstance(t.op, ast.Or):
            for v in t.values:
                neg(v)
        elif isinstance(t, ast.UnaryOp) and isinstance(t.op, ast.Not):
            pos(t.operand)
        else:
            out.append(ast.UnaryOp(op=ast.Not(), operand=t))

    for t, inbody in guards:
        (pos if inbody else neg)(t)
    return out


def r16_f(prog: Program, chk: Check) -> None:
    chk.rule(
        "R16.f",
        "a fix that deletes a whole assignment statement is proposed only when the reported name is the statement's sole binding: "
        "exactly one target and that target is not a tuple/list pattern",
        floor=2,
    )
    m = "name_check_visitor"
    n_sites = 0
    for mod, q, fn in prog.iter_functions():
        if mod != m:
            continue
        for c in calls_in(fn, "remove_node", nested=False):
            if len(c.args) < 2 or not isinstance(c.args[1], ast.Name):
                continue
            n_sites += 1
            sv = c.args[1].id
            cj = _conjuncts(guards_of(c, fn))
            texts = [norm(t).replace(" ", "") for t in cj]
            one_target = any(t in (f"len({sv}.targets)==1", f"1==len({sv}.targets)") for t in texts) or any(t.startswith(f"{sv}.targets==[") for t in texts)
            not_pattern = any(
                t.startswith(f"notisinstance({sv}.targets[0],") and "ast.Tuple" in t and "ast.List" in t or t == f"isinstance({sv}.targets[0],ast.Name)"
                for t in texts
            ) or any(t.startswith(f"{sv}.targets==[") for t in texts)
            is_assign = any(t == f"isinstance({sv},ast.Assign)" for t in texts)
            key = f"{m}::{q}::remove_node({sv})"
            if not is_assign:
                chk.ob("R16.f", key + "::statement-kind", True, prog.site(m, c), "statement kind other than Assign: no multi-target form exists", nontrivial=False)
                continue
            chk.ob("R16.f", key + "::single-target", one_target, prog.site(m, c),
                   f"`{sv}` may have several targets (`a = b = f()`): deleting the statement because one target is unused unbinds the others")
            chk.ob("R16.f", key + "::target-is-not-a-pattern", not_pattern, prog.site(m, c),
                   f"the single target of `{sv}` may be a tuple/list pattern whose other names are used")
    if n_sites == 0:
        raise AnchorError("no remove_node(<name>, <statement>) call found in name_check_visitor")


def _offsets(fn: ast.FunctionDef, idx: ast.AST) -> Set[int]:
    """Line offsets (relative to the error's own line) that `lines[idx]` can read:
    loop variables over literal tuples are expanded, `lineno` is the error line."""
    from .c01 import _int_eval

    loop_vars: Dict[str, List[ast.AST]] = {}
    for n in walk_no_nested(fn):
        if isinstance(n, ast.For) and isinstance(n.target, ast.Name) and isinstance(n.iter, (ast.Tuple, ast.List)):
            loop_vars[n.target.id] = list(n.iter.elts)
    names = sorted({x.id for x in ast.walk(idx) if isinstance(x, ast.Name)} & set(loop_vars))
    L = 1000
    outs: Set[int] = set()

    def rec(i: int, env: Dict[str, int]) -> None:
        if i == len(names):
            outs.add(_int_eval(idx, env) - (L - 1))
            return
        for e in loop_vars[names[i]]:
            env2 = dict(env)
            env2[names[i]] = _int_eval(e, {"lineno": L})
            rec(i + 1, env2)

    rec(0, {"lineno": L})
    return outs


def r16_g(prog: Program, chk: Check) -> None:
    chk.rule(
        "R16.g",
        "scope of an ignore comment: a substring / regex search is applied only to the error's own line; any other line "
        "suppresses only when the whole stripped line is the comment (a trailing comment never covers the next line)",
        floor=2,
    )
    from .c11 import _ignore_return_ifs

    m = "node_visitor"
    fn = prog.func(m, "BaseNodeVisitor.show_error")
    arms = _ignore_return_ifs(fn)
    if not arms:
        raise AnchorError("show_error: no ignore-comment arm found")
    for n, idx_used, lv in arms:
        idx_node = None
        stripped = False
        if lv is not None:
            for a in local_assignments(fn, lv):
                for sx in ast.walk(a):
                    if isinstance(sx, ast.Subscript) and norm(sx.value) == "lines":
                        idx_node = sx.slice
                stripped = stripped or ".strip()" in norm(a)
        if idx_node is None:
            raise AnchorError(f"show_error: the ignore arm at line {n.lineno} does not read lines[...] through a local")
        offs = _offsets(fn, idx_node)
        # classify the tests that mention the line local
        kinds: Set[str] = set()
        for x in ast.walk(n.test):
            if isinstance(x, ast.Compare) and any(isinstance(y, ast.Name) and y.id == lv for y in ast.walk(x)):
                for o in x.ops:
                    kinds.add("EQ" if isinstance(o, ast.Eq) else "SEARCH" if isinstance(o, (ast.In, ast.NotIn)) else "OTHER")
            if isinstance(x, ast.Call) and any(isinstance(y, ast.Name) and y.id == lv for a_ in x.args for y in ast.walk(a_)):
                nm = last_attr(x)
                kinds.add("EQ" if nm == "fullmatch" else "SEARCH")
        for off in sorted(offs):
            whole_line = kinds == {"EQ"} and stripped
            chk.ob("R16.g", f"{m}::BaseNodeVisitor.show_error::ignore-arm::offset={off}", off == 0 or whole_line, prog.site(m, n),
                   f"the arm reading the line at offset {off} from the error matches by {sorted(kinds)}: a comment trailing code on another line would suppress this diagnostic too "
                   "(and add-ignores would write one comment for two diagnostics)")
            chk.ob("R16.g", f"{m}::BaseNodeVisitor.show_error::ignore-arm::offset={off}::reach", off in (0, -1), prog.site(m, n),
                   f"ignore comments apply to their own line and, alone on a line, to the next one; offset {off} is neither")


# ------------------------------------------------------------------- R16.h/i
def _splice_reference(lines: List[str], delete: Set[int], additions: Optional[List[str]]) -> List[str]:
    """Replacement's documented meaning: the listed 1-based lines disappear, the
    additions stand right after the last deleted line; additions None = no edit."""
    if additions is None:
        return list(lines)
    last = max(delete)
    out = [l for i, l in enumerate(lines, 1) if i <= last and i not in delete]
    return out + list(additions) + lines[last:]


def r16_hi(prog: Program, chk: Check) -> None:
    import itertools

    from ..minterp import AssertionFailed, Interp, ModelError, Obj, Opaque, Unsupported

    chk.rule(
        "R16.h",
        "the edit script applied by --autofix, as a finite model: _apply_changes_to_lines is interpreted from its AST on every file of up to 6 lines, every non-empty set "
        "of line numbers to delete and 0-2 (or no) lines to add; the result equals the documented splice (deleted lines gone, additions right after the last deleted line, "
        "every other line kept in order) and only the first change of a pass is applied",
        floor=3,
    )
    m = "node_visitor"
    fn = prog.func(m, "BaseNodeVisitor._apply_changes_to_lines")
    names = [a.arg for a in fn.args.args]
    if len(names) != 3:
        raise AnchorError("_apply_changes_to_lines: expected (cls, changes, input_lines)")
    total = 0
    bad: Dict[str, List[dict]] = {"splice": [], "first-change-only": [], "input-not-mutated": []}
    counts = {"splice": 0, "first-change-only": 0, "input-not-mutated": 0}

    def run(changes: List[Obj], lines: List[str]):
        env = {names[0]: Opaque("cls"), names[1]: changes, names[2]: lines}
        it = Interp(env, {}, ())
        try:
            return it.run(fn)
        except Unsupported as u:
            raise AnchorError(f"_apply_changes_to_lines cannot be modelled: {u}")
        except AssertionFailed as af:
            raise AnchorError(f"_apply_changes_to_lines: assertion reached: {af}")
        except ModelError as me:
            return ("<crash>", str(me))

    adds: List[Optional[List[str]]] = [None, [], ["+x\n"], ["+x\n", "+y\n"]]
    for n in range(1, 7):
        lines = [f"L{i}\n" for i in range(1, n + 1)]
        for r in range(1, n + 1):
            for delete in itertools.combinations(range(1, n + 1), r):
                for add in adds:
                    for order in ("asc", "desc"):
                        d = list(delete) if order == "asc" else list(reversed(delete))
                        total += 1
                        inp = list(lines)
                        ch = Obj("Replacement", linenos_to_delete=d, lines_to_add=None if add is None else list(add), error_str=None)
                        got = run([ch], inp)
                        want = _splice_reference(lines, set(delete), add)
                        counts["splice"] += 1
                        if got != want:
                            bad["splice"].append({"file_lines": n, "delete": d, "add": add, "got": got, "want": want})
                        counts["input-not-mutated"] += 1
                        if inp != lines:
                            bad["input-not-mutated"].append({"file_lines": n, "delete": d, "add": add})
    # only the first change is applied (the others were computed against the unedited file)
    lines = [f"L{i}\n" for i in range(1, 6)]
    for d1, d2 in itertools.permutations(range(1, 6), 2):
        total += 1
        c1 = Obj("Replacement", linenos_to_delete=[d1], lines_to_add=["+a\n"], error_str=None)
        c2 = Obj("Replacement", linenos_to_delete=[d2], lines_to_add=[], error_str=None)
        got = run([c1, c2], list(lines))
        counts["first-change-only"] += 1
        if got != _splice_reference(lines, {d1}, ["+a\n"]):
            bad["first-change-only"].append({"changes": [[d1], [d2]], "got": got})
    total += 1
    if run([], list(lines)) != lines:
        bad["first-change-only"].append({"changes": [], "got": "file changed without a change"})
    chk.model_evaluations += total
    chk.analysed["edit_script_model"] = {"cases": total}
    site = prog.site(m, fn)
    for k in ("splice", "first-change-only", "input-not-mutated"):
        b = bad[k]
        chk.ob("R16.h", f"{m}::BaseNodeVisitor._apply_changes_to_lines::model::{k}", not b, site,
               f"{counts[k]} cases, {len(b)} failing" + (f"; first: {b[0]}" if b else ""), witness=b[:4])


def r16_i(prog: Program, chk: Check) -> None:
    import itertools

    from ..minterp import AssertionFailed, Interp, ModelError, Obj, Opaque, Unsupported

    chk.rule(
        "R16.i",
        "the interactive fixer's patches, as a finite model: the loop of _run_and_apply_changes that turns the Replacements of a file into codemod patches is interpreted "
        "from its AST for every sequence of up to 3 non-overlapping contiguous changes (with and without replacement lines) on a 7-line file; applying the patches in "
        "order (codemod: lines[start:end] = new_lines, nothing when new_lines is None) gives the same file as applying each documented splice independently",
        floor=1,
    )
    m = "node_visitor"
    fn = prog.func(m, "BaseNodeVisitor._run_and_apply_changes")
    loop = None
    init = None
    for n in ast.walk(fn):
        if isinstance(n, ast.For) and norm(n.iter) == "changes" and any(isinstance(c, ast.Call) and last_attr(c) == "_PatchWithDescription" for c in ast.walk(n)):
            loop = n
    if loop is None:
        raise AnchorError("_run_and_apply_changes: loop building _PatchWithDescription objects not found")
    blk = parent(loop)
    for fld in ("body", "orelse"):
        stmts = getattr(blk, fld, [])
        if any(x is loop for x in stmts):
            idx = [x is loop for x in stmts].index(True)
            init = stmts[:idx]
    if init is None:
        raise AnchorError("_run_and_apply_changes: statements before the patch loop not found")

    def mk_patch(args, kwargs):
        names = ["start", "end"]
        d = dict(zip(names, args))
        d.update(kwargs)
        return Obj("Patch", start=d.get("start"), end=d.get("end"), new_lines=d.get("new_lines"))

    mk_patch.wants_kwargs = True  # type: ignore[attr-defined]

    n_lines = 7
    lines = [f"L{i}\n" for i in range(1, n_lines + 1)]
    # candidate changes: contiguous ranges [a, b], additions None / [] / one / two lines
    ranges = [(a, b) for a in range(1, n_lines + 1) for b in range(a, min(a + 2, n_lines) + 1)]
    adds: List[Optional[List[str]]] = [None, [], ["+x\n"], ["+x\n", "+y\n"]]
    total = 0
    bad: List[dict] = []
    crashes: List[dict] = []
    for k in (1, 2, 3):
        for rs in itertools.combinations(ranges, k):
            if any(rs[i][1] >= rs[i + 1][0] for i in range(len(rs) - 1)):
                continue  # overlapping or unordered
            for ads in itertools.product(range(len(adds)), repeat=k):
                if k == 3 and len(set(ads)) == 3 and 0 not in ads:
                    pass
                total += 1
                chs = [Obj("Replacement", linenos_to_delete=list(range(a, b + 1)), lines_to_add=None if adds[x] is None else list(adds[x]), error_str=Opaque("msg")) for (a, b), x in zip(rs, ads)]  # type: ignore[arg-type]
                env = {"changes": {"f.py": chs}}
                it = Interp(env, {}, (), {"_PatchWithDescription": mk_patch})
                try:
                    it.block(init)
                    it.stmt(loop)
                except Unsupported as u:
                    raise AnchorError(f"patch loop cannot be modelled: {u}")
                except (ModelError, AssertionFailed) as me:
                    crashes.append({"changes": [(r, adds[x]) for r, x in zip(rs, ads)], "error": str(me)})
                    continue
                patches = it.env.get("patches")
                if not isinstance(patches, list):
                    raise AnchorError("patch loop: `patches` list not found after interpretation")
                got = list(lines)
                for p_ in patches:
                    nl = p_.get("new_lines", loop)
                    if nl is not None:
                        got[p_.get("start", loop) : p_.get("end", loop)] = list(nl)
                want = list(lines)
                for (a, b), x in sorted(zip(rs, ads), reverse=True):
                    want = _splice_reference(want, set(range(a, b + 1)), adds[x])
                if got != want:
                    bad.append({"changes": [{"delete": list(range(a, b + 1)), "add": adds[x]} for (a, b), x in zip(rs, ads)], "patches": [(p_.get("start", loop), p_.get("end", loop), p_.get("new_lines", loop)) for p_ in patches], "got": got, "want": want})
    chk.model_evaluations += total
    chk.analysed["patch_model"] = {"change_sequences": total}
    site = prog.site(m, loop)
    bad.sort(key=lambda d: len(repr(d["changes"])))
    chk.ob("R16.i", f"{m}::BaseNodeVisitor._run_and_apply_changes::model::patches-equal-splices", not bad and not crashes, site,
           f"{total} change sequences, {len(bad)} give a different file, {len(crashes)} crash" + (f"; smallest: {bad[0]['changes']} -> patches {bad[0]['patches']}" if bad else ""), witness=(bad[:4] or crashes[:4]))


# ------------------------------------------------------------------- R16.j
def _add_ignores_fixpoint(model, code_lines, diags_per_line, limit: int = 12):
    """Repeat: report every raw diagnostic with add_ignores on, apply the first
    proposed replacement (documented splice), until nothing is reported.
    Lines are (text, origin) with origin = index of the original code line or None
    for an inserted comment; raw diagnostics stay attached to their code line."""
    from . import filter_model as flt

    lines = [(t, i) for i, t in enumerate(code_lines)]
    history = []
    for it in range(limit):
        texts = [t for t, _ in lines]
        pos = {o: idx + 1 for idx, (_, o) in enumerate(lines) if o is not None}
        diags = [(pos[i], c) for i, codes in enumerate(diags_per_line) for c in codes]
        rep, used, reps, unused = model.run_fresh(texts, diags, frozenset(flt.CODES), True)
        if isinstance(rep, tuple) and rep and rep[0] == "crash":
            return {"outcome": "crash", "detail": rep[1], "iterations": it, "file": texts}
        if not rep:
            return {"outcome": "fixpoint", "iterations": it, "file": texts, "lines": lines, "unused": unused, "reported_last": rep}
        if not reps:
            return {"outcome": "no-replacement", "iterations": it, "file": texts}
        delete, add = reps[0]
        if add is None or list(delete) != [rep[0][0]] or len(add) not in (1, 2):
            return {"outcome": "malformed-replacement", "iterations": it, "file": texts, "replacement": (delete, add)}
        ln = delete[0]
        old_text, origin = lines[ln - 1]
        if len(add) == 2:
            # an ignore comment on its own line above the unchanged original line
            if add[1].rstrip("\n") != old_text or not add[0].strip().startswith(flt.IC):
                return {"outcome": "original-line-changed", "iterations": it, "file": texts, "replacement": (delete, add)}
            lines = lines[: ln - 1] + [(add[0].rstrip("\n"), None), lines[ln - 1]] + lines[ln:]
        else:
            # the original line with an ignore comment appended
            new_text = add[0].rstrip("\n")
            if not (new_text.startswith(old_text) and new_text[len(old_text):].strip().startswith(flt.IC)):
                return {"outcome": "original-line-changed", "iterations": it, "file": texts, "replacement": (delete, add)}
            lines = lines[: ln - 1] + [(new_text, origin)] + lines[ln:]
        history.append(rep[0])
    return {"outcome": "no-fixpoint", "iterations": limit, "file": [t for t, _ in lines], "history": history}


def _add_ignores_files():
    import itertools

    code_kinds = ["x = f()", "    y = g()"]
    codesets = [(), ("A",), ("B",), ("A", "B")]
    for n in (1, 2, 3):
        for texts in itertools.product(code_kinds, repeat=n):
            # a header: nothing, a comment, a comment followed by a blank line (which ends the leading comment block)
            for lead in ([], ["# a comment"], ["# a comment", ""]):
                if len(lead) == 2 and n == 3:
                    continue
                for cs in itertools.product(codesets, repeat=n):
                    if any(cs):
                        yield list(lead) + list(texts), [()] * len(lead) + list(cs)


def _add_ignores_chunk(args):
    part, nparts = args
    from ..model import Program as _P
    from . import filter_model as flt

    model = flt.FilterModel(_P())
    total = 0
    classes: Dict[str, List[dict]] = {"terminates-with-nothing-reported": [], "code-lines-unchanged": [], "no-unused-comment-added": [], "each-comment-suppresses-exactly-one-diagnostic": []}
    counts = {k: 0 for k in classes}

    def strip_ic(t: str) -> str:
        return t.split("  " + flt.IC)[0] if not t.strip().startswith(flt.IC) else t

    for idx, (code_lines, dpl) in enumerate(_add_ignores_files()):
        if idx % nparts != part:
            continue
        total += 1
        d = {"file": code_lines, "diagnostics_per_line": [list(x) for x in dpl]}
        res = _add_ignores_fixpoint(model, code_lines, dpl)
        counts["terminates-with-nothing-reported"] += 1
        if res["outcome"] != "fixpoint":
            classes["terminates-with-nothing-reported"].append({**d, "outcome": res["outcome"], "file_after": res.get("file"), "iterations": res["iterations"]})
            continue
        final = res["lines"]
        counts["code-lines-unchanged"] += 1
        if [strip_ic(t) for t, o in final if o is not None] != code_lines or [o for _, o in final if o is not None] != list(range(len(code_lines))):
            classes["code-lines-unchanged"].append({**d, "file_after": res["file"]})
        counts["no-unused-comment-added"] += 1
        if res["unused"]:
            classes["no-unused-comment-added"].append({**d, "file_after": res["file"], "unused_comment_lines": res["unused"]})
        counts["each-comment-suppresses-exactly-one-diagnostic"] += 1
        variants = []
        for i, (t, o) in enumerate(final):
            if o is None:
                variants.append((f"line {i + 1}", final[:i] + final[i + 1 :]))
            else:
                parts = t.split("  " + flt.IC)
                for k in range(1, len(parts)):
                    t2 = ("  " + flt.IC).join(parts[:k] + parts[k + 1 :])
                    variants.append((f"trailing comment {k} of line {i + 1}", final[:i] + [(t2, o)] + final[i + 1 :]))
        for what, rest in variants:
            texts2 = [t for t, _ in rest]
            pos = {o: j + 1 for j, (_, o) in enumerate(rest) if o is not None}
            diags = [(pos[j], c) for j, codes in enumerate(dpl) for c in codes]
            rep, _u, _r, _un = model.run_fresh(texts2, diags, frozenset(flt.CODES), False)
            if len(rep) != 1:
                classes["each-comment-suppresses-exactly-one-diagnostic"].append({**d, "file_after": res["file"], "removed": what, "diagnostics_back": rep})
                break
    return total, counts, classes


def r16_j(prog: Program, chk: Check) -> None:
    import multiprocessing as mp
    import os as _os

    chk.rule(
        "R16.j",
        "add-ignores as a finite model: on every file of up to 3 code lines (plain or indented, optionally preceded by a plain comment or by a comment and a blank line) with every assignment of 0-2 diagnostic "
        "codes per line, repeating `report everything with add_ignores on, apply the first replacement` reaches a fixpoint with nothing reported; the code lines are unchanged and "
        "in order (same syntax tree), every inserted comment is an ignore comment, none of them is unused, and removing any one of them brings back exactly one diagnostic",
        floor=4,
    )
    procs = 2 if _os.environ.get("VERIF_SELFTEST") else min(16, _os.cpu_count() or 1)
    with mp.get_context("fork").Pool(procs) as pl:
        results = pl.map(_add_ignores_chunk, [(i, procs * 2) for i in range(procs * 2)])
    total = 0
    classes: Dict[str, List[dict]] = {}
    counts: Dict[str, int] = {}
    for t, cn, cl in results:
        total += t
        for k, v in cn.items():
            counts[k] = counts.get(k, 0) + v
        for k, v in cl.items():
            classes.setdefault(k, []).extend(v)
    chk.model_evaluations += total
    chk.analysed["add_ignores_model"] = {"files_with_diagnostics": total}
    site = prog.site("node_visitor", prog.func("node_visitor", "BaseNodeVisitor.show_error"))
    for k, bad in sorted(classes.items()):
        bad.sort(key=lambda x: (len(x["file"]), sum(len(c) for c in x["diagnostics_per_line"]), repr(x)))
        chk.ob("R16.j", f"node_visitor::add-ignores-model::{k}", not bad, site, f"{counts[k]} files, {len(bad)} failing" + (f"; smallest: {bad[0]}" if bad else ""), witness=bad[:4])


# ------------------------------------------------------------------- R16.k
R16K_STATEMENTS = (
    "x = {**a, 'k': v % w}",
    "x = {'a': 1, **b, 'c': f(2)}",
    "def g(a, /, b=1, *args, c, d=2, **kw): return a % b",
    "h = lambda a, *, b, c=3: a % b",
    "y = f(1, *xs, k=2, **kw) % 3",
    "z = [i % 2 for i in it if i] + [*rest]",
    "w = a[1:2, ::3] % b[...]",
    "s = f'{p!r:>{q}} and {r % 2}'",
    "t = (yield) % 2 if c else not d",
    "async def co(): return [await e async for e in src() if e % 2]",
    "with cm() as m, cn(): print(m % 2, end='')",
    "try:\n    u = v % w\nexcept (A, B) as exc:\n    raise C from exc\nelse:\n    pass\nfinally:\n    del u",
    "class K(Base, metaclass=M):\n    attr: int = 1 % 2",
    "match q:\n    case [1, *rest] if rest % 2:\n        pass\n    case {'k': v, **others}:\n        pass\n    case P(x=1) | None:\n        pass",
    "global_name: 'T' = cast('T', o % 1)",
    "for i, (j, *k) in enumerate(pairs % 2):\n    continue",
    "assert a % b, 'message'",
    "r = a if b else (c := d % 2)",
)


def r16_k(prog: Program, chk: Check) -> None:
    import copy

    from ..minterp import AssertionFailed, Interp, ModelError, Obj, PyRaise, Unsupported

    chk.rule(
        "R16.k",
        "the statement copier behind replace_node as a finite model: NodeTransformer.generic_visit and ReplaceNodeTransformer.generic_visit are interpreted from their AST on real "
        "syntax trees - 18 statements that together use every list-valued and optional field shape of the grammar (dict displays with ** entries whose key is None, keyword-only "
        "parameters without defaults, starred / double-starred arguments, slices, f-strings, comprehensions, try / with / match / class / async forms) - for every expression node of "
        "the statement as the node to replace: the result equals the statement with exactly that node replaced (reference: the standard library's own ast.NodeTransformer on a "
        "deep copy), and the original statement is not mutated",
        floor=3,
    )
    nt = prog.cls("NodeTransformer")
    rt = prog.cls("ReplaceNodeTransformer")
    method_defs = {("ReplaceNodeTransformer", "generic_visit"): rt.methods["generic_visit"], ("NodeTransformer", "generic_visit"): nt.methods["generic_visit"]}

    def run(stmt: ast.AST, target: ast.AST, replacement: ast.AST):
        holder = []
        tr = Obj("ReplaceNodeTransformer", node_to_replace=target, replacement=replacement)

        def visit(node):
            md = method_defs[("ReplaceNodeTransformer", "generic_visit")]
            return holder[0].call_def(md, [tr, node], md)

        tr._attrs["visit"] = visit
        it = Interp({}, {}, (), {}, lambda v, c: None, method_defs, {}, {"ast": ast, "__super__": (lambda cur_fn, meth: nt.methods[meth]), "__native_getattr__": True})
        holder.append(it)
        try:
            return visit(stmt)
        except Unsupported as u:
            raise AnchorError(f"NodeTransformer cannot be modelled: {u}")
        except (AssertionFailed, PyRaise, ModelError) as e:
            return ("crash", str(e))

    class _Ref(ast.NodeTransformer):
        def __init__(self, target_path):
            self.target_path = target_path

    def path_of(root: ast.AST, node: ast.AST):
        for parent_ in ast.walk(root):
            for field, value in ast.iter_fields(parent_):
                if value is node:
                    return (parent_, field, None)
                if isinstance(value, list):
                    for i, x in enumerate(value):
                        if x is node:
                            return (parent_, field, i)
        return None

    bad_result, bad_mutation, crashes = [], [], []
    n = 0
    for src in R16K_STATEMENTS:
        stmt = ast.parse(src).body[0]
        before = ast.dump(stmt, include_attributes=True)
        targets = [x for x in ast.walk(stmt) if isinstance(x, ast.expr) and x is not stmt]
        for ti, target in enumerate(targets):
            n += 1
            replacement = ast.Name(id="REPLACED", ctx=ast.Load())
            d = {"statement": src, "replaced": ast.unparse(target)[:40]}
            out = run(stmt, target, replacement)
            if isinstance(out, tuple):
                crashes.append({**d, "error": out[1]})
                continue
            # reference: deep copy, then put the replacement at the same place
            ref = copy.deepcopy(stmt)
            ref_targets = [x for x in ast.walk(ref) if isinstance(x, ast.expr) and x is not ref]
            loc = path_of(ref, ref_targets[ti])
            if loc is None:
                continue
            parent_, field, i = loc
            if i is None:
                setattr(parent_, field, replacement)
            else:
                getattr(parent_, field)[i] = replacement
            if ast.dump(out) != ast.dump(ref):
                bad_result.append({**d, "got": ast.unparse(out)[:120] if isinstance(out, ast.AST) else repr(out), "expected": ast.unparse(ref)[:120]})
            if ast.dump(stmt, include_attributes=True) != before:
                bad_mutation.append(d)
    chk.model_evaluations += n
    chk.analysed["node_transformer_model"] = {"replacements": n}
    site = prog.site("node_visitor", nt.methods["generic_visit"])
    for lst in (bad_result, bad_mutation, crashes):
        lst.sort(key=lambda x: (len(x["statement"]), repr(x)))
    chk.ob("R16.k", "node_visitor::node-transformer-model::the copy differs from the statement in the replaced node only", not bad_result, site, f"{n} replacements, {len(bad_result)} wrong copies" + (f"; smallest: {bad_result[0]}" if bad_result else ""), witness=bad_result[:4])
    chk.ob("R16.k", "node_visitor::node-transformer-model::the original statement is not mutated", not bad_mutation, site, f"{len(bad_mutation)} statements mutated" + (f"; first: {bad_mutation[0]}" if bad_mutation else ""), witness=bad_mutation[:3])
    chk.ob("R16.k", "node_visitor::node-transformer-model::no-crash", not crashes, site, f"{len(crashes)} crashes" + (f"; first: {crashes[0]}" if crashes else ""), witness=crashes[:3])


# ------------------------------------------------------------------- R16.l
def r16_l(prog: Program, chk: Check) -> None:
    import itertools

    from ..minterp import AssertionFailed, Interp, ModelError, Obj, PyRaise, Sym, Unsupported
    from .c14 import effective_eq_hash

    chk.rule(
        "R16.l",
        "the too_many_positional_args fix gives every argument its own parameter name, as a finite model: Signature.maybe_show_too_many_pos_args_error is interpreted from its AST "
        "on calls with 3-4 positional arguments, among them the same expression twice (`f(a, b, a)`, `f(0, 0, 1)`); the arguments are Composite objects with the equality and the hash "
        "the Composite class really has (read from its __eq__ / __hash__ or NamedTuple defaults by the analysis of C14 R14.1), since the producer looks parameters up in a dict "
        "keyed by them: the rewritten call names the i-th argument with the i-th parameter - no keyword twice (SyntaxError at compile time), none lost - and leaves the arguments "
        "of positional-only parameters positional (TypeError at run time otherwise)",
        floor=2,
    )
    sig = prog.cls("Signature")
    fn = sig.methods.get("maybe_show_too_many_pos_args_error")
    if fn is None:
        raise AnchorError("Signature.maybe_show_too_many_pos_args_error not found")
    eq, hs = effective_eq_hash(prog, "Composite")
    eq_fields = tuple(eq.fields) if eq.fields else ("value", "varname", "node")
    hash_fields = tuple(hs.fields) if hs.fields else ("value", "varname", "node")

    class Composite(Obj):
        def _k(self, fields):
            return tuple(id(self._attrs[f]) if not isinstance(self._attrs[f], (str, int, type(None))) else self._attrs[f] for f in fields)

        def __eq__(self, other):
            return isinstance(other, Composite) and self._k(eq_fields) == other._k(eq_fields)

        def __ne__(self, other):
            return not self.__eq__(other)

        def __hash__(self):
            return hash(self._k(hash_fields))

    wrong, crashes = [], []
    n = 0
    proposed = 0
    vals = {"a": Obj("Value", label="a"), "b": Obj("Value", label="b"), "c": Obj("Value", label="c")}
    for k in (3, 4):
        for shape in itertools.product("abc", repeat=k):
            if len(set(shape)) == k:
                if shape != tuple("abc"[:k]) and k == 3:
                    continue  # one all-distinct control per length is enough
            n += 1
            src = "f(" + ", ".join(shape) + ")"
            call = ast.parse(src).body[0].value  # type: ignore[attr-defined]
            composites = [Composite("Composite", value=vals[s], varname=s, node=arg) for s, arg in zip(shape, call.args)]
            names = [f"p{i}" for i in range(k)]
            # the first `npos` parameters are positional-only (`def f(p0, /, p1, ...)`): they cannot be passed by name
            npos = {("a", "b", "c"): 1, ("a", "b", "a"): 2, ("a", "a", "b", "c"): 1}.get(shape, 0)
            PO, POK = Sym("ParameterKind.POSITIONAL_ONLY"), Sym("ParameterKind.POSITIONAL_OR_KEYWORD")
            parameters = {nm: Obj("SigParameter", name=nm, kind=PO if i < npos else POK) for i, nm in enumerate(names)}
            bound_args = {nm: (i, comp) for i, (nm, comp) in enumerate(zip(names, composites))}
            args = [(comp, None) for comp in composites]
            shown: List[ast.AST] = []
            visitor = Obj(
                "NameCheckVisitor", options=Obj("Options", get_value_for=lambda o: 2),
                show_error=lambda node, msg=None, error_code=None, replacement=None, **kw: shown.append(replacement),
                replace_node=lambda node, new_node: new_node,
            )
            ctx = Obj("CheckCallContext", visitor=visitor)
            it = Interp({}, {}, (), {"stringify_object": lambda a: "f"}, lambda v, c: (isinstance(v, int) if c == "int" else None), {}, {}, {"ast": ast, "MaximumPositionalArgs": Sym("MaximumPositionalArgs"), "ErrorCode": Obj("ErrorCode", too_many_positional_args=Sym("too_many_positional_args"))})
            d = {"call": src}
            try:
                it.call_def(fn, [Obj("Signature", callable=None, parameters=parameters)], fn, {"args": args, "bound_args": bound_args, "ctx": ctx, "node": call})
            except Unsupported as u:
                raise AnchorError(f"maybe_show_too_many_pos_args_error cannot be modelled: {u}")
            except (AssertionFailed, PyRaise, ModelError) as e:
                crashes.append({**d, "error": str(e)})
                continue
            if not shown:
                continue  # no fix proposed: nothing can be wrong with it
            proposed += 1
            new = shown[0]
            if not isinstance(new, ast.Call):
                wrong.append({**d, "replacement": repr(new)})
                continue
            got = [(None, a) for a in new.args] + [(kwd.arg, kwd.value) for kwd in new.keywords]
            want = [(None if i < npos else nm, a) for i, (nm, a) in enumerate(zip(names, call.args))]
            if [g[0] for g in got] != [w[0] for w in want] or any(g[1] is not w[1] for g, w in zip(got, want)):
                wrong.append({**d, "rewritten to": "f(" + ", ".join((f"{a}=" if a else "") + ast.unparse(v) for a, v in got) + ")", "expected": "f(" + ", ".join((f"{a}=" if a else "") + ast.unparse(v) for a, v in want) + ")", "positional-only parameters": npos})
    chk.model_evaluations += n
    chk.analysed["too_many_positional_args_fix_model"] = {"calls": n, "fixes proposed": proposed}
    if proposed < n // 2:
        raise AnchorError(f"the model of maybe_show_too_many_pos_args_error proposed a fix for only {proposed} of {n} calls")
    site = prog.site("signature", fn)
    wrong.sort(key=lambda x: len(x["call"]))
    chk.ob("R16.l", "signature::too-many-positional-args-fix::the i-th argument is named with the i-th parameter", not wrong, site, f"{n} calls, {len(wrong)} rewritten wrongly" + (f"; smallest: {wrong[0]}" if wrong else ""), witness=wrong[:5])
    chk.ob("R16.l", "signature::too-many-positional-args-fix::no-crash", not crashes, site, f"{len(crashes)} crashes" + (f"; first: {crashes[0]}" if crashes else ""), witness=crashes[:3])


# ------------------------------------------------------------------- R16.m
R16M_SOURCES = (
    "x = 1\ny = 2\n",
    "def f():\n    x = g(1,\n          2)\n    return x\n",
    "def f():\n    x = g(\n        1,\n    )\n    return x\n",
    "def f():\n    x = g(1,\n2)\n    return x\n",  # the continuation line starts in column 0
    'def f(v):\n    y = """\n%s\n""" % v\n    return y\n',  # a triple-quoted string that closes in column 0, with a tail
    'def f(v):\n    y = """\n    %s\n    """\n    return y\n',
    "def f():\n    x = [\n        1,\n    ]\n\n    y = 2\n",
    "def f():\n    x = (1 +\n         2)\n    # comment\n    return x\n",
    "def f():\n    if a:\n        x = g(1,\n              2)\n    else:\n        x = 3\n",
    "x = {\n    1: 2,\n}\n",
    "def f():\n    x = g(1, 2); y = 3\n    return x\n",
)


def r16_m(prog: Program, chk: Check) -> None:
    from ..minterp import AssertionFailed, Interp, ModelError, Obj, PyRaise, Unsupported

    chk.rule(
        "R16.m",
        "the lines a statement occupies are the lines the parser says it occupies, as a finite model: analysis_lib.get_line_range_for_node (with get_indentation) is interpreted "
        "from its AST on every simple statement of 11 real sources - one-line statements, calls and displays continued over several lines with the closing bracket at any indent, a "
        "continuation line in column 0, triple-quoted strings that close in column 0 with and without a tail, statements followed by a blank line, a comment, another statement: the "
        "range equals node.lineno .. node.end_lineno. These are the lines a fix deletes before it writes the replacement; a line too few leaves the rest of the old statement in "
        "the file (a syntax error), a line too many deletes the next statement",
        floor=2,
    )
    fn = prog.func("analysis_lib", "get_line_range_for_node")
    gi = prog.func("analysis_lib", "get_indentation")
    wrong, crashes = [], []
    n = 0
    for src in R16M_SOURCES:
        tree = ast.parse(src)
        lines = [l + "\n" for l in src.split("\n")[:-1]]
        for node in ast.walk(tree):
            if not isinstance(node, (ast.Assign, ast.Return, ast.Expr, ast.AugAssign)):
                continue
            n += 1
            it = Interp({}, {}, (), {}, None, {}, {"get_indentation": gi}, {"ast": ast, "__native_getattr__": True})
            d = {"source": src, "statement": ast.unparse(node)[:40], "lines by the parser": [node.lineno, node.end_lineno]}
            try:
                r = it.call_def(fn, [node, list(lines)], fn)
            except Unsupported as u:
                raise AnchorError(f"get_line_range_for_node cannot be modelled: {u}")
            except (AssertionFailed, PyRaise, ModelError) as e:
                crashes.append({**d, "error": str(e)})
                continue
            want = list(range(node.lineno, (node.end_lineno or node.lineno) + 1))
            if list(r) != want:
                wrong.append({**d, "lines by get_line_range_for_node": [min(r), max(r)] if r else []})
    chk.model_evaluations += n
    site = prog.site("analysis_lib", fn)
    wrong.sort(key=lambda x: len(x["source"]))
    chk.ob("R16.m", "analysis_lib::get_line_range_for_node::the range is lineno .. end_lineno", not wrong, site, f"{n} statements, {len(wrong)} with another range" + (f"; smallest: {wrong[0]}" if wrong else ""), witness=wrong[:5])
    chk.ob("R16.m", "analysis_lib::get_line_range_for_node::no-crash", not crashes, site, f"{len(crashes)} crashes" + (f"; first: {crashes[0]}" if crashes else ""), witness=crashes[:3])


# ------------------------------------------------------------------- R16.n
def r16_n(prog: Program, chk: Check) -> None:
    import itertools

    from . import percent_model as pmod

    chk.rule(
        "R16.n",
        "the f-string proposed for a %-format evaluates to what the %-format evaluates to, as a finite model: PercentFormatString.from_pattern (the real regular expression, "
        "compiled from the module's constant) and maybe_replace_with_fstring are interpreted from their AST for every template built from 0-2 `%s` / `%d` specifiers and the "
        "literal pieces '', 'a', 'hello ', '!', ' y', a newline, two newlines, CR LF - at the front, between and after the specifiers - applied to a name or a tuple of names "
        "of the right and of the wrong length; CPython compiles and evaluates the proposed f-string with the names bound to ints (and to strings for %s-only templates) and "
        "evaluates the original expression: the values are equal, and nothing is proposed for an expression that raises (wrong number of arguments). Whether a value suits "
        "`%d` is not decided here: the producer sees syntax only",
        floor=3,
    )
    model = pmod.PercentModel(prog)
    pieces = ("", "a", "hello ", "!", " y", "\n", "\n\n", "\r\n", "!\n")
    differs, for_failing, crashes, unsupported = [], [], [], []
    n = proposed = 0
    for nspec in (1, 2):
        for specs in itertools.product(("%s", "%d"), repeat=nspec):
            for lits in itertools.product(pieces, repeat=nspec + 1):
                if nspec == 2 and (lits[0] not in ("", "a") or lits[1] not in ("", "a", "\n")):
                    continue
                template = lits[0] + "".join(sp + lit for sp, lit in zip(specs, lits[1:]))
                # the names hold values every specifier of the template accepts: whether `%d` suits a value is the
                # format checker's question (C17) and needs its type; here only the number of arguments can be wrong
                envs = [{"x": 7, "y": 3}] + ([{"x": "v", "y": "w"}] if all(sp == "%s" for sp in specs) else [])
                for args_src, env in itertools.product((("x",) if nspec == 1 else ()) + ("(x,)", "(x, y)", "(y, x)"), envs):
                    n += 1
                    d = {"expression": f"{template!r} % {args_src}", "with": dict(env)}
                    try:
                        want = ("value", eval(f"{template!r} % {args_src}", dict(env)))
                    except Exception as e:  # noqa: BLE001 - the reference records whatever CPython raises
                        want = ("raises", type(e).__name__)
                    args_node = ast.parse(args_src, mode="eval").body
                    try:
                        r = model.fstring_fix(template, args_node)
                    except AnchorError as e:
                        unsupported.append({**d, "why": str(e)[:300]})
                        continue
                    if r[0] == "crash":
                        crashes.append({**d, "error": r[1]})
                        continue
                    node = r[1]
                    if node is None:
                        continue
                    proposed += 1
                    expr = ast.Expression(body=node)
                    ast.fix_missing_locations(expr)
                    try:
                        got = eval(compile(expr, "<proposed f-string>", "eval"), dict(env))
                        shown = ast.unparse(node)
                    except Exception as e:  # noqa: BLE001
                        differs.append({**d, "proposed": "<does not compile / evaluate>", "error": f"{type(e).__name__}: {e}"})
                        continue
                    if want[0] == "raises":
                        for_failing.append({**d, "cpython raises": want[1], "proposed": shown})
                    elif got != want[1]:
                        differs.append({**d, "value": want[1], "proposed": shown, "value of the proposal": got})
    chk.model_evaluations += n
    chk.analysed["fstring_fix_model"] = {"expressions": n, "fixes proposed": proposed}
    if proposed < 50:
        raise AnchorError(f"the model of maybe_replace_with_fstring proposed only {proposed} f-strings for {n} expressions")
    site = prog.site("format_strings", prog.func("format_strings", "maybe_replace_with_fstring"))
    for lst in (differs, for_failing):
        lst.sort(key=lambda x: len(x["expression"]))
    chk.ob("R16.n", "format_strings::fstring-fix-model::the proposed f-string has the value of the %-format", not differs, site, f"{proposed} proposals, {len(differs)} with another value" + (f"; smallest: {differs[0]}" if differs else ""), witness=differs[:5])
    chk.ob("R16.n", "format_strings::fstring-fix-model::nothing is proposed for an expression that raises", not for_failing, site, f"{len(for_failing)} proposals for failing expressions" + (f"; smallest: {for_failing[0]}" if for_failing else ""), witness=for_failing[:5])
    chk.ob("R16.n", "format_strings::fstring-fix-model::no-crash", not crashes, site, f"{len(crashes)} crashes" + (f"; first: {crashes[0]}" if crashes else ""), witness=crashes[:3])
    if unsupported:
        raise AnchorError(f"{len(unsupported)} expressions cannot be modelled; first: {unsupported[0]}")


def run(prog: Program, chk: Check) -> None:
    guard(chk, r16_c, prog, chk)
    guard(chk, r16_e, prog, chk)
    guard(chk, r16_f, prog, chk)
    guard(chk, r16_hi, prog, chk)
    guard(chk, r16_i, prog, chk)
    guard(chk, r16_j, prog, chk)
    guard(chk, r16_k, prog, chk)
    guard(chk, r16_l, prog, chk)
    guard(chk, r16_m, prog, chk)
    guard(chk, r16_n, prog, chk)
    guard(chk, r16_o, prog, chk)


# ------------------------------------------------------------------- R16.o
def r16_o(prog: Program, chk: Check) -> None:
    from ..minterp import AssertionFailed, Interp, ModelError, Obj, PyRaise, Sym, Unsupported

    chk.rule(
        "R16.o",
        "who may be told that an f is missing, as a finite model: NameCheckVisitor._maybe_show_missing_f_error is interpreted from its AST for the string '{y} and {x}' (both "
        "names exist) as it occurs in seven real statements parsed by CPython - assigned, returned, passed to a call, passed to a call that has keywords of those names, followed by "
        ".format(), alone as a docstring, and as the literal part of an f-string (where CPython un-escaped `{{y}}` to `{y}`): a fix is proposed for the first three only. Inside an "
        "f-string the proposal would nest an f-string in the literal part - f'{x}f' {y}'' - which does not parse",
        floor=2,
    )
    ncv = prog.cls("NameCheckVisitor")
    fn = ncv.methods.get("_maybe_show_missing_f_error")
    if fn is None:
        raise AnchorError("NameCheckVisitor._maybe_show_missing_f_error not found")
    cases = [
        ("v = '{y} and {x}'", True), ("return_('{y} and {x}')", True), ("g('{y} and {x}')", True), ("g('{y} and {x}', x=1, y=2)", False),
        ("'{y} and {x}'.format(x=1, y=2)", False), ("'{y} and {x}'", False), ("v = f'{x} {{y}} and {{x}}'", False),
    ]
    wrong, crashes = [], []
    n = 0
    for src, want in cases:
        n += 1
        tree = ast.parse(src)
        # the string constant and its ancestors, as node_context sees them (the constant itself is parent 1)
        target = None
        for node in ast.walk(tree):
            if isinstance(node, ast.Constant) and isinstance(node.value, str) and "{y}" in node.value:
                target = node
        if target is None:
            raise AnchorError(f"R16.o: no string constant with a brace in {src!r}")
        chain = [target]
        cur = target
        parents = {id(c): p for p in ast.walk(tree) for c in ast.iter_child_nodes(p)}
        while id(cur) in parents:
            cur = parents[id(cur)]
            chain.append(cur)
        proposed: List[object] = []
        self_obj = Obj(
            "NameCheckVisitor", _name_exists=lambda name: True, node_context=Obj("StackedContexts", nth_parent=lambda k, chain=chain: chain[k - 1] if k - 1 < len(chain) else None),
            _show_error_if_checking=lambda node, msg=None, error_code=None, replacement=None, **kw: proposed.append(replacement), replace_node=lambda node, new: new,
        )
        it = Interp({}, {}, (), {}, None, {}, {}, {"ast": ast, "ErrorCode": Obj("ErrorCode", missing_f=Sym("missing_f")), "__native_getattr__": True, "__concrete_fstrings__": True})
        d = {"statement": src}
        try:
            it.call_def(fn, [self_obj, target, target.value], fn)
        except Unsupported as u:
            raise AnchorError(f"_maybe_show_missing_f_error cannot be modelled: {u}")
        except (AssertionFailed, PyRaise, ModelError) as e:
            crashes.append({**d, "error": str(e)})
            continue
        if bool(proposed) != want:
            wrong.append({**d, "fix proposed": bool(proposed), "expected": want})
    chk.model_evaluations += n
    site = prog.site("name_check_visitor", fn)
    chk.ob("R16.o", "name_check_visitor::NameCheckVisitor._maybe_show_missing_f_error::proposes-only-for-plain-strings", not wrong, site, f"{n} statements, {len(wrong)} judged otherwise" + (f"; first: {wrong[0]}" if wrong else ""), witness=wrong[:4])
    chk.ob("R16.o", "name_check_visitor::NameCheckVisitor._maybe_show_missing_f_error::no-crash", not crashes, site, f"{len(crashes)} crashes" + (f"; first: {crashes[0]}" if crashes else ""), witness=crashes[:3])
