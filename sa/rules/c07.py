"""C07 - callable compatibility: variance direction and structural parity of
Signature.can_assign and its helpers."""

from __future__ import annotations

import ast
from typing import Dict, List, Optional, Set, Tuple

from ..model import AnchorError, Program, dotted, last_attr, norm, parent, walk_no_nested
from ..report import Check, guard
from .common import calls_in, guards_of, local_assignments, params_of, returns_of

EXP, ACT = "EXPECTED", "ACTUAL"


class Roles:
    """Def-use role inference inside one function: which side (expected = the
    signature being assigned to, actual = the signature offered) an expression
    derives from, and whether it derives from a return annotation."""

    def __init__(self, fn: ast.FunctionDef, seeds: Dict[str, str]) -> None:
        self.fn = fn
        self.seeds = dict(seeds)
        self.role: Dict[str, Set[str]] = {k: {v} for k, v in seeds.items()}
        self.ret: Set[str] = set()  # names derived from .return_value
        self.siglevel: Set[str] = set(k for k in seeds if k in ("self", "other"))
        self._infer()

    def _infer(self) -> None:
        for _ in range(6):
            changed = False
            for n in walk_no_nested(self.fn):
                pairs: List[Tuple[ast.AST, ast.AST, bool]] = []  # target, source, element-of
                if isinstance(n, ast.Assign):
                    for t in n.targets:
                        pairs.append((t, n.value, False))
                elif isinstance(n, (ast.For, ast.comprehension)):
                    pairs.append((n.target, n.iter, True))
                for tgt, src, elem in pairs:
                    names = [x.id for x in ast.walk(tgt) if isinstance(x, ast.Name)]
                    if isinstance(tgt, ast.Tuple) and isinstance(src, ast.Call) and last_attr(src) == "enumerate" and src.args:
                        # for i, x in enumerate(S): only x takes the role
                        names = [x.id for x in ast.walk(tgt.elts[-1]) if isinstance(x, ast.Name)]
                        src = src.args[0]
                    r = self.of(src)
                    isret = self.is_return(src)
                    sig = elem and isinstance(src, ast.Attribute) and src.attr == "signatures"
                    for nm in names:
                        if nm in self.seeds:
                            continue
                        if r and not r <= self.role.get(nm, set()):
                            self.role.setdefault(nm, set()).update(r)
                            changed = True
                        if isret and nm not in self.ret:
                            self.ret.add(nm)
                            changed = True
                        if sig and nm not in self.siglevel:
                            self.siglevel.add(nm)
                            changed = True
            if not changed:
                break

    def of(self, e: ast.AST) -> Set[str]:
        if isinstance(e, ast.Name):
            return set(self.role.get(e.id, set()))
        if isinstance(e, ast.Attribute):
            return self.of(e.value)
        if isinstance(e, ast.Subscript):
            return self.of(e.value)
        if isinstance(e, ast.Call):
            if isinstance(e.func, ast.Attribute):
                r = self.of(e.func.value)
                if r:
                    return r  # receiver decides: other.parameters.get(my_param.name) is ACTUAL
            out: Set[str] = set()
            for a in e.args:
                out |= self.of(a)
            for k in e.keywords:
                out |= self.of(k.value)
            return out
        if isinstance(e, (ast.ListComp, ast.GeneratorExp, ast.SetComp)):
            out = set()
            for g in e.generators:
                out |= self.of(g.iter)
            return out
        if isinstance(e, ast.IfExp):
            return self.of(e.body) | self.of(e.orelse)
        if isinstance(e, ast.Starred):
            return self.of(e.value)
        return set()

    def is_return(self, e: ast.AST) -> bool:
        for x in ast.walk(e):
            if isinstance(x, ast.Attribute) and x.attr == "return_value":
                return True
            if isinstance(x, ast.Name) and x.id in self.ret:
                return True
        return False

    def is_siglevel(self, e: ast.AST) -> bool:
        return isinstance(e, ast.Name) and e.id in self.siglevel


def variance_sites(prog: Program) -> List[Tuple[str, str, ast.FunctionDef, Roles]]:
    out = []
    fn = prog.func("signature", "Signature.can_assign")
    out.append(("signature", "Signature.can_assign", fn, Roles(fn, {"self": EXP, "other": ACT})))
    fn = prog.func("signature", "OverloadedSignature.can_assign")
    out.append(("signature", "OverloadedSignature.can_assign", fn, Roles(fn, {"self": EXP, "other": ACT})))
    # helpers: seed parameter roles from the call sites in Signature.can_assign
    main_roles = out[0][3]
    for helper in ("can_assign_var_positional", "can_assign_var_keyword"):
        hf = prog.func("signature", helper)
        params = params_of(hf)
        seeds: Dict[str, Set[str]] = {}
        for c in calls_in(out[0][2], helper):
            for i, a in enumerate(c.args):
                if i < len(params):
                    r = main_roles.of(a)
                    if r:
                        seeds.setdefault(params[i], set()).update(r)
        flat = {k: next(iter(v)) for k, v in seeds.items() if len(v) == 1}
        if not flat:
            raise AnchorError(f"{helper}: could not seed parameter roles from call sites")
        out.append(("signature", helper, hf, Roles(hf, flat)))
    return out


def r07_a(prog: Program, chk: Check) -> None:
    chk.rule(
        "R07.a",
        "variance direction: parameter annotations are checked actual.can_assign(expected) (contravariant), "
        "return annotations and whole signatures expected.can_assign(actual) (covariant); roles come from def-use",
        floor=10,
    )
    n = 0
    for m, q, fn, roles in variance_sites(prog):
        counts: Dict[str, int] = {}
        for c in calls_in(fn, "can_assign", nested=False):
            if not isinstance(c.func, ast.Attribute) or not c.args:
                continue
            recv, arg = c.func.value, c.args[0]
            rr, ra = roles.of(recv), roles.of(arg)
            if len(rr) != 1 or len(ra) != 1 or rr == ra:
                continue  # same side or no side: not a variance site
            rr1, ra1 = next(iter(rr)), next(iter(ra))
            n += 1
            if roles.is_siglevel(recv) or roles.is_siglevel(arg):
                kind, want = "signature", (EXP, ACT)
            elif roles.is_return(recv) or roles.is_return(arg):
                kind, want = "return", (EXP, ACT)
            else:
                kind, want = "parameter", (ACT, EXP)
            base = f"{m}::{q}::variance::{kind}::{_origin(recv)}<-{_origin(arg)}"
            counts[base] = counts.get(base, 0) + 1
            key = base + (f"#{counts[base]}" if counts[base] > 1 else "")
            chk.ob(
                "R07.a",
                key,
                (rr1, ra1) == want,
                prog.site(m, c),
                f"`{norm(c)[:70]}`: receiver is {rr1}, argument is {ra1}; a {kind} check must be {want[0]}.can_assign({want[1]})",
            )
    chk.analysed["variance_sites"] = n


def _origin(e: ast.AST) -> str:
    """A name-independent description of where the operand comes from."""
    t = norm(e)
    for attr in ("return_value", "get_annotation", "signatures"):
        if attr in t:
            return attr
    if isinstance(e, ast.Name):
        return "local"
    if isinstance(e, ast.Call):
        return "call:" + (last_attr(e) or "?")
    if isinstance(e, ast.Subscript):
        return "item"
    return type(e).__name__


def r07_b(prog: Program, chk: Check) -> None:
    chk.rule(
        "R07.b",
        "default obligations are uniform: every arm that pairs an expected parameter with an actual one rejects "
        "`expected has a default and actual has none`",
        floor=3,
    )
    fn = prog.func("signature", "Signature.can_assign")
    roles = Roles(fn, {"self": EXP, "other": ACT})
    n = 0
    for iff in walk_no_nested(fn):
        if not isinstance(iff, ast.If):
            continue
        # a pairing arm: its body directly contains an assignment from <ACTUAL param>.get_annotation()
        pair = None
        for s in iff.body:
            if isinstance(s, ast.Assign) and isinstance(s.value, ast.Call) and last_attr(s.value) == "get_annotation":
                recv = s.value.func.value  # type: ignore[attr-defined]
                if roles.of(recv) == {ACT}:
                    pair = recv
        if pair is None:
            continue
        # only arms inside the loop over the expected signature's parameters
        inside = False
        a = parent(iff)
        while a is not None and a is not fn:
            if isinstance(a, ast.For) and roles.of(a.iter) == {EXP}:
                inside = True
            a = parent(a)
        if not inside:
            continue
        n += 1
        ok = False
        for s in iff.body:
            if isinstance(s, ast.If) and isinstance(s.test, ast.BoolOp) and isinstance(s.test.op, ast.And) and len(s.test.values) == 2:
                a, b = s.test.values
                def side(x: ast.AST, isnot: bool) -> Optional[Set[str]]:
                    if isinstance(x, ast.Compare) and isinstance(x.left, ast.Attribute) and x.left.attr == "default" and isinstance(x.comparators[0], ast.Constant) and x.comparators[0].value is None:
                        if isinstance(x.ops[0], ast.IsNot) == isnot and isinstance(x.ops[0], (ast.Is, ast.IsNot)):
                            return roles.of(x.left.value)
                    return None
                if side(a, True) == {EXP} and side(b, False) == {ACT} or side(b, True) == {EXP} and side(a, False) == {ACT}:
                    ok = isinstance(s.body[-1], ast.Return) and "CanAssignError" in norm(s.body[-1])
        kinds = sorted({d.split(".")[-1] for g, pol in guards_of(iff.body[0], fn) for d in [dotted(x) or "" for x in ast.walk(g)] if d.startswith("ParameterKind.") and pol})
        chk.ob(
            "R07.b",
            f"signature::Signature.can_assign::default-obligation::{'|'.join(kinds)}::pair={_origin(pair)}:{norm(pair)[:30]}",
            ok,
            prog.site("signature", iff),
            "this arm pairs an expected parameter with an actual one but does not reject `expected.default is not None and actual.default is None`: "
            "a call that omits the argument is accepted by the expected signature and fails on the actual one",
        )
    if n < 3:
        raise AnchorError("Signature.can_assign: fewer than 3 pairing arms found")


def r07_c(prog: Program, chk: Check) -> None:
    chk.rule("R07.c", "the tail loop rejects every required parameter of the actual signature that the expected signature never supplies", floor=4)
    fn = prog.func("signature", "Signature.can_assign")
    roles = Roles(fn, {"self": EXP, "other": ACT})
    tail = None
    for n in walk_no_nested(fn):
        if (
            isinstance(n, ast.For)
            and isinstance(n.target, ast.Name)
            and roles.of(n.iter) == {ACT}
            and any(isinstance(x, ast.Return) and x.value is not None and "CanAssignError" in norm(x.value) for x in ast.walk(n))
            and not any(isinstance(x, ast.Call) and last_attr(x) == "can_assign" for x in ast.walk(n))
        ):
            tail = n
    if tail is None:
        raise AnchorError("Signature.can_assign: tail loop over the actual parameters not found")
    x = tail.target.id  # type: ignore[attr-defined]
    arms: Dict[str, ast.If] = {}
    cur = tail.body[0]
    skip_default = False
    while isinstance(cur, ast.If):
        t = norm(cur.test)
        for k in ("POSITIONAL_ONLY", "POSITIONAL_OR_KEYWORD", "KEYWORD_ONLY", "VAR_POSITIONAL", "VAR_KEYWORD", "PARAM_SPEC", "ELLIPSIS"):
            if f"ParameterKind.{k}" in t:
                arms[k] = cur
        if t == f"{x}.default is not None" and isinstance(cur.body[-1], ast.Continue):
            skip_default = True
        cur = cur.orelse[0] if len(cur.orelse) == 1 else None  # type: ignore[assignment]
    site = prog.site("signature", tail)
    chk.ob("R07.c", "signature::Signature.can_assign::tail::defaults-skipped", skip_default, site, "parameters with defaults are optional and must be skipped")
    for k, consumed in (("POSITIONAL_ONLY", ["consumed_positional"]), ("POSITIONAL_OR_KEYWORD", ["consumed_positional", "consumed_keyword"]), ("KEYWORD_ONLY", ["consumed_keyword"])):
        arm = arms.get(k)
        ok = False
        if arm is not None:
            t = norm(arm)
            ok = all(f"{x}.name not in {c}" in t for c in consumed) and "return CanAssignError" in t
        chk.ob(
            "R07.c",
            f"signature::Signature.can_assign::tail::{k}",
            ok,
            site,
            f"a required {k} parameter of the actual signature that was not consumed ({', '.join(consumed)}) must be rejected",
        )
    guard = [g for g, pol in guards_of(tail, fn) if "consumed_paramspec" in norm(g)]
    chk.ob("R07.c", "signature::Signature.can_assign::tail::guard", bool(guard), site, "the tail loop may only be skipped when a ParamSpec / ellipsis consumed the rest")


def r07_e(prog: Program, chk: Check) -> None:
    chk.rule("R07.e", "an actual parameter is marked consumed only where it is paired with a named expected parameter; the expected *args/**kwargs arms (which may supply nothing) consume nothing", floor=3)
    fn = prog.func("signature", "Signature.can_assign")
    n = 0
    for c in calls_in(fn, "add", nested=False):
        if not (isinstance(c.func, ast.Attribute) and isinstance(c.func.value, ast.Name) and c.func.value.id.startswith("consumed_")):
            continue
        n += 1
        kinds = sorted({d.split(".")[-1] for g, pol in guards_of(c, fn) if pol for d in [dotted(x) or "" for x in ast.walk(g)] if d.startswith("ParameterKind.") and "my_param" in norm(g)})
        bad = [k for k in kinds if k in ("VAR_POSITIONAL", "VAR_KEYWORD")]
        chk.ob(
            "R07.e",
            f"signature::Signature.can_assign::{c.func.value.id}.add::in={'|'.join(kinds) or '?'}",
            not bad,
            prog.site("signature", c),
            f"`{norm(c)[:60]}` marks an actual parameter as supplied inside the expected {bad} arm: a variadic expected parameter may pass zero arguments, "
            "so a required actual parameter is then never reported as extra",
        )
    if n < 3:
        raise AnchorError("Signature.can_assign: consumed_* bookkeeping not found")


# ------------------------------------------------------------------- R07.f
def _compat_chunk(args):
    expected_sigs, actual_max, pool, max_pos, max_kw = args
    from ..model import Program as _P
    from . import compat_model as cm
    from .binder_model import signatures

    model = cm.CompatModel(_P())
    shapes = cm.call_shapes(max_pos, max_kw, pool)
    actuals = [an for a in signatures(actual_max) for an in cm.named_variants(a, pool)]
    classes: Dict[str, Dict[str, object]] = {}
    pairs = accepted = 0
    for e in expected_sigs:
        en = cm.default_names(e)
        ebinds = [c for c in shapes if cm.outcome(en, c[0], c[1]) == "binds"]
        ekind = {n: k for k, _, n in en}
        has_vk = any(k == "VAR_KEYWORD" for k, _, _ in en)
        for an in actuals:
            pairs += 1
            log: List[Tuple[str, str]] = []
            ok, _msg = model.accepts(en, an, log)
            if not ok:
                continue
            accepted += 1
            bad = None
            checked = set(log)
            akind = {n: k for k, _, n in an}
            unchecked = None
            for c in ebinds:
                o = cm.outcome(an, c[0], c[1])
                if o != "binds":
                    bad = bad or (c, o)
                    continue
                if unchecked is None:
                    for fl in cm.flows(en, an, c[0], c[1]):
                        if fl not in checked:
                            unchecked = (c, fl)
                            break
            # R07.g: every value flow of a commonly bound call shape was type-checked
            gkey = "flows-checked"
            if unchecked is not None:
                (npos_, kws_), (aslot, eslot) = unchecked
                gkey = f"unchecked-flow::into-actual-{akind.get(aslot[2:], '?')}::from-expected-{ekind.get(eslot[2:], '?')}"
            g_ = classes.setdefault("G|" + gkey, {"n": 0, "witness": []})
            g_["n"] += 1  # type: ignore[operator]
            if unchecked is not None:
                (npos_, kws_), (aslot, eslot) = unchecked
                call = "f(" + ", ".join([f"a{i}" for i in range(npos_)] + [f"{k}=v" for k in kws_]) + ")"
                w = g_["witness"]
                w.append((len(cm.fmt(en)) + len(cm.fmt(an)), cm.fmt(en), cm.fmt(an), call, f"the argument typed by the expected slot {eslot[2:]} reaches the actual slot {aslot[2:]}; no can_assign between their annotations was evaluated"))  # type: ignore[union-attr]
                w.sort()  # type: ignore[union-attr]
                del w[6:]  # type: ignore[arg-type]
            key = "sound"
            if bad is not None:
                (npos, kws), o = bad
                if o == "multiple-values":
                    amap = {n: i for i, (k, _, n) in enumerate(an) if k in ("POSITIONAL_OR_KEYWORD", "KEYWORD_ONLY")}
                    apos = [i for i, (k, _, _) in enumerate(an) if k in ("POSITIONAL_ONLY", "POSITIONAL_OR_KEYWORD")][:npos]
                    culprit = next((k for k in kws if k in amap and amap[k] in apos), "?")
                    via = ekind.get(culprit, "**kwargs" if has_vk else "?")
                    if via == "POSITIONAL_ONLY":
                        via = "**kwargs"  # a positional-only parameter's name, passed by keyword, lands in **kwargs
                    key = f"unsound::multiple-values::keyword-accepted-by-expected-through-{via}"
                else:
                    key = f"unsound::{o}"
            c_ = classes.setdefault(key, {"n": 0, "witness": []})
            c_["n"] += 1  # type: ignore[operator]
            if bad is not None:
                (npos, kws), o = bad
                call = "f(" + ", ".join([f"a{i}" for i in range(npos)] + [f"{k}=v" for k in kws]) + ")"
                w = c_["witness"]
                w.append((len(cm.fmt(en)) + len(cm.fmt(an)), cm.fmt(en), cm.fmt(an), call, o))  # type: ignore[union-attr]
                w.sort()  # type: ignore[union-attr]
                del w[6:]  # type: ignore[arg-type]
    return pairs, accepted, classes


def r07_f(prog: Program, chk: Check) -> None:
    import multiprocessing as mp
    import os as _os

    from . import compat_model as cm
    from .binder_model import signatures

    if _os.environ.get("VERIF_SELFTEST"):
        emax, amax, pool = 2, 3, cm.POOL[:3] + ("q",)
    elif chk.tier == "thorough":
        emax, amax, pool = 4, 3, cm.POOL
    else:
        emax, amax, pool = 3, 3, cm.POOL
    chk.rule(
        "R07.f",
        "callable compatibility as a finite model: Signature.can_assign is interpreted from its AST (all annotations mutually compatible) for every pair of "
        f"def-legal signatures (expected up to {emax} parameters, actual up to {amax} with every injective naming from {list(pool)}); every accepted pair must satisfy: "
        "each call shape (<= 3 positionals, <= 3 keywords) that binds to the expected signature binds to the actual one",
        floor=1,
    )
    chk.rule(
        "R07.g",
        "parameter contravariance as a flow property of the same model: annotations are tokens that record every `X.can_assign(Y)`; for each accepted pair and each call shape "
        "that binds in both signatures, the pair (actual slot that receives the argument, expected slot that types it) must be among the recorded checks",
        floor=1,
    )
    exp = list(signatures(emax))
    procs = 2 if _os.environ.get("VERIF_SELFTEST") else min(16, _os.cpu_count() or 1)
    chunks = [(exp[i :: procs * 3], amax, pool, 3, 3) for i in range(procs * 3)]
    chunks = [c for c in chunks if c[0]]
    with mp.get_context("fork").Pool(procs) as pl:
        results = pl.map(_compat_chunk, chunks)
    pairs = accepted = 0
    merged: Dict[str, Dict[str, object]] = {}
    for p_, a_, classes in results:
        pairs += p_
        accepted += a_
        for k, c in classes.items():
            m = merged.setdefault(k, {"n": 0, "witness": []})
            m["n"] += c["n"]  # type: ignore[operator]
            m["witness"] = sorted(list(m["witness"]) + list(c["witness"]))[:6]  # type: ignore[arg-type]
    chk.model_evaluations += pairs
    chk.analysed["compat_model"] = {"pairs_interpreted": pairs, "accepted_pairs": accepted, "expected_max_params": emax, "actual_max_params": amax, "name_pool": list(pool), "call_shapes_per_pair": len(cm.call_shapes(3, 3, pool))}
    site = prog.site("signature", prog.func("signature", "Signature.can_assign"))
    if accepted == 0:
        raise AnchorError("compat model: no pair is accepted (model broken)")
    merged.setdefault("sound", {"n": 0, "witness": []})
    merged.setdefault("G|flows-checked", {"n": 0, "witness": []})
    for k, c in sorted(merged.items()):
        if k.startswith("G|"):
            wit = [{"expected": w[1], "actual": w[2], "call": w[3], "detail": w[4]} for w in c["witness"]]  # type: ignore[union-attr]
            chk.ob(
                "R07.g",
                f"signature::Signature.can_assign::model::{k[2:]}",
                k == "G|flows-checked",
                site,
                f"{c['n']} accepted pairs in this class" + (f"; smallest: expected {wit[0]['expected']} accepts actual {wit[0]['actual']}: in {wit[0]['call']} {wit[0]['detail']}" if wit else ""),
                witness=wit,
            )
            continue
        wit = [{"expected": w[1], "actual": w[2], "call": w[3], "actual_outcome": w[4]} for w in c["witness"]]  # type: ignore[union-attr]
        ok = k == "sound"
        chk.ob(
            "R07.f",
            f"signature::Signature.can_assign::model::{k}",
            ok,
            site,
            f"{c['n']} accepted pairs in this class (of {accepted} accepted, {pairs} interpreted)"
            + (f"; smallest: expected {wit[0]['expected']} accepts actual {wit[0]['actual']}, but {wit[0]['call']} binds to the expected signature and gives {wit[0]['actual_outcome']} in the actual one" if wit else ""),
            witness=wit,
        )


# ------------------------------------------------------------------- R07.h
def r07_h(prog: Program, chk: Check) -> None:
    import itertools

    from ..minterp import AssertionFailed, Interp, ModelError, Obj, PyRaise, Sym, Unsupported

    chk.rule(
        "R07.h",
        "an override is compared with every definition it overrides, as a finite model: NameCheckVisitor._check_for_incompatible_overrides and _get_base_class_attributes are "
        "interpreted from their AST for a class with up to three further classes in its MRO, each of which defines the name or not and is compatible with the override or not "
        "(64 configurations): incompatible_override is reported for exactly the bases that define the name and are incompatible - a definition further up the MRO (second base of "
        "multiple inheritance, a grandparent) that the override does not satisfy is not hidden by a nearer one it does satisfy",
        floor=2,
    )
    ncv = prog.cls("NameCheckVisitor")
    for mname in ("_check_for_incompatible_overrides", "_get_base_class_attributes"):
        if mname not in ncv.methods:
            raise AnchorError(f"NameCheckVisitor.{mname} not found")
    check_fn = ncv.methods["_check_for_incompatible_overrides"]
    bases_fn = ncv.methods["_get_base_class_attributes"]
    uninit = Obj("UninitializedValue")
    missed, spurious, crashes = [], [], []
    n = 0
    names = ["B1", "B2", "B3"]
    for k in range(1, 4):
        for config in itertools.product(("absent", "compatible", "incompatible"), repeat=k):
            n += 1
            current = Sym("Child")
            bases = [Sym(b) for b in names[:k]]
            state = dict(zip([str(b) for b in bases], config))
            reported: List[str] = []

            def get_attribute(args, state=state):
                ctx = args[0]
                base = ctx._attrs["base"]
                return uninit if state[str(base)] == "absent" else Obj("Value", of=str(base))

            def attr_context(args, kwargs=None):
                root = args[0]
                return Obj("_AttrContext", base=root._attrs["value"]._attrs["typ"], attr=args[1])

            attr_context.wants_kwargs = True  # type: ignore[attr-defined]

            last: List[str] = []

            def can_assign_to_base(base_value, value, base_class, node, state=state, last=last):
                last[:] = [str(base_class)]
                return Obj("CanAssignError", message="incompatible") if state[str(base_class)] == "incompatible" else {}

            def show(node, message=None, error_code=None, reported=reported, last=last, **kw):
                reported.append(last[0] if last else "?")  # the diagnostic follows the comparison it reports

            funcs = {
                "TypedValue": lambda a: Obj("TypedValue", typ=a[0]), "Composite": lambda a: Obj("Composite", value=a[0]), "_AttrContext": attr_context,
                "CanAssignError": (lambda a, kw=None: Obj("CanAssignError", message=a[0] if a else "", children=(kw or {}).get("children", []))),
            }
            funcs["CanAssignError"].wants_kwargs = True  # type: ignore[attr-defined]

            def hook(v, cls):
                if cls == "CanAssignError":
                    return isinstance(v, Obj) and v._kind == "CanAssignError"
                return None

            holder: List[Interp] = []
            self_obj = Obj(
                "NameCheckVisitor", current_class=current, get_generic_bases=lambda c, bases=bases, current=current: [current] + list(bases),
                options=Obj("Options", get_value_for=lambda o: ()), _can_assign_to_base=can_assign_to_base, _show_error_if_checking=show, display_value=lambda v: "value",
            )
            self_obj._attrs["_get_base_class_attributes"] = lambda varname, node, self_obj=self_obj: holder[0].call_def(bases_fn, [self_obj, varname, node], bases_fn)
            it = Interp({}, {}, (), funcs, hook, {}, {}, {"UNINITIALIZED_VALUE": uninit, "attributes": Obj("module", get_attribute=lambda ctx: get_attribute([ctx])), "ErrorCode": Obj("ErrorCode", incompatible_override=Sym("incompatible_override")), "IgnoredForIncompatibleOverride": Sym("IgnoredForIncompatibleOverride"), "__concrete_fstrings__": True})
            holder.append(it)
            d = {"mro": "Child -> " + " -> ".join(f"{b} ({c})" for b, c in zip(names, config))}
            try:
                it.call_def(check_fn, [self_obj, "method", Sym("node"), Obj("Value", of="Child")], check_fn)
            except Unsupported as u:
                raise AnchorError(f"_check_for_incompatible_overrides cannot be modelled: {u}")
            except (AssertionFailed, PyRaise, ModelError) as e:
                crashes.append({**d, "error": str(e)})
                continue
            want = [b for b, c in zip(names, config) if c == "incompatible"]
            got = [b for b in names if any(b in r for r in reported)]
            if [b for b in want if b not in got]:
                missed.append({**d, "reported for": got, "not reported for": [b for b in want if b not in got]})
            if [b for b in got if b not in want]:
                spurious.append({**d, "reported for": got, "incompatible bases": want})
    chk.model_evaluations += n
    site = prog.site("name_check_visitor", bases_fn)
    for lst in (missed, spurious):
        lst.sort(key=lambda x: len(x["mro"]))
    chk.ob("R07.h", "name_check_visitor::override-model::every incompatible definition in the MRO is reported", not missed, site, f"{n} class hierarchies, {len(missed)} with an incompatible base that is not reported" + (f"; smallest: {missed[0]}" if missed else ""), witness=missed[:5])
    chk.ob("R07.h", "name_check_visitor::override-model::nothing is reported for a compatible or absent definition", not spurious, site, f"{len(spurious)} hierarchies with a spurious report" + (f"; smallest: {spurious[0]}" if spurious else ""), witness=spurious[:5])
    chk.ob("R07.h", "name_check_visitor::override-model::no-crash", not crashes, site, f"{len(crashes)} crashes" + (f"; first: {crashes[0]}" if crashes else ""), witness=crashes[:3])


def run(prog: Program, chk: Check) -> None:
    guard(chk, r07_e, prog, chk)
    guard(chk, r07_a, prog, chk)
    guard(chk, r07_b, prog, chk)
    guard(chk, r07_c, prog, chk)
    guard(chk, r07_f, prog, chk)
    guard(chk, r07_h, prog, chk)
