"""C01 - inferred values are sound w.r.t. execution: join completeness only."""

from __future__ import annotations

import ast
from typing import Dict, List, Optional, Set, Tuple

from ..cfg import CFG
from ..model import AnchorError, Program, dotted, kw, last_attr, norm, parent, walk_no_nested
from ..report import Check, guard
from .c12 import grammar, visitor_methods
from .common import calls_in, guards_of, local_assignments, need_locals, returns_of, stmt_of


def _unite_calls(fn: ast.AST) -> List[ast.Call]:
    return [c for c in calls_in(fn, None, nested=False) if last_attr(c) in ("unite_values", "unite_impl_rets", "unite_and_simplify")]


def _loop_join_ok(fn: ast.FunctionDef, acc: str, compute: Set[str]) -> Tuple[bool, str]:
    """`acc` is appended to inside a loop; every path from a compute call to the
    next iteration / loop exit passes through an append to `acc`."""
    g = CFG(fn)
    appends = [s for s in walk_no_nested(fn) if isinstance(s, ast.Expr) and isinstance(s.value, ast.Call) and last_attr(s.value) == "append" and norm(s.value.func.value) == acc]  # type: ignore[attr-defined]
    if not appends:
        return False, f"nothing is appended to `{acc}`"
    loop = None
    p = parent(appends[0])
    while p is not None and p is not fn:
        if isinstance(p, (ast.For, ast.While)):
            loop = p
            break
        p = parent(p)
    if loop is None:
        return False, "appends are not inside a loop"
    comp_stmts = []
    for s in ast.walk(loop):
        if isinstance(s, ast.stmt) and not isinstance(s, (ast.For, ast.While, ast.If, ast.With, ast.Try)):
            if any(last_attr(c) in compute for c in calls_in(s)):
                comp_stmts.append(s)
    if not comp_stmts:
        return False, f"no branch computation ({sorted(compute)}) found in the loop"
    loop_node = g.node(loop)
    app_nodes = [g.node(a) for a in appends]
    for cs in comp_stmts:
        if cs in appends:
            continue
        n = g.node(cs)
        if g.paths_avoiding(n, loop_node, app_nodes) or g.paths_avoiding(n, g.exit, app_nodes + [loop_node]):
            return False, f"the value computed at line {cs.lineno} can skip the append to `{acc}`"
    return True, ""


def r01_a(prog: Program, chk: Check) -> None:
    chk.rule("R01.a", "expression-level joins keep every branch: the united value is built from the result of every operand / branch / union member", floor=7)
    ci = prog.cls("NameCheckVisitor")
    m = "name_check_visitor"
    # IfExp: unite_values(then, else) with both coming from visits of body / orelse
    fn = ci.methods["visit_IfExp"]
    ok = False
    for r in returns_of(fn):
        if isinstance(r.value, ast.Call) and last_attr(r.value) == "unite_values" and len(r.value.args) == 2 and all(isinstance(a, ast.Name) for a in r.value.args):
            srcs = [norm(s) for a in r.value.args for s in local_assignments(fn, a.id)]  # type: ignore[attr-defined]
            ok = "self.visit(node.body)" in srcs and "self.visit(node.orelse)" in srcs
    chk.ob("R01.a", f"{m}::NameCheckVisitor.visit_IfExp::join", ok, prog.site(m, fn), "`a if c else b` must be typed as the union of the visits of both branches")
    # BoolOp
    fn = ci.methods["visit_BoolOp"]
    u = [c for c in _unite_calls(fn) if c.args and isinstance(c.args[0], ast.Starred)]
    ok, why = (False, "no unite_values(*values)")
    if u:
        acc = norm(u[0].args[0].value)
        ok, why = _loop_join_ok(fn, acc, {"constraint_from_condition"})
    chk.ob("R01.a", f"{m}::NameCheckVisitor.visit_BoolOp::join", ok, prog.site(m, fn), f"and/or must unite the value of every operand: {why}")
    # Compare
    fn = ci.methods["visit_Compare"]
    u = [c for c in _unite_calls(fn) if c.args and isinstance(c.args[0], ast.Starred)]
    ok, why = (False, "no unite_values(*results)")
    if u:
        acc = norm(u[0].args[0].value)
        ok, why = _loop_join_ok(fn, acc, {"_visit_single_compare"})
    chk.ob("R01.a", f"{m}::NameCheckVisitor.visit_Compare::join", ok, prog.site(m, fn), f"a chained comparison must unite the result of every link: {why}")
    # binop over a union on the left
    fn = ci.methods["_visit_binop_internal"]
    need_locals(fn, "left")
    u = [c for c in _unite_calls(fn) if c.args and isinstance(c.args[0], ast.Starred)]
    ok, why = (False, "no unite_values(*possibilities)")
    if u:
        acc = norm(u[-1].args[0].value)
        ok, why = _loop_join_ok(fn, acc, {"_visit_binop_no_mvv"})
        loops = [n for n in walk_no_nested(fn) if isinstance(n, ast.For) and "flatten_values(left)" in norm(n.iter)]
        ok = ok and bool(loops)
    chk.ob("R01.a", f"{m}::NameCheckVisitor._visit_binop_internal::join", ok, prog.site(m, fn), f"a binary operation on a union must unite the result for every member: {why}")
    # comprehension joins: no filter, iterate every member
    for q, it_texts, what in (
        ("check_call", ("callee.vals",), "a call through a union callee"),
        ("composite_from_subscript", ("root_composite.value.vals",), "a subscript on a union receiver"),
    ):
        fn = ci.methods[q]
        ok = False
        for c in _unite_calls(fn):
            for a in c.args:
                if isinstance(a, ast.Starred):
                    src = a.value
                    if isinstance(src, ast.Name):
                        cands = local_assignments(fn, src.id)
                    else:
                        cands = [src]
                    for s in cands:
                        comps = [x for x in ast.walk(s) if isinstance(x, (ast.ListComp, ast.GeneratorExp))]
                        # follow one more level of names (val for val, _ in pairs)
                        for comp in comps:
                            its = [g.iter for g in comp.generators]
                            for itx in its:
                                if isinstance(itx, ast.Name):
                                    for s2 in local_assignments(fn, itx.id):
                                        comps2 = [x for x in ast.walk(s2) if isinstance(x, (ast.ListComp, ast.GeneratorExp))]
                                        for c2 in comps2:
                                            if isinstance(c2.generators[0].iter, ast.Name):
                                                for s3 in local_assignments(fn, c2.generators[0].iter.id):
                                                    comps2 += [x for x in ast.walk(s3) if isinstance(x, (ast.ListComp, ast.GeneratorExp))]
                                        comps = comps + comps2
                        chain_ok = all(not g.ifs for comp in comps for g in comp.generators)
                        hits = any(norm(g.iter) in it_texts for comp in comps for g in comp.generators)
                        if chain_ok and hits:
                            ok = True
        chk.ob("R01.a", f"{m}::NameCheckVisitor.{q}::join", ok, prog.site(m, fn), f"{what} must unite the result for every member of the union (unfiltered comprehension over the members)")
    fn = prog.func("implementation", "flatten_unions")
    need_locals(fn, "results", "value_lists", "val")
    t = norm(fn)
    comps = [x for x in walk_no_nested(fn) if isinstance(x, ast.ListComp)]
    ok = "ImplReturn.unite_impl_rets(results)" in t and any("product(*value_lists)" in norm(c.generators[0].iter) and not c.generators[0].ifs for c in comps) and any("flatten_values(val" in norm(c.elt) and not c.generators[0].ifs for c in comps)
    chk.ob("R01.a", "implementation::flatten_unions::join", ok, prog.site("implementation", fn), "impl functions applied to unions must be evaluated for every combination of members and the results united")


def r01_b(prog: Program, chk: Check) -> None:
    chk.rule("R01.b", "every ast.expr kind is typed by a visit_* method of the main visitor", floor=18)
    have = visitor_methods(prog, "NameCheckVisitor")
    for kind in grammar("expr"):
        chk.ob("R01.b", f"name_check_visitor::NameCheckVisitor::visit_{kind}", kind in have, "pyanalyze/name_check_visitor.py", f"ast.{kind} has no visit_{kind}: the expression is typed as (void) instead of a type containing its value")

# ----------------------------------------------------------------- R01.f
def _int_eval(e: ast.AST, env: Dict[str, int]) -> int:
    """Fold an integer expression over +,-,unary -, constants and the names /
    attribute chains in env. Anything else: AnchorError."""
    t = norm(e)
    if t in env:
        return env[t]
    if isinstance(e, ast.Constant) and isinstance(e.value, int) and not isinstance(e.value, bool):
        return e.value
    if isinstance(e, ast.UnaryOp) and isinstance(e.op, ast.USub):
        return -_int_eval(e.operand, env)
    if isinstance(e, ast.UnaryOp) and isinstance(e.op, ast.Invert):
        return ~_int_eval(e.operand, env)
    if isinstance(e, ast.BinOp) and isinstance(e.op, (ast.Add, ast.Sub)):
        l, r = _int_eval(e.left, env), _int_eval(e.right, env)
        return l + r if isinstance(e.op, ast.Add) else l - r
    if isinstance(e, ast.Call) and last_attr(e) == "abs" and len(e.args) == 1:
        return abs(_int_eval(e.args[0], env))
    raise AnchorError(f"index expression `{t}` is outside the folded fragment (+, -, ~, abs, constants)")


def _bool_eval(e: ast.AST, env: Dict[str, int]) -> bool:
    if isinstance(e, ast.BoolOp):
        vals = [_bool_eval(v, env) for v in e.values]
        return all(vals) if isinstance(e.op, ast.And) else any(vals)
    if isinstance(e, ast.UnaryOp) and isinstance(e.op, ast.Not):
        return not _bool_eval(e.operand, env)
    if isinstance(e, ast.Compare):
        left = _int_eval(e.left, env)
        for op, r in zip(e.ops, e.comparators):
            right = _int_eval(r, env)
            ok = {
                ast.Lt: left < right, ast.LtE: left <= right, ast.Gt: left > right, ast.GtE: left >= right,
                ast.Eq: left == right, ast.NotEq: left != right,
            }.get(type(op))
            if ok is None:
                raise AnchorError(f"comparison operator in `{norm(e)}` outside the folded fragment")
            if not ok:
                return False
            left = right
        return True
    raise AnchorError(f"predicate `{norm(e)}` is outside the folded fragment (and/or/not over integer comparisons)")


def index_range_rule(prog: Program, chk: Check, rid: str) -> None:
    """The in-range test guarding `members[key.val]` equals Python's -n <= k < n
    on the whole grid n in 0..5, k in -7..7 (folded, not executed)."""
    m = "implementation"
    outer = prog.func(m, "_sequence_common_getitem_impl")
    sites = []
    for n in ast.walk(outer):
        if isinstance(n, ast.If):
            for st in n.body:
                if isinstance(st, ast.Return) and isinstance(st.value, ast.Subscript) and norm(st.value.slice) == "key.val" and isinstance(st.value.value, ast.Name):
                    sites.append((n, st.value.value.id))
    if not sites:
        raise AnchorError("_sequence_common_getitem_impl: no `if <in range>: return members[key.val]`")
    for n, seq in sites:
        bad = []
        for size in range(0, 6):
            for k in range(-7, 8):
                got = _bool_eval(n.test, {"key.val": k, f"len({seq})": size})
                want = -size <= k < size
                if got != want:
                    bad.append({"len": size, "index": k, "tree_says_in_range": got, "python": want})
        chk.ob(rid, f"{m}::_sequence_common_getitem_impl::in-range-test", not bad, prog.site(m, n),
               f"`{norm(n.test)}` vs Python's -n <= k < n: " + ("agree on 90 (n, k) pairs" if not bad else f"{len(bad)} disagreements, first: {bad[0]}"), witness=bad[:6])


def r01_f(prog: Program, chk: Check) -> None:
    chk.rule(
        "R01.f",
        "constant index into a sequence with an unpacked part: counting from the front, index k selects prefix position k; "
        "counting from the back, index k<0 selects reversed position -k-1; and the scan gives up at the first unpacked member before it compares",
        floor=5,
    )
    m = "implementation"
    outer = prog.func(m, "_sequence_common_getitem_impl")
    loops = []
    for n in ast.walk(outer):
        if isinstance(n, ast.For) and isinstance(n.iter, ast.Call) and last_attr(n.iter) == "enumerate" and n.iter.args:
            src = n.iter.args[0]
            rev = isinstance(src, ast.Call) and last_attr(src) == "reversed"
            inner = src.args[0] if rev and src.args else src  # type: ignore[union-attr]
            if norm(inner).endswith(".members"):
                loops.append((n, rev))
    if len(loops) < 2 or {r for _, r in loops} != {True, False}:
        raise AnchorError("_sequence_common_getitem_impl: forward and reversed scans over .members not found")
    assigns = {}
    for n in ast.walk(outer):
        if isinstance(n, ast.Assign) and len(n.targets) == 1 and isinstance(n.targets[0], ast.Name):
            assigns.setdefault(n.targets[0].id, []).append(n.value)
    for loop, rev in loops:
        tgt = loop.target
        if not (isinstance(tgt, ast.Tuple) and isinstance(tgt.elts[0], ast.Name) and isinstance(tgt.elts[1], ast.Tuple)):
            raise AnchorError("scan loop target is not `i, (is_many, member)`")
        ivar = tgt.elts[0].id
        many = tgt.elts[1].elts[0].id  # type: ignore[attr-defined]
        side = "back" if rev else "front"
        key = f"{m}::_sequence_common_getitem_impl::scan-from-{side}"
        # give-up test precedes the comparison
        pos_break = pos_cmp = None
        cmp_node = None
        for idx, st in enumerate(loop.body):
            if isinstance(st, ast.If) and norm(st.test) == many and any(isinstance(x, (ast.Break, ast.Return)) for x in st.body):
                pos_break = idx if pos_break is None else pos_break
            if isinstance(st, ast.If) and isinstance(st.test, ast.Compare) and len(st.test.ops) == 1 and isinstance(st.test.ops[0], ast.Eq) and any(isinstance(x, ast.Return) for x in st.body):
                l, r = st.test.left, st.test.comparators[0]
                other = r if norm(l) == ivar else l if norm(r) == ivar else None
                if other is not None:
                    pos_cmp, cmp_node = idx, other
        if pos_cmp is None or cmp_node is None:
            raise AnchorError(f"scan from the {side}: no `if {ivar} == <index>: return member`")
        chk.ob("R01.f", key + "::gives-up-at-unpack-first", pos_break is not None and pos_break < pos_cmp, prog.site(m, loop),
               f"the scan from the {side} must stop at the first unpacked member before comparing positions; otherwise a member behind a variable-length part is returned for a fixed index")
        expr = cmp_node
        if isinstance(expr, ast.Name) and expr.id in assigns:
            if len(assigns[expr.id]) != 1:
                raise AnchorError(f"`{expr.id}` assigned more than once")
            expr = assigns[expr.id][0]
        ks = range(0, 5) if not rev else range(-1, -6, -1)
        bad = []
        for k in ks:
            got = _int_eval(expr, {"key.val": k})
            want = k if not rev else -k - 1
            if got != want:
                bad.append((k, got, want))
        chk.ob("R01.f", key + "::position", not bad, prog.site(m, loop),
               f"index arithmetic `{norm(expr)}`: " + ("ok" if not bad else "; ".join(f"t[{k}] selects position {g} from the {side}, Python selects {w}" for k, g, w in bad[:3])),
               witness={"expr": norm(expr), "mismatches": bad})


class _Renamed:
    """Adapter: run a sibling property's rule under this property's rule id.
    C01 states soundness `through narrowing ... and pattern matching`; the
    flow-plumbing clauses of C02 (which constraint reaches which variable in
    which branch) are necessary conditions of C01 as well."""

    def __init__(self, chk: Check, mapping: Dict[str, str]) -> None:
        self._chk = chk
        self._map = mapping

    def rule(self, rid: str, text: str, floor: int = 1) -> None:
        self._chk.rule(self._map[rid], text + f"  [shared with C02 {rid}]", floor)

    def ob(self, rule: str, key: str, ok: bool, site: str, reason: str, witness=None, nontrivial: bool = True) -> bool:
        return self._chk.ob(self._map[rule], key, ok, site, reason, witness, nontrivial)

    def __getattr__(self, name: str):
        return getattr(self._chk, name)


def r01_cde(prog: Program, chk: Check) -> None:
    from . import c02

    ad = _Renamed(chk, {"R02.g": "R01.c", "R02.h": "R01.d", "R02.i": "R01.e", "R02.k": "R01.g", "R02.l": "R01.h"})
    c02.r02g(prog, ad)  # type: ignore[arg-type]
    c02.r02hi(prog, ad)  # type: ignore[arg-type]
    # an expression inferred as Never is never reached: the narrowing models decide it for the
    # predicates and constraint arms over the finite universe
    c02.r02k(prog, ad)  # type: ignore[arg-type]
    c02.r02l(prog, ad)  # type: ignore[arg-type]


def run(prog: Program, chk: Check) -> None:
    guard(chk, r01_a, prog, chk)
    guard(chk, r01_b, prog, chk)
    guard(chk, r01_cde, prog, chk)
    guard(chk, r01_f, prog, chk)
    guard(chk, index_range_rule, prog, chk, "R01.f")