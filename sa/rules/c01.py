"""C01 - inferred values are sound w.r.t. execution: join completeness only."""

from __future__ import annotations

import ast
from typing import Dict, List, Optional, Set, Tuple

from ..cfg import CFG
from ..model import AnchorError, Program, dotted, kw, last_attr, norm, parent, walk_no_nested
from ..report import Check, guard
from .c12 import grammar, visitor_methods
from .common import calls_in, guards_of, local_assignments, need_locals, returns_of, stmt_of


def _unite_calls(fn: ast.AST) -> List[ast.Call]:
    return [c for c in calls_in(fn, None, nested=False) if last_attr(c) in ("unite_values", "unite_impl_rets", "unite_and_simplify")]


def _loop_join_ok(fn: ast.FunctionDef, acc: str, compute: Set[str]) -> Tuple[bool, str]:
    """`acc` is appended to inside a loop; every path from a compute call to the
    next iteration / loop exit passes through an append to `acc`."""
    g = CFG(fn)
    appends = [s for s in walk_no_nested(fn) if isinstance(s, ast.Expr) and isinstance(s.value, ast.Call) and last_attr(s.value) == "append" and norm(s.value.func.value) == acc]  # type: ignore[attr-defined]
    if not appends:
        return False, f"nothing is appended to `{acc}`"
    loop = None
    p = parent(appends[0])
    while p is not None and p is not fn:
        if isinstance(p, (ast.For, ast.While)):
            loop = p
            break
        p = parent(p)
    if loop is None:
        return False, "appends are not inside a loop"
    comp_stmts = []
    for s in ast.walk(loop):
        if isinstance(s, ast.stmt) and not isinstance(s, (ast.For, ast.While, ast.If, ast.With, ast.Try)):
            if any(last_attr(c) in compute for c in calls_in(s)):
                comp_stmts.append(s)
    if not comp_stmts:
        return False, f"no branch computation ({sorted(compute)}) found in the loop"
    loop_node = g.node(loop)
    app_nodes = [g.node(a) for a in appends]
    for cs in comp_stmts:
        if cs in appends:
            continue
        n = g.node(cs)
        if g.paths_avoiding(n, loop_node, app_nodes) or g.paths_avoiding(n, g.exit, app_nodes + [loop_node]):
            return False, f"the value computed at line {cs.lineno} can skip the append to `{acc}`"
    return True, ""


def r01_a(prog: Program, chk: Check) -> None:
    chk.rule("R01.a", "expression-level joins keep every branch: the united value is built from the result of every operand / branch / union member", floor=7)
    ci = prog.cls("NameCheckVisitor")
    m = "name_check_visitor"
    # IfExp: unite_values(then, else) with both coming from visits of body / orelse
    fn = ci.methods["visit_IfExp"]
    ok = False
    for r in returns_of(fn):
        if isinstance(r.value, ast.Call) and last_attr(r.value) == "unite_values" and len(r.value.args) == 2 and all(isinstance(a, ast.Name) for a in r.value.args):
            srcs = [norm(s) for a in r.value.args for s in local_assignments(fn, a.id)]  # type: ignore[attr-defined]
            ok = "self.visit(node.body)" in srcs and "self.visit(node.orelse)" in srcs
    chk.ob("R01.a", f"{m}::NameCheckVisitor.visit_IfExp::join", ok, prog.site(m, fn), "`a if c else b` must be typed as the union of the visits of both branches")
    # BoolOp
    fn = ci.methods["visit_BoolOp"]
    u = [c for c in _unite_calls(fn) if c.args and isinstance(c.args[0], ast.Starred)]
    ok, why = (False, "no unite_values(*values)")
    if u:
        acc = norm(u[0].args[0].value)
        ok, why = _loop_join_ok(fn, acc, {"constraint_from_condition"})
    chk.ob("R01.a", f"{m}::NameCheckVisitor.visit_BoolOp::join", ok, prog.site(m, fn), f"and/or must unite the value of every operand: {why}")
    # Compare
    fn = ci.methods["visit_Compare"]
    u = [c for c in _unite_calls(fn) if c.args and isinstance(c.args[0], ast.Starred)]
    ok, why = (False, "no unite_values(*results)")
    if u:
        acc = norm(u[0].args[0].value)
        ok, why = _loop_join_ok(fn, acc, {"_visit_single_compare"})
    chk.ob("R01.a", f"{m}::NameCheckVisitor.visit_Compare::join", ok, prog.site(m, fn), f"a chained comparison must unite the result of every link: {why}")
    # binop over a union on the left
    fn = ci.methods["_visit_binop_internal"]
    need_locals(fn, "left")
    u = [c for c in _unite_calls(fn) if c.args and isinstance(c.args[0], ast.Starred)]
    ok, why = (False, "no unite_values(*possibilities)")
    if u:
        acc = norm(u[-1].args[0].value)
        ok, why = _loop_join_ok(fn, acc, {"_visit_binop_no_mvv"})
        loops = [n for n in walk_no_nested(fn) if isinstance(n, ast.For) and "flatten_values(left)" in norm(n.iter)]
        ok = ok and bool(loops)
    chk.ob("R01.a", f"{m}::NameCheckVisitor._visit_binop_internal::join", ok, prog.site(m, fn), f"a binary operation on a union must unite the result for every member: {why}")
    # comprehension joins: no filter, iterate every member
    for q, it_texts, what in (
        ("check_call", ("callee.vals",), "a call through a union callee"),
        ("composite_from_subscript", ("root_composite.value.vals",), "a subscript on a union receiver"),
    ):
        fn = ci.methods[q]
        ok = False
        for c in _unite_calls(fn):
            for a in c.args:
                if isinstance(a, ast.Starred):
                    src = a.value
                    if isinstance(src, ast.Name):
                        cands = local_assignments(fn, src.id)
                    else:
                        cands = [src]
                    for s in cands:
                        comps = [x for x in ast.walk(s) if isinstance(x, (ast.ListComp, ast.GeneratorExp))]
                        # follow one more level of names (val for val, _ in pairs)
                        for comp in comps:
                            its = [g.iter for g in comp.generators]
                            for itx in its:
                                if isinstance(itx, ast.Name):
                                    for s2 in local_assignments(fn, itx.id):
                                        comps2 = [x for x in ast.walk(s2) if isinstance(x, (ast.ListComp, ast.GeneratorExp))]
                                        for c2 in comps2:
                                            if isinstance(c2.generators[0].iter, ast.Name):
                                                for s3 in local_assignments(fn, c2.generators[0].iter.id):
                                                    comps2 += [x for x in ast.walk(s3) if isinstance(x, (ast.ListComp, ast.GeneratorExp))]
                                        comps = comps + comps2
                        chain_ok = all(not g.ifs for comp in comps for g in comp.generators)
                        hits = any(norm(g.iter) in it_texts for comp in comps for g in comp.generators)
                        if chain_ok and hits:
                            ok = True
        chk.ob("R01.a", f"{m}::NameCheckVisitor.{q}::join", ok, prog.site(m, fn), f"{what} must unite the result for every member of the union (unfiltered comprehension over the members)")
    fn = prog.func("implementation", "flatten_unions")
    need_locals(fn, "results", "value_lists", "val")
    t = norm(fn)
    comps = [x for x in walk_no_nested(fn) if isinstance(x, ast.ListComp)]
    ok = "ImplReturn.unite_impl_rets(results)" in t and any("product(*value_lists)" in norm(c.generators[0].iter) and not c.generators[0].ifs for c in comps) and any("flatten_values(val" in norm(c.elt) and not c.generators[0].ifs for c in comps)
    chk.ob("R01.a", "implementation::flatten_unions::join", ok, prog.site("implementation", fn), "impl functions applied to unions must be evaluated for every combination of members and the results united")


def r01_b(prog: Program, chk: Check) -> None:
    chk.rule("R01.b", "every ast.expr kind is typed by a visit_* method of the main visitor", floor=18)
    have = visitor_methods(prog, "NameCheckVisitor")
    for kind in grammar("expr"):
        chk.ob("R01.b", f"name_check_visitor::NameCheckVisitor::visit_{kind}", kind in have, "pyanalyze/name_check_visitor.py", f"ast.{kind} has no visit_{kind}: the expression is typed as (void) instead of a type containing its value")

# ----------------------------------------------------------------- R01.f
def _int_eval(e: ast.AST, env: Dict[str, int]) -> int:
    """Fold an integer expression over +,-,unary -, constants and the names /
    attribute chains in env. Anything else: AnchorError."""
    t = norm(e)
    if t in env:
        return env[t]
    if isinstance(e, ast.Constant) and isinstance(e.value, int) and not isinstance(e.value, bool):
        return e.value
    if isinstance(e, ast.UnaryOp) and isinstance(e.op, ast.USub):
        return -_int_eval(e.operand, env)
    if isinstance(e, ast.UnaryOp) and isinstance(e.op, ast.Invert):
        return ~_int_eval(e.operand, env)
    if isinstance(e, ast.BinOp) and isinstance(e.op, (ast.Add, ast.Sub)):
        l, r = _int_eval(e.left, env), _int_eval(e.right, env)
        return l + r if isinstance(e.op, ast.Add) else l - r
    if isinstance(e, ast.Call) and last_attr(e) == "abs" and len(e.args) == 1:
        return abs(_int_eval(e.args[0], env))
    raise AnchorError(f"index expression `{t}` is outside the folded fragment (+, -, ~, abs, constants)")


def _bool_eval(e: ast.AST, env: Dict[str, int]) -> bool:
    if isinstance(e, ast.BoolOp):
        vals = [_bool_eval(v, env) for v in e.values]
        return all(vals) if isinstance(e.op, ast.And) else any(vals)
    if isinstance(e, ast.UnaryOp) and isinstance(e.op, ast.Not):
        return not _bool_eval(e.operand, env)
    if isinstance(e, ast.Compare):
        left = _int_eval(e.left, env)
        for op, r in zip(e.ops, e.comparators):
            right = _int_eval(r, env)
            ok = {
                ast.Lt: left < right, ast.LtE: left <= right, ast.Gt: left > right, ast.GtE: left >= right,
                ast.Eq: left == right, ast.NotEq: left != right,
            }.get(type(op))
            if ok is None:
                raise AnchorError(f"comparison operator in `{norm(e)}` outside the folded fragment")
            if not ok:
                return False
            left = right
        return True
    raise AnchorError(f"predicate `{norm(e)}` is outside the folded fragment (and/or/not over integer comparisons)")


def index_range_rule(prog: Program, chk: Check, rid: str) -> None:
    """The in-range test guarding `members[key.val]` equals Python's -n <= k < n
    on the whole grid n in 0..5, k in -7..7 (folded, not executed)."""
    m = "implementation"
    outer = prog.func(m, "_sequence_common_getitem_impl")
    sites = []
    for n in ast.walk(outer):
        if isinstance(n, ast.If):
            for st in n.body:
                if isinstance(st, ast.Return) and isinstance(st.value, ast.Subscript) and norm(st.value.slice) == "key.val" and isinstance(st.value.value, ast.Name):
                    sites.append((n, st.value.value.id))
    if not sites:
        raise AnchorError("_sequence_common_getitem_impl: no `if <in range>: return members[key.val]`")
    for n, seq in sites:
        bad = []
        for size in range(0, 6):
            for k in range(-7, 8):
                got = _bool_eval(n.test, {"key.val": k, f"len({seq})": size})
                want = -size <= k < size
                if got != want:
                    bad.append({"len": size, "index": k, "tree_says_in_range": got, "python": want})
        chk.ob(rid, f"{m}::_sequence_common_getitem_impl::in-range-test", not bad, prog.site(m, n),
               f"`{norm(n.test)}` vs Python's -n <= k < n: " + ("agree on 90 (n, k) pairs" if not bad else f"{len(bad)} disagreements, first: {bad[0]}"), witness=bad[:6])


def r01_f(prog: Program, chk: Check) -> None:
    chk.rule(
        "R01.f",
        "constant index into a sequence with an unpacked part: counting from the front, index k selects prefix position k; "
        "counting from the back, index k<0 selects reversed position -k-1; and the scan gives up at the first unpacked member before it compares",
        floor=5,
    )
    m = "implementation"
    outer = prog.func(m, "_sequence_common_getitem_impl")
    loops = []
    for n in ast.walk(outer):
        if isinstance(n, ast.For) and isinstance(n.iter, ast.Call) and last_attr(n.iter) == "enumerate" and n.iter.args:
            src = n.iter.args[0]
            rev = isinstance(src, ast.Call) and last_attr(src) == "reversed"
            inner = src.args[0] if rev and src.args else src  # type: ignore[union-attr]
            if norm(inner).endswith(".members"):
                loops.append((n, rev))
    if len(loops) < 2 or {r for _, r in loops} != {True, False}:
        raise AnchorError("_sequence_common_getitem_impl: forward and reversed scans over .members not found")
    assigns = {}
    for n in ast.walk(outer):
        if isinstance(n, ast.Assign) and len(n.targets) == 1 and isinstance(n.targets[0], ast.Name):
            assigns.setdefault(n.targets[0].id, []).append(n.value)
    for loop, rev in loops:
        tgt = loop.target
        if not (isinstance(tgt, ast.Tuple) and isinstance(tgt.elts[0], ast.Name) and isinstance(tgt.elts[1], ast.Tuple)):
            raise AnchorError("scan loop target is not `i, (is_many, member)`")
        ivar = tgt.elts[0].id
        many = tgt.elts[1].elts[0].id  # type: ignore[attr-defined]
        side = "back" if rev else "front"
        key = f"{m}::_sequence_common_getitem_impl::scan-from-{side}"
        # give-up test precedes the comparison
        pos_break = pos_cmp = None
        cmp_node = None
        for idx, st in enumerate(loop.body):
            if isinstance(st, ast.If) and norm(st.test) == many and any(isinstance(x, (ast.Break, ast.Return)) for x in st.body):
                pos_break = idx if pos_break is None else pos_break
            if isinstance(st, ast.If) and isinstance(st.test, ast.Compare) and len(st.test.ops) == 1 and isinstance(st.test.ops[0], ast.Eq) and any(isinstance(x, ast.Return) for x in st.body):
                l, r = st.test.left, st.test.comparators[0]
                other = r if norm(l) == ivar else l if norm(r) == ivar else None
                if other is not None:
                    pos_cmp, cmp_node = idx, other
        if pos_cmp is None or cmp_node is None:
            raise AnchorError(f"scan from the {side}: no `if {ivar} == <index>: return member`")
        chk.ob("R01.f", key + "::gives-up-at-unpack-first", pos_break is not None and pos_break < pos_cmp, prog.site(m, loop),
               f"the scan from the {side} must stop at the first unpacked member before comparing positions; otherwise a member behind a variable-length part is returned for a fixed index")
        expr = cmp_node
        if isinstance(expr, ast.Name) and expr.id in assigns:
            if len(assigns[expr.id]) != 1:
                raise AnchorError(f"`{expr.id}` assigned more than once")
            expr = assigns[expr.id][0]
        ks = range(0, 5) if not rev else range(-1, -6, -1)
        bad = []
        for k in ks:
            got = _int_eval(expr, {"key.val": k})
            want = k if not rev else -k - 1
            if got != want:
                bad.append((k, got, want))
        chk.ob("R01.f", key + "::position", not bad, prog.site(m, loop),
               f"index arithmetic `{norm(expr)}`: " + ("ok" if not bad else "; ".join(f"t[{k}] selects position {g} from the {side}, Python selects {w}" for k, g, w in bad[:3])),
               witness={"expr": norm(expr), "mismatches": bad})


class _Renamed:
    """Adapter: run a sibling property's rule under this property's rule id.
    C01 states soundness `through narrowing ... and pattern matching`; the
    flow-plumbing clauses of C02 (which constraint reaches which variable in
    which branch) are necessary conditions of C01 as well."""

    def __init__(self, chk: Check, mapping: Dict[str, str]) -> None:
        self._chk = chk
        self._map = mapping

    def rule(self, rid: str, text: str, floor: int = 1) -> None:
        self._chk.rule(self._map[rid], text + f"  [shared with C02 {rid}]", floor)

    def ob(self, rule: str, key: str, ok: bool, site: str, reason: str, witness=None, nontrivial: bool = True) -> bool:
        return self._chk.ob(self._map[rule], key, ok, site, reason, witness, nontrivial)

    def __getattr__(self, name: str):
        return getattr(self._chk, name)


def r01_cde(prog: Program, chk: Check) -> None:
    from . import c02

    ad = _Renamed(chk, {"R02.g": "R01.c", "R02.h": "R01.d", "R02.i": "R01.e", "R02.k": "R01.g", "R02.l": "R01.h"})
    c02.r02g(prog, ad)  # type: ignore[arg-type]
    c02.r02hi(prog, ad)  # type: ignore[arg-type]
    # an expression inferred as Never is never reached: the narrowing models decide it for the
    # predicates and constraint arms over the finite universe
    c02.r02k(prog, ad)  # type: ignore[arg-type]
    c02.r02l(prog, ad)  # type: ignore[arg-type]


# ------------------------------------------------------------------- R01.i
def r01_i(prog: Program, chk: Check) -> None:
    import itertools

    from ..minterp import AssertionFailed, Interp, ModelError, Obj, PyRaise, Unsupported

    chk.rule(
        "R01.i",
        "sequence unpacking as a finite model: _unpack_sequence_value is interpreted from its AST on every member shape of up to 4 members (each a single element of a distinct "
        "type or an unpacked run `*tuple[X, ...]`, at most two runs) x every target list `a, b, ... [, *rest, y, z]` (0-3 targets before, optional star, 0-2 after); every concrete "
        "tuple the shape stands for (each run expanded to 0-2 elements) is unpacked by Python's own rules: whenever that succeeds, each target's inferred value contains the type "
        "of the element it receives (the star target's element type contains every element it collects), and an error is returned only if no expansion unpacks",
        floor=3,
    )
    fn = prog.func("value", "_unpack_sequence_value")

    def val(labels):
        return Obj("Value", labels=frozenset(labels))

    def unite(args, kwargs=None):
        out = frozenset()
        for a in args:
            out |= a._attrs["labels"]
        return val(out)

    unite.wants_kwargs = True  # type: ignore[attr-defined]
    funcs = {
        "unite_values": unite,
        "GenericValue": lambda a: Obj("ListOf", labels=a[1][0]._attrs["labels"]),
        "SequenceValue": lambda a: Obj("ListOf", labels=frozenset().union(*[v._attrs["labels"] for _, v in a[1]]) if a[1] else frozenset()),
        "CanAssignError": lambda a: Obj("CanAssignError", message=""),
    }

    def hook(v, cls):
        if cls == "CanAssignError":
            return isinstance(v, Obj) and v._kind == "CanAssignError"
        return None

    names = "ABCD"
    shapes = []
    for n in range(0, 5):
        for manys in itertools.product((False, True), repeat=n):
            if sum(manys) <= 2:
                shapes.append([(m, names[i]) for i, m in enumerate(manys)])
    missed, false_errors, crashes = [], [], []
    ncases = 0
    for shape in shapes:
        members = tuple((m, val({lab})) for m, lab in shape)
        value = Obj("SequenceValue", members=members, typ=tuple)
        expansions = []
        runs = [i for i, (m, _) in enumerate(shape) if m]
        for counts in itertools.product((0, 1, 2), repeat=len(runs)):
            conc = []
            for i, (m, lab) in enumerate(shape):
                conc += [lab] * (counts[runs.index(i)] if m else 1)
            expansions.append(conc)
        for before in range(0, 4):
            for after in (None, 0, 1, 2):
                ncases += 1
                it = Interp({}, {}, (), funcs, hook, {}, {}, {})
                d = {"tuple_type": "tuple[" + ", ".join(("*tuple[%s, ...]" % lab) if m else lab for m, lab in shape) + "]", "targets": ", ".join([f"t{i}" for i in range(before)] + (["*rest"] + [f"u{i}" for i in range(after)] if after is not None else []))}
                try:
                    res = it.call_def(fn, [value, before, after], fn)
                except Unsupported as u:
                    raise AnchorError(f"_unpack_sequence_value cannot be modelled: {u}")
                except (AssertionFailed, PyRaise, ModelError) as e:
                    crashes.append({**d, "error": str(e)})
                    continue
                ok_expansions = [c for c in expansions if (len(c) == before if after is None else len(c) >= before + after)]
                if isinstance(res, Obj) and res._kind == "CanAssignError":
                    if ok_expansions:
                        false_errors.append({**d, "unpacks_at_run_time": ok_expansions[0]})
                    continue
                want = before + (0 if after is None else 1 + after)
                if not isinstance(res, list) or len(res) != want:
                    missed.append({**d, "problem": f"{len(res) if isinstance(res, list) else res!r} values for {want} targets"})
                    continue
                for conc in ok_expansions:
                    if after is None:
                        got = [(res[i], [conc[i]]) for i in range(before)]
                    else:
                        mid = conc[before:len(conc) - after]
                        got = [(res[i], [conc[i]]) for i in range(before)] + [(res[before], mid)] + [(res[before + 1 + j], [conc[len(conc) - after + j]]) for j in range(after)]
                    bad = next(((k, labs) for k, (v, labs) in enumerate(got) if not set(labs) <= set(v._attrs["labels"])), None)
                    if bad is not None:
                        k, labs = bad
                        missed.append({**d, "run_time_tuple": conc, "target_index": k, "receives": labs, "inferred": sorted(got[k][0]._attrs["labels"])})
                        break
    chk.model_evaluations += ncases
    chk.analysed["unpack_model"] = {"cases": ncases, "shapes": len(shapes)}
    site = prog.site("value", fn)
    for lst in (missed, false_errors, crashes):
        lst.sort(key=lambda x: (len(x["tuple_type"]) + len(x["targets"]), repr(x)))
    chk.ob("R01.i", "value::unpack-model::each target's inferred value contains what it receives", not missed, site, f"{ncases} unpackings, {len(missed)} with a target that misses a run-time element" + (f"; smallest: {missed[0]}" if missed else ""), witness=missed[:4])
    chk.ob("R01.i", "value::unpack-model::an error only if no expansion unpacks", not false_errors, site, f"{len(false_errors)} errors although some tuple of that type unpacks" + (f"; smallest: {false_errors[0]}" if false_errors else ""), witness=false_errors[:4])
    chk.ob("R01.i", "value::unpack-model::no-crash", not crashes, site, f"{len(crashes)} crashes" + (f"; first: {crashes[0]}" if crashes else ""), witness=crashes[:3])


# ------------------------------------------------------------------- R01.j
def r01_j(prog: Program, chk: Check, rule: str = "R01.j") -> None:
    from ..minterp import AssertionFailed, Interp, ModelError, Obj, PyRaise, Sym, Unsupported

    chk.rule(
        rule,
        "sequence patterns as a finite model: PatmaVisitor.visit_MatchSequence (with index_of) and LenPredicate.__call__ are interpreted from their AST for every sequence pattern "
        "of up to 3 sub-patterns with an optional star at every position; CPython executes the same `match` statement on tuples of length 0-4: the length predicate keeps a subject of "
        "known length in the case's branch exactly when CPython takes the case (and in the fall-through exactly when it does not), the values are unpacked with the numbers of "
        "targets before and after the star, and the fall-through may drop the sequence types from the subject (IsAssignablePredicate with positive_only=False) only for a pattern "
        "that CPython takes for every length",
        floor=4,
    )
    pv = prog.cls("PatmaVisitor")
    visit_fn = pv.methods.get("visit_MatchSequence")
    lp = prog.cls("LenPredicate")
    if visit_fn is None or "__call__" not in lp.methods:
        raise AnchorError("PatmaVisitor.visit_MatchSequence / LenPredicate.__call__ not found")
    call_fn = lp.methods["__call__"]
    module_defs = {"index_of": prog.func("patma", "index_of")}
    wrong_branch, wrong_unpack, crashes = [], [], []
    drops_sequences: List[Dict[str, object]] = []
    n = 0
    patterns = []
    for k in range(0, 4):
        names = [f"p{i}" for i in range(k)]
        patterns.append((names, None))
        for star in range(0, k + 1):
            patterns.append((names[:star] + ["*rest"] + names[star:], star))
    for pats, star in patterns:
        src = "match subject:\n    case [" + ", ".join(pats) + "]:\n        taken = True\n    case _:\n        taken = False\n"
        node = ast.parse(src).body[0].cases[0].pattern  # type: ignore[attr-defined]
        code = compile(src, "<match>", "exec")
        captured: Dict[str, object] = {}

        def len_predicate(args, kwargs=None):
            o = Obj("LenPredicate", expected_length=args[0], has_star=args[1], ctx=args[2] if len(args) > 2 else None)
            captured["len_predicate"] = o
            return o

        len_predicate.wants_kwargs = True  # type: ignore[attr-defined]

        def unpack_values(args, kwargs=None):
            captured["unpack"] = (args[2], args[3])
            return [Obj("Value", length=None) for _ in pats]

        unpack_values.wants_kwargs = True  # type: ignore[attr-defined]
        def any_pred(args, kwargs=None):
            po = (kwargs or {}).get("positive_only", args[2] if len(args) > 2 else False)
            if len(args) > 0 and isinstance(args[0], Sym) and str(args[0]) == "MatchableSequence" or "sequence_pred" not in captured:
                captured["sequence_pred"] = po
            return Obj("IsAssignablePredicate", positive_only=po)

        any_pred.wants_kwargs = True  # type: ignore[attr-defined]
        funcs = {
            "LenPredicate": len_predicate, "unpack_values": unpack_values, "IsAssignablePredicate": any_pred,
            "constrain_value": lambda a: a[0], "Composite": lambda a: Obj("Composite", value=a[0]), "AnyValue": lambda a: Obj("Value", length=None),
            "len_of_value": lambda a: Obj("KnownValue", val=a[0]._attrs["length"]) if a[0]._attrs.get("length") is not None else Obj("Value", length=None),
            "unannotate": lambda a: a[0],
        }
        visitor = Obj("NameCheckVisitor", match_subject=Obj("Composite", value=Obj("Value", length=None)))
        self_obj = Obj(
            "PatmaVisitor", visitor=visitor, check_impossible_pattern=lambda node_, typ: None, make_constraint=lambda ctype, pred: Obj("Constraint", predicate=pred),
            visit=lambda pat: Obj("Constraint", predicate=None),
        )

        def hook(v, cls):
            if cls in ("MatchStar",):
                return isinstance(v, ast.MatchStar)
            if cls in ("KnownValue", "CanAssignError", "TypedValue"):
                return isinstance(v, Obj) and v._kind == cls
            return None

        globals_ = {"ast": ast, "itertools": __import__("itertools"), "AndConstraint": Obj("class", make=lambda cs: Obj("AndConstraint", constraints=list(cs))), "qcore": Obj("qcore", override=lambda o, a, v: Obj("ContextManager", __enter__=lambda: None, __exit__=lambda exc=None: None)), "MatchableSequence": Sym("MatchableSequence")}
        it = Interp({}, {}, (), funcs, hook, {}, module_defs, globals_)
        d = {"pattern": "[" + ", ".join(pats) + "]"}
        try:
            it.call_def(visit_fn, [self_obj, node], visit_fn)
        except Unsupported as u:
            raise AnchorError(f"visit_MatchSequence cannot be modelled: {u}")
        except (AssertionFailed, PyRaise, ModelError) as e:
            crashes.append({**d, "error": str(e)})
            continue
        if "len_predicate" not in captured or "unpack" not in captured:
            raise AnchorError("visit_MatchSequence builds no LenPredicate / does not unpack in the model")
        want_unpack = (len(pats), None) if star is None else (star, len(pats) - 1 - star)
        n += 1
        if tuple(captured["unpack"]) != want_unpack:  # type: ignore[arg-type]
            wrong_unpack.append({**d, "unpacked_with": list(captured["unpack"]), "targets_before_and_after_the_star": list(want_unpack)})  # type: ignore[arg-type]
        pred = captured["len_predicate"]
        if "sequence_pred" not in captured or not isinstance(captured["sequence_pred"], bool):
            raise AnchorError("visit_MatchSequence builds no IsAssignablePredicate(MatchableSequence, positive_only=<bool>) in the model")
        takes_all = True
        for length in range(0, 5):
            ns0: Dict[str, object] = {"subject": tuple(range(length))}
            exec(code, ns0)
            takes_all = takes_all and bool(ns0["taken"])
        n += 1
        if captured["sequence_pred"] is False and not takes_all:
            drops_sequences.append({**d, "positive_only": False, "problem": "the fall-through drops every sequence type from the subject, but CPython does not take this case for every sequence"})
        for length in range(0, 5):
            ns: Dict[str, object] = {"subject": tuple(range(length))}
            exec(code, ns)  # CPython's own pattern matching is the reference
            taken = bool(ns["taken"])
            for positive in (True, False):
                n += 1
                try:
                    r = it.call_def(call_fn, [pred, Obj("Value", length=length), positive], call_fn)
                except Unsupported as u:
                    raise AnchorError(f"LenPredicate.__call__ cannot be modelled: {u}")
                except (AssertionFailed, PyRaise, ModelError) as e:
                    crashes.append({**d, "error": str(e)})
                    continue
                kept = r is not None
                if kept != (taken == positive):
                    wrong_branch.append({**d, "subject_length": length, "branch": "case" if positive else "fall-through", "cpython_takes_the_case": taken, "subject_kept_in_branch": kept})
    chk.model_evaluations += n
    chk.analysed["sequence_pattern_model"] = {"checks": n, "patterns": len(patterns)}
    site = prog.site("patma", visit_fn)
    chk.ob(rule, "patma::sequence-pattern-model::the fall-through keeps sequence subjects unless the pattern takes every sequence", not drops_sequences, site, f"{len(patterns)} patterns, {len(drops_sequences)} whose fall-through loses sequences" + (f"; first: {drops_sequences[0]}" if drops_sequences else ""), witness=drops_sequences[:4])
    chk.ob(rule, "patma::sequence-pattern-model::a subject of known length is in the branch CPython takes", not wrong_branch, site, f"{n} checks, {len(wrong_branch)} subjects in the wrong branch" + (f"; first: {wrong_branch[0]}" if wrong_branch else ""), witness=wrong_branch[:4])
    chk.ob(rule, "patma::sequence-pattern-model::unpacked with the targets before and after the star", not wrong_unpack, site, f"{len(wrong_unpack)} patterns unpacked with other numbers" + (f"; first: {wrong_unpack[0]}" if wrong_unpack else ""), witness=wrong_unpack[:4])
    chk.ob(rule, "patma::sequence-pattern-model::no-crash", not crashes, site, f"{len(crashes)} crashes" + (f"; first: {crashes[0]}" if crashes else ""), witness=crashes[:3])



# ------------------------------------------------------------------- R01.k
def r01_k(prog: Program, chk: Check) -> None:
    import collections

    from ..minterp import AssertionFailed, Interp, ModelError, Obj, PyRaise, Sym, Unsupported

    chk.rule(
        "R01.k",
        "a literal length is only read off what cannot change: implementation.len_of_value (the result of len(), the provider of `len(x) <op> n` narrowing and of sequence "
        "patterns) is interpreted from its AST on sequence values of tuple / list / set type with 0-3 members (with and without an unpacked run) and on literals holding real "
        "tuples, strings, bytes, frozensets, lists, sets, dicts, deques and an int: it answers Literal[n] only for an immutable container whose every object has n elements "
        "(a list or set display is an approximation of an object that append / extend / add change, and two members of a set display may be equal), and then n is the real length",
        floor=3,
    )
    fn = prog.func("implementation", "len_of_value")
    mutable_names = None
    for m in prog.modules.values():
        for st in m.tree.body:
            if isinstance(st, ast.Assign) and len(st.targets) == 1 and isinstance(st.targets[0], ast.Name) and st.targets[0].id == "KNOWN_MUTABLE_TYPES" and isinstance(st.value, ast.Tuple):
                mutable_names = [norm(e) for e in st.value.elts]
    if mutable_names is None:
        raise AnchorError("KNOWN_MUTABLE_TYPES not found")
    table = {"list": list, "set": set, "dict": dict, "deque": collections.deque, "bytearray": bytearray}
    if not all(n in table for n in mutable_names):
        raise AnchorError(f"KNOWN_MUTABLE_TYPES holds a name the model does not know: {mutable_names}")
    mutable = tuple(table[n] for n in mutable_names)

    def hook(v, cls):
        if cls in ("SequenceValue", "KnownValue", "TypedValue"):
            return isinstance(v, Obj) and v._kind == cls
        return None

    def seq(typ, flags):
        members = tuple((f, Obj("TypedValue", typ=int)) for f in flags)

        def gms(members=members):
            return None if any(f for f, _ in members) else [x for _, x in members]

        return Obj("SequenceValue", typ=typ, members=members, get_member_sequence=gms)

    cases = []
    for typ in (tuple, list, set):
        for flags in ((), (False,), (False, False), (False, False, False), (True,), (False, True), (True, False)):
            desc = f"<{typ.__name__} display with members [{', '.join('*int' if f else 'int' for f in flags)}]>"
            exact = None if (typ is not tuple or any(flags)) else len(flags)
            cases.append((desc, seq(typ, flags), exact))
    for payload in ((), (1, 2), "ab", "", b"abc", frozenset({1, 2}), range(3), [1, 2], [], {1, 2}, {"a": 1}, collections.deque([1]), 5, None):
        exact = None
        if not isinstance(payload, (list, set, dict, collections.deque, bytearray)):
            try:
                exact = len(payload)  # type: ignore[arg-type]
            except TypeError:
                exact = None
        cases.append((f"Literal[{payload!r}]", Obj("KnownValue", val=payload), exact))
    funcs = {"KnownValue": lambda a: Obj("KnownValue", val=a[0]), "TypedValue": lambda a: Obj("TypedValue", typ=a[0])}
    unsound, imprecise, crashes = [], [], []
    for desc, value, exact in cases:
        it = Interp({}, {}, (), funcs, hook, {}, {}, {"KNOWN_MUTABLE_TYPES": mutable})
        try:
            res = it.call_def(fn, [value], fn)
        except Unsupported as u:
            raise AnchorError(f"len_of_value cannot be modelled: {u}")
        except (AssertionFailed, PyRaise, ModelError) as e:
            crashes.append({"value": desc, "error": str(e)})
            continue
        chk.model_evaluations += 1
        got = res._attrs["val"] if isinstance(res, Obj) and res._kind == "KnownValue" else None
        if got is not None and got != exact:
            unsound.append({"value": desc, "inferred": f"Literal[{got}]", "lengths at run time": "any (the container can change, members of a set display may be equal)" if exact is None else exact})
        elif got is None and exact is not None:
            imprecise.append({"value": desc, "length": exact})
        if not (isinstance(res, Obj) and (res._kind == "KnownValue" or (res._kind == "TypedValue" and res._attrs["typ"] is int))):
            unsound.append({"value": desc, "inferred": repr(res)[:80], "lengths at run time": "an int"})
    site = prog.site("implementation", fn)
    chk.ob("R01.k", "implementation::len_of_value::a literal length is the length of every object the value stands for", not unsound, site, f"{len(cases)} values, {len(unsound)} with a literal length that run time can contradict" + (f"; first: {unsound[0]}" if unsound else ""), witness=unsound[:5])
    chk.ob("R01.k", "implementation::len_of_value::no-crash", not crashes, site, f"{len(crashes)} values raise" + (f"; first: {crashes[0]}" if crashes else ""), witness=crashes[:3])
    chk.ob("R01.k", "implementation::len_of_value::immutable containers keep their literal length", len(imprecise) < sum(1 for _, _, e in cases if e is not None), site, f"{len(imprecise)} immutable containers without a literal length (all of them: the function no longer answers at all)", witness=imprecise[:3])


# ------------------------------------------------------------------- R01.l
def r01_l(prog: Program, chk: Check) -> None:
    from ..minterp import AssertionFailed, Interp, ModelError, Obj, PyRaise, Sym, Unsupported

    chk.rule(
        "R01.l",
        "an update carried around a loop is not limited to the literals of the iterations that were visited, as a finite model: NameCheckVisitor.visit_AugAssign and visit_Assign "
        "(with the helpers they call) are interpreted from their AST with the computed value stubbed (a literal int, a literal str, a union of literals, a typed value) for "
        "`i += 1`, `self.i += 1`, `i = i + 1` and `i = j + 1`, inside and "
        "outside a loop (the function scope's current_loop_scopes, as FunctionScope.loop_scope maintains it): inside a loop the value written to a name contains every object of "
        "the literal's type - the body is visited a fixed number of times, `i += 1` runs any number of times - and outside a loop, and for an assignment that does not read its own target, the literal is kept",
        floor=2,
    )
    ncv = prog.cls("NameCheckVisitor")
    fn = ncv.methods.get("visit_AugAssign")
    if fn is None:
        raise AnchorError("NameCheckVisitor.visit_AugAssign not found")
    fs = prog.cls("FunctionScope")
    if not any(isinstance(n, ast.Attribute) and n.attr == "current_loop_scopes" for n in ast.walk(fs.node)):
        raise AnchorError("FunctionScope has no current_loop_scopes: the model does not know how a loop is recognised")

    def known(v):
        return Obj("KnownValue", val=v)

    def typed(t):
        return Obj("TypedValue", typ=t)

    def flatten(args, kwargs=None):
        v = args[0]
        return list(v._attrs["vals"]) if v._kind == "MultiValuedValue" else [v]

    flatten.wants_kwargs = True  # type: ignore[attr-defined]

    def unite(args, kwargs=None):
        flat = []
        for a in args:
            for x in (a._attrs["vals"] if a._kind == "MultiValuedValue" else [a]):
                key = (x._kind, repr(x._attrs.get("val", x._attrs.get("typ"))))
                if key not in [(y._kind, repr(y._attrs.get("val", y._attrs.get("typ")))) for y in flat]:
                    flat.append(x)
        return flat[0] if len(flat) == 1 else Obj("MultiValuedValue", vals=tuple(flat))

    unite.wants_kwargs = True  # type: ignore[attr-defined]

    def hook(v, cls):
        if cls in ("KnownValue", "TypedValue", "MultiValuedValue", "AnyValue"):
            return isinstance(v, Obj) and v._kind == cls
        return None

    def covers(v, typ) -> bool:
        """Does the value contain every object of `typ`?"""
        return any(x._kind == "TypedValue" and issubclass(typ, x._attrs["typ"]) or x._kind == "AnyValue" for x in (v._attrs["vals"] if v._kind == "MultiValuedValue" else [v]))

    results = [
        ("Literal[1]", known(1), int), ("Literal['ab']", known("ab"), str), ("Literal[1, 2]", Obj("MultiValuedValue", vals=(known(1), known(2))), int),
        ("Literal[1.5]", known(1.5), float), ("int", typed(int), int),
    ]
    narrow, lost, crashes = [], [], []
    n = 0
    assign_fn = ncv.methods.get("visit_Assign")
    if assign_fn is None:
        raise AnchorError("NameCheckVisitor.visit_Assign not found")
    stubbed = {"composite_from_node", "composite_from_name", "_visit_binop_internal", "visit", "_generic_visit_list", "_show_error_if_checking"}
    method_defs = {}
    for f in (fn, assign_fn):
        for c in ast.walk(f):
            if isinstance(c, ast.Call) and isinstance(c.func, ast.Attribute) and isinstance(c.func.value, ast.Name) and c.func.value.id == "self" and c.func.attr in ncv.methods and c.func.attr not in stubbed:
                method_defs[("NameCheckVisitor", c.func.attr)] = ncv.methods[c.func.attr]
    statements = [("i += 1", "i"), ("self.i += 1", "self.i"), ("i = i + 1", "i"), ("i = j + 1", "other")]
    for label, result, typ in results:
        for stmt_src, target_src in statements:
            for in_loop in (True, False):
                n += 1
                node = ast.parse(stmt_src).body[0]
                assigned = []
                scope = Obj("FunctionScope", current_loop_scopes=[{}] if in_loop else [])

                def override(obj, attr, val, assigned=assigned):
                    if attr == "being_assigned":
                        assigned.append(val)
                    return Obj("ContextManager", __enter__=lambda: None, __exit__=lambda exc=None: None)

                self_obj = Obj(
                    "NameCheckVisitor", composite_from_node=lambda nd: Obj("Composite", value=typed(int)), composite_from_name=lambda nd, force_read=False: Obj("Composite", value=typed(int)),
                    _visit_binop_internal=lambda *a, result=result, **k: result, scopes=Obj("StackedScopes", current_scope=lambda scope=scope: scope),
                    yield_checker=Obj("YieldChecker", check_yield_result_assignment=lambda y: Obj("ContextManager", __enter__=lambda: None, __exit__=lambda exc=None: None)),
                    visit=lambda nd, result=result: result, _generic_visit_list=lambda nodes: None, current_enum_members=None, current_function_name="f",
                )
                it = Interp({}, {}, (), {"is_hashable": lambda a: False, "Composite": lambda a: Obj("Composite", value=a[0]), "AnyValue": lambda a: Obj("AnyValue"), "KnownValue": lambda a: known(a[0]), "TypedValue": lambda a: typed(a[0]), "flatten_values": flatten, "unite_values": unite}, hook, method_defs, {}, {"ast": ast, "qcore": Obj("qcore", override=override), "AnySource": Obj("AnySource", inference=Sym("inference")), "__native_getattr__": True})
                d = {"statement": stmt_src, "value computed": label, "inside a loop": in_loop}
                entry = fn if isinstance(node, ast.AugAssign) else assign_fn
                try:
                    it.call_def(entry, [self_obj, node], entry)
                except Unsupported as u:
                    raise AnchorError(f"visit_AugAssign cannot be modelled: {u}")
                except (AssertionFailed, PyRaise, ModelError) as e:
                    crashes.append({**d, "error": str(e)})
                    continue
                if len(assigned) != 1:
                    raise AnchorError(f"visit_AugAssign assigned {len(assigned)} values in the model")
                v = assigned[0]
                if target_src == "other":
                    # `i = j + 1` does not feed on itself: the literal stays, also in a loop
                    if result._kind != "TypedValue" and covers(v, typ):
                        lost.append({**d, "assigned": typ.__name__})
                    continue
                if in_loop and target_src == "i" and not covers(v, typ):
                    narrow.append({**d, "assigned": "a value that does not contain every " + typ.__name__})
                if not in_loop and result._kind != "TypedValue" and covers(v, typ):
                    lost.append({**d, "assigned": typ.__name__})
    chk.model_evaluations += n
    site = prog.site("name_check_visitor", fn)
    chk.ob("R01.l", "name_check_visitor::NameCheckVisitor.visit_AugAssign::a loop-carried update is widened to the type", not narrow, site, f"{n} cases, {len(narrow)} keep the literals of the visited iterations" + (f"; first: {narrow[0]}" if narrow else ""), witness=narrow[:4])
    chk.ob("R01.l", "name_check_visitor::NameCheckVisitor.visit_AugAssign::outside a loop the literal is kept", not lost, site, f"{len(lost)} cases lose the literal" + (f"; first: {lost[0]}" if lost else ""), witness=lost[:4])
    chk.ob("R01.l", "name_check_visitor::NameCheckVisitor.visit_AugAssign::no-crash", not crashes, site, f"{len(crashes)} crashes" + (f"; first: {crashes[0]}" if crashes else ""), witness=crashes[:3])


def run(prog: Program, chk: Check) -> None:
    guard(chk, r01_a, prog, chk)
    guard(chk, r01_b, prog, chk)
    guard(chk, r01_cde, prog, chk)
    guard(chk, r01_f, prog, chk)
    guard(chk, index_range_rule, prog, chk, "R01.f")
    guard(chk, r01_i, prog, chk)
    guard(chk, r01_j, prog, chk)
    guard(chk, r01_k, prog, chk)
    guard(chk, r01_l, prog, chk)
