"""Finite model of the narrowing predicates (C02): IsAssignablePredicate,
EqualsPredicate, InPredicate and _non_instances (predicates.py) are interpreted
from their AST on static values over a small universe of runtime objects, with
assignability given by the membership oracle of that universe, and compared with
the run-time meaning of the condition each predicate stands for."""

from __future__ import annotations

import ast
import builtins
import enum
import itertools
import operator
from typing import Any, Dict, FrozenSet, List, Optional, Sequence, Tuple

from ..fold import CannotFold, Folder
from ..minterp import AssertionFailed, Interp, ModelError, Obj, Opaque, PyRaise, Sym, Unsupported
from ..model import AnchorError, Program


class Color(enum.Enum):
    R = 1
    G = 2
    B = 3


UNIVERSE: Tuple[Any, ...] = (True, False, 0, 1, 2, 1.5, "a", "", None, Color.R, Color.G, Color.B, bool, int, str, float)
TYPES: Tuple[type, ...] = (bool, int, float, str, type(None), Color, object, type)
PROMOTION = {float: (int,), complex: (float, int)}


def same(a: Any, b: Any) -> bool:
    return type(a) is type(b) and a == b


# ---------------------------------------------------------------- membership
def members(v: Obj) -> FrozenSet[int]:
    """Indices of the universe objects that belong to the static value."""
    k = v._kind
    if k == "AnyValue":
        return frozenset(range(len(UNIVERSE)))
    if k == "KnownValue":
        val = v.get("val", None)
        return frozenset(i for i, o in enumerate(UNIVERSE) if same(o, val))
    if k == "TypedValue":
        t = v.get("typ", None)
        accepted = (t,) + PROMOTION.get(t, ())
        return frozenset(i for i, o in enumerate(UNIVERSE) if isinstance(o, accepted))
    if k == "MultiValuedValue":
        out: FrozenSet[int] = frozenset()
        for x in v.get("vals", None):
            out = out | members(x)
        return out
    if k == "SubclassValue":
        inner = v.get("typ", None)
        if not (isinstance(inner, Obj) and inner._kind == "TypedValue"):
            raise AnchorError("narrowing model: SubclassValue of something other than a class")
        t = inner.get("typ", None)
        # type[float] also stands for the class int: the numeric promotion applies to the classes as it does to their instances
        return frozenset(i for i, o in enumerate(UNIVERSE) if isinstance(o, type) and issubclass(o, (t,) + PROMOTION.get(t, ())))
    raise AnchorError(f"narrowing model: membership of {k} is not defined")


def describe(v: Any) -> str:
    if v is None:
        return "<dropped>"
    k = v._kind
    if k == "AnyValue":
        return "Any"
    if k == "KnownValue":
        return f"Literal[{v.get('val', None)!r}]"
    if k == "TypedValue":
        return v.get("typ", None).__name__
    if k == "MultiValuedValue":
        return " | ".join(describe(x) for x in v.get("vals", None)) or "Never"
    if k == "SubclassValue":
        return f"type[{describe(v.get('typ', None))}]"
    return k


class EqObj(Obj):
    """Model value with the structural equality of the real dataclasses (literals type-strict)."""

    def key(self) -> Any:
        k, a = self._kind, self._attrs
        if k == "KnownValue":
            val = a["val"]
            return ("K", type(val).__name__, repr(val))
        if k == "TypedValue":
            return ("T", a["typ"].__qualname__)
        if k == "AnyValue":
            return ("A",)
        if k == "MultiValuedValue":
            return ("U", tuple(x.key() for x in a["vals"]))
        if k == "SubclassValue":
            return ("S", a["typ"].key())
        raise AnchorError(f"narrowing model: no key for {k}")

    def __eq__(self, other: object) -> bool:
        return isinstance(other, EqObj) and self.key() == other.key()

    def __ne__(self, other: object) -> bool:
        return not self.__eq__(other)

    def __hash__(self) -> int:
        return hash(self.key())


def _bare_type_into_subclass(other: Obj, me: Obj) -> bool:
    """SubclassValue.can_assign accepts a bare `type` for every type[C] (it reads it as type[Any]);
    a union accepts what one of its members accepts."""
    if not (other._kind == "TypedValue" and other.get("typ", None) is type):
        return False
    if me._kind == "SubclassValue":
        return True
    return me._kind == "MultiValuedValue" and any(x._kind == "SubclassValue" for x in me.get("vals", None))


class NarrowModel:
    def __init__(self, prog: Program) -> None:
        self.prog = prog
        # the assignability oracle is set inclusion over the universe, plus the one gradual rule the real
        # SubclassValue.can_assign has (read from its source, so the oracle follows the code if the arm goes away)
        sub = prog.func("value", "SubclassValue.can_assign")
        self.bare_type_is_gradual = any(
            isinstance(n, ast.If) and isinstance(n.test, ast.Compare) and isinstance(n.test.ops[0], ast.Is) and ast.unparse(n.test.left).endswith(".typ") and ast.unparse(n.test.comparators[0]) == "type"
            and any(isinstance(b, ast.Return) and isinstance(b.value, ast.Dict) and not b.value.keys for b in n.body)
            for n in ast.walk(sub)
        )
        f = lambda q: prog.func("predicates", q)  # noqa: E731
        self.calls = {
            "IsAssignablePredicate": f("IsAssignablePredicate.__call__"),
            "EqualsPredicate": f("EqualsPredicate.__call__"),
            "InPredicate": f("InPredicate.__call__"),
        }
        self.module_defs = {"is_universally_assignable": f("is_universally_assignable")}
        if prog.has_func("predicates", "_non_instances"):
            self.module_defs["_non_instances"] = f("_non_instances")
        folder = Folder(prog, "predicates")
        self.globals: Dict[str, Any] = {"enum": Obj("enum", Enum=enum.Enum), "NO_RETURN_VALUE": Obj("MultiValuedValue", vals=[])}
        # tables of native objects, folded from their literals
        try:
            op = folder.table("_OPERATOR")
            self.globals["_OPERATOR"] = {k: getattr(operator, v.last) for k, v in op.items()}
        except (CannotFold, AnchorError, AttributeError) as e:
            raise AnchorError(f"predicates._OPERATOR cannot be folded: {e}")
        try:
            has_pt = prog.module_assign("predicates", "_PROMOTED_TYPES") is not None
        except AnchorError:
            has_pt = False
        if has_pt:
            try:
                pt = folder.table("_PROMOTED_TYPES")
                self.globals["_PROMOTED_TYPES"] = {getattr(builtins, k.last): tuple(getattr(builtins, x.last) for x in v) for k, v in pt.items()}
            except (CannotFold, AnchorError, AttributeError) as e:
                raise AnchorError(f"predicates._PROMOTED_TYPES cannot be folded: {e}")

    # -------------------------------------------------------------- values
    def value(self, kind: str, payload: Any = None) -> Obj:
        if kind == "AnyValue":
            v = EqObj("AnyValue")
        elif kind == "KnownValue":
            v = EqObj("KnownValue", val=payload)
        elif kind == "TypedValue":
            v = EqObj("TypedValue", typ=payload)
        elif kind == "MultiValuedValue":
            v = EqObj("MultiValuedValue", vals=list(payload))
        elif kind == "SubclassValue":
            v = EqObj("SubclassValue", typ=payload)
        else:
            raise AnchorError(kind)
        v._attrs["is_assignable"] = lambda other, ctx=None, me=v: members(other) <= members(me) or (self.bare_type_is_gradual and _bare_type_into_subclass(other, me))
        return v

    def unite(self, args: List[Any]) -> Obj:
        flat: List[Obj] = []
        for a in args:
            if a._kind == "MultiValuedValue":
                flat.extend(a.get("vals", None))
            else:
                flat.append(a)
        if len(flat) == 1:
            return flat[0]
        return self.value("MultiValuedValue", flat)

    def apply(self, pred_kind: str, fields: Dict[str, Any], value: Obj, positive: bool) -> Any:
        fn = self.calls[pred_kind]

        def isinstance_hook(v: Any, cls: str) -> Optional[bool]:
            if cls in ("KnownValue", "TypedValue", "AnyValue", "MultiValuedValue", "AnnotatedValue", "TypeVarValue", "SubclassValue"):
                return isinstance(v, Obj) and v._kind == cls
            return None

        def flatten(args, kwargs=None):
            v = args[0]
            return list(v.get("vals", None)) if v._kind == "MultiValuedValue" else [v]

        flatten.wants_kwargs = True  # type: ignore[attr-defined]
        funcs = {
            "unannotate": lambda args: args[0],
            "KnownValue": lambda args: self.value("KnownValue", args[0]),
            "TypedValue": lambda args: self.value("TypedValue", args[0]),
            "SubclassValue": lambda args: self.value("SubclassValue", args[0]),
            "unite_values": self.unite,
            "flatten_values": flatten,
            "safe_issubclass": lambda args: isinstance(args[0], type) and isinstance(args[1], (type, tuple)) and issubclass(args[0], args[1]),
            "is_overlapping": lambda args: bool(members(args[0]) & members(args[1])),
            "AnyValue": lambda args: self.value("AnyValue"),
        }
        self_obj = Obj(pred_kind, ctx=Opaque("ctx"), **fields)
        it = Interp({}, {}, (), funcs, isinstance_hook, {}, self.module_defs, self.globals)
        try:
            return it.call_def(fn, [self_obj, value, positive], fn)
        except Unsupported as u:
            raise AnchorError(f"{pred_kind}.__call__ cannot be modelled: {u}")
        except AssertionFailed as af:
            raise AnchorError(f"{pred_kind}.__call__: assertion reached: {af}")
        except (PyRaise, ModelError) as e:
            return ("crash", str(e))

    # ------------------------------------------------- Constraint.apply_to_value
    def constraint(self, ctype: str, positive: bool, payload: Any) -> Obj:
        return Obj("Constraint", varname=Opaque("varname"), constraint_type=Sym(f"ConstraintType.{ctype}"), positive=positive, value=payload, inverted=None)

    def apply_constraint(self, c: Obj, value: Obj) -> Any:
        """Values yielded by Constraint.apply_to_value(value), or ("crash", why)."""
        f = lambda q: self.prog.func("stacked_scopes", q)  # noqa: E731
        method_defs = {("Constraint", "apply_to_value"): f("Constraint.apply_to_value"), ("Constraint", "apply_to_values"): f("Constraint.apply_to_values")}

        def isinstance_hook(v: Any, cls: str) -> Optional[bool]:
            if cls in ("KnownValue", "TypedValue", "AnyValue", "MultiValuedValue", "AnnotatedValue", "TypeVarValue", "SubclassValue"):
                return isinstance(v, Obj) and v._kind == cls
            return None

        def boolability(args: List[Any]) -> Obj:
            # oracle for get_boolability: decided by the truth values of the members
            truths = {bool(UNIVERSE[i]) for i in members(args[0])}
            always_true, always_false = truths == {True}, truths == {False}
            return Obj("Boolability", is_safely_true=lambda: always_true, is_safely_false=lambda: always_false)

        funcs = {
            "TypedValue": lambda args: self.value("TypedValue", args[0]),
            "KnownValue": lambda args: self.value("KnownValue", args[0]),
            "safe_issubclass": lambda args: isinstance(args[0], type) and isinstance(args[1], (type, tuple)) and issubclass(args[0], args[1]),
            "get_boolability": boolability,
            "AnyValue": lambda args: self.value("AnyValue"),
        }
        globals_ = dict(self.globals)
        globals_["UNINITIALIZED_VALUE"] = Obj("UninitializedValue")
        it = Interp({}, {}, (), funcs, isinstance_hook, method_defs, {}, globals_)
        try:
            return it.call_def(method_defs[("Constraint", "apply_to_value")], [c, value], method_defs[("Constraint", "apply_to_value")])
        except Unsupported as u:
            raise AnchorError(f"Constraint.apply_to_value cannot be modelled: {u}")
        except AssertionFailed as af:
            raise AnchorError(f"Constraint.apply_to_value: assertion reached: {af}")
        except (PyRaise, ModelError) as e:
            return ("crash", str(e))
