"""C09 - reaching definitions: merge discipline of branch scopes."""

from __future__ import annotations

import ast
from typing import Dict, List, Optional, Set, Tuple

from ..model import AnchorError, Program, dotted, last_attr, norm, parent, walk_no_nested
from ..report import Check, guard
from .common import calls_in, guards_of, need_locals, params_of

SUBSCOPE_CALLS = {"subscope", "suppressing_subscope", "_subscope_and_maybe_supress"}
LOOP_SCOPE = "loop_scope"


def _is_subscope_call(e: ast.AST) -> Optional[str]:
    if isinstance(e, ast.Call):
        nm = last_attr(e)
        if nm in SUBSCOPE_CALLS or nm == LOOP_SCOPE:
            return nm
    return None


def captures(fn: ast.AST) -> List[Tuple[str, str, ast.AST]]:
    """(name, kind, node) for `with X.subscope() as name` and
    `name = stack.enter_context(X.subscope())`."""
    out = []
    for n in walk_no_nested(fn):
        if isinstance(n, (ast.With, ast.AsyncWith)):
            for it in n.items:
                k = _is_subscope_call(it.context_expr)
                if k and isinstance(it.optional_vars, ast.Name):
                    out.append((it.optional_vars.id, k, n))
        if isinstance(n, ast.Assign) and isinstance(n.value, ast.Call) and last_attr(n.value) == "enter_context" and n.value.args:
            k = _is_subscope_call(n.value.args[0])
            if k and isinstance(n.targets[0], ast.Name):
                out.append((n.targets[0].id, k, n))
    return out


def merged_names(prog: Program, cls: Optional[str], fn: ast.AST, depth: int = 1) -> Set[str]:
    """Names whose value reaches an argument of combine_subscopes in fn."""
    merged: Set[str] = set()
    lists: Dict[str, Set[str]] = {}
    for n in walk_no_nested(fn):
        # L = [a, b, *c]
        if isinstance(n, ast.Assign) and isinstance(n.targets[0], ast.Name) and isinstance(n.value, (ast.List, ast.Tuple)):
            lists.setdefault(n.targets[0].id, set()).update(x.id for x in ast.walk(n.value) if isinstance(x, ast.Name))
        # L.append(a)
        if isinstance(n, ast.Call) and last_attr(n) == "append" and isinstance(n.func, ast.Attribute) and isinstance(n.func.value, ast.Name) and n.args:
            lists.setdefault(n.func.value.id, set()).update(x.id for x in ast.walk(n.args[0]) if isinstance(x, ast.Name))
    work: List[str] = []
    for c in calls_in(fn, "combine_subscopes", nested=False):
        for a in c.args:
            for x in ast.walk(a):
                if isinstance(x, ast.Name):
                    work.append(x.id)
    # helper calls: self.helper(..., name, ...) where the parameter is merged in the helper
    if depth > 0 and cls is not None:
        for c in calls_in(fn, None, nested=False):
            if isinstance(c.func, ast.Attribute) and isinstance(c.func.value, ast.Name) and c.func.value.id == "self":
                f = prog.find_method(cls, c.func.attr)
                if f is None or f[1] is fn:
                    continue
                inner = merged_names(prog, cls, f[1], depth - 1)
                ps = [p for p in params_of(f[1]) if p != "self"]
                for i, a in enumerate(c.args):
                    if i < len(ps) and ps[i] in inner and isinstance(a, ast.Name):
                        work.append(a.id)
                for k in c.keywords:
                    if k.arg in inner and isinstance(k.value, ast.Name):
                        work.append(k.value.id)
    while work:
        nm = work.pop()
        if nm in merged:
            continue
        merged.add(nm)
        for x in lists.get(nm, ()):
            work.append(x)
    return merged


def r09_a(prog: Program, chk: Check) -> None:
    chk.rule(
        "R09.a",
        "every captured branch scope flows into combine_subscopes (directly, through a local list, or through a "
        "helper parameter); uncaptured subscopes are the discard idiom",
        floor=12,
    )
    n = 0
    for cname in ("NameCheckVisitor", "PatmaVisitor"):
        ci = prog.cls(cname)
        for mname, fn in sorted(ci.methods.items()):
            caps = captures(fn)
            if not caps:
                continue
            merged = merged_names(prog, cname, fn)
            counts: Dict[str, int] = {}
            for name, kind, node in caps:
                n += 1
                if kind == LOOP_SCOPE:
                    continue  # loop_scope() merges its own scopes on exit
                # a contextmanager wrapper that yields the scope hands it to its caller
                is_wrapper = any("contextmanager" in norm(d) for d in fn.decorator_list) and any(
                    isinstance(y, ast.Yield) and y.value is not None and norm(y.value) == name for y in walk_no_nested(fn)
                )
                base = f"{ci.module.name}::{cname}.{mname}::captured={kind}"
                counts[base] = counts.get(base, 0) + 1
                key = f"{base}#{counts[base]}"
                chk.ob(
                    "R09.a",
                    key,
                    name in merged or is_wrapper,
                    prog.site(ci.module, node),
                    f"scope `{name}` captured from {kind}() never reaches combine_subscopes: assignments made in that branch are lost at the join",
                )
    chk.analysed["captured_scopes"] = n


# conditionally executed children per visitor: (method, field expressions that must be visited under a subscope)
CONDITIONAL_CHILDREN: Dict[str, List[str]] = {
    "visit_If": ["node.body", "node.orelse"],
    "visit_IfExp": ["node.body", "node.orelse"],
    "visit_For": ["node.body"],
    "visit_While": ["node.body"],
    "_handle_loop_else": ["orelse"],
    "visit_try_except": ["node.body", "node.orelse", "handler"],
    "visit_Match": ["case.body"],
}


def _under_subscope(node: ast.AST, fn: ast.AST) -> bool:
    p = parent(node)
    while p is not None and p is not fn:
        if isinstance(p, (ast.With, ast.AsyncWith)):
            for it in p.items:
                if _is_subscope_call(it.context_expr):
                    return True
        p = parent(p)
    # ExitStack idiom: scope = stack.enter_context(self.scopes.subscope()) earlier in the same block
    blk_owner = parent(node)
    while blk_owner is not None and blk_owner is not fn:
        for fld in ("body",):
            lst = getattr(blk_owner, fld, None)
            if isinstance(lst, list):
                for st in lst:
                    if getattr(st, "lineno", 0) < getattr(node, "lineno", 0):
                        for c in ast.walk(st):
                            if isinstance(c, ast.Call) and last_attr(c) == "enter_context" and c.args and _is_subscope_call(c.args[0]):
                                return True
        blk_owner = parent(blk_owner)
    return False


def r09_b(prog: Program, chk: Check) -> None:
    chk.rule(
        "R09.b",
        "conditionally executed children (if/else bodies, loop bodies and else, try body/handlers/else, case "
        "bodies, later operands of and/or, suppressing with-bodies, the failing path of finally) are visited "
        "inside a subscope",
        floor=9,
    )
    ci = prog.cls("NameCheckVisitor")
    for mname, fields in CONDITIONAL_CHILDREN.items():
        fn = ci.methods.get(mname)
        if fn is None:
            raise AnchorError(f"NameCheckVisitor.{mname} not found")
        for fld in fields:
            visits = [
                c
                for c in calls_in(fn, None, nested=False)
                if last_attr(c) in ("visit", "_generic_visit_list") and c.args and norm(c.args[0]) == fld
            ]
            if not visits:
                chk.ob("R09.b", f"name_check_visitor::NameCheckVisitor.{mname}::{fld}::visited", False, prog.site(ci.module, fn), f"{fld} is never visited in {mname}")
                continue
            for i, v in enumerate(visits):
                chk.ob(
                    "R09.b",
                    f"name_check_visitor::NameCheckVisitor.{mname}::{fld}::under-subscope" + (f"#{i + 1}" if len(visits) > 1 else ""),
                    _under_subscope(v, fn),
                    prog.site(ci.module, v),
                    f"{fld} is visited outside any subscope in {mname}: its assignments are treated as always executed",
                )
    # BoolOp: every operand is visited after a subscope was entered for it
    fn = ci.methods["visit_BoolOp"]
    loops = [n for n in walk_no_nested(fn) if isinstance(n, ast.For) and "node.values" in norm(n.iter)]
    ok = False
    if loops:
        lp = loops[0]
        enters = [c for c in calls_in(lp, "enter_context") if c.args and _is_subscope_call(c.args[0])]
        conds = [c for c in calls_in(lp, "constraint_from_condition")]
        ok = bool(enters) and bool(conds) and min(e.lineno for e in enters) < min(c.lineno for c in conds)
    chk.ob("R09.b", "name_check_visitor::NameCheckVisitor.visit_BoolOp::operand-under-subscope", ok, prog.site(ci.module, fn), "each operand of and/or must be evaluated after entering its own subscope")
    # With: body under suppressing_subscope when the manager may suppress
    fn = ci.methods["visit_single_cm"]
    ok = False
    for n in walk_no_nested(fn):
        if isinstance(n, ast.If) and norm(n.test) == "can_suppress":
            ok = any(isinstance(w, ast.With) and _is_subscope_call(w.items[0].context_expr) == "suppressing_subscope" for w in n.body)
    chk.ob("R09.b", "name_check_visitor::NameCheckVisitor.visit_single_cm::suppressing-body", ok, prog.site(ci.module, fn), "the body of a with-statement whose manager may suppress exceptions must run in a suppressing subscope")
    # Try/finally: one visit of finalbody under a subscope fed by the failure scope, one after merging the success scope
    fn = ci.methods["visit_Try"]
    fvis = [c for c in calls_in(fn, "_generic_visit_list") if c.args and norm(c.args[0]) == "node.finalbody"]
    under = [c for c in fvis if _under_subscope(c, fn)]
    chk.ob(
        "R09.b",
        "name_check_visitor::NameCheckVisitor.visit_Try::finalbody-twice",
        len(fvis) == 2 and len(under) == 1,
        prog.site(ci.module, fn),
        "finally must be visited once for the failing path (inside a subscope) and once for normal continuation",
    )
    # the second pass over loop bodies in the collecting phase happens under a subscope too
    for mname in ("visit_For", "visit_While"):
        fn = ci.methods[mname]
        vis = [c for c in calls_in(fn, "_generic_visit_list") if c.args and norm(c.args[0]) == "node.body"]
        chk.ob(
            "R09.b",
            f"name_check_visitor::NameCheckVisitor.{mname}::all-body-visits-scoped",
            bool(vis) and all(_under_subscope(c, fn) for c in vis),
            prog.site(ci.module, fn),
            "every visit of a loop body must be inside a subscope (a loop may run zero times)",
        )


def r09_c(prog: Program, chk: Check) -> None:
    chk.rule("R09.c", "jump statements set leave markers and the merge honours them", floor=6)
    ci = prog.cls("NameCheckVisitor")
    for mname, marker in (("visit_Return", "LEAVES_SCOPE"), ("visit_Raise", "LEAVES_SCOPE"), ("visit_Break", "LEAVES_LOOP"), ("visit_Continue", "LEAVES_LOOP")):
        fn = ci.methods.get(mname)
        if fn is None:
            raise AnchorError(f"NameCheckVisitor.{mname} not found")
        def uncond_sets(f: ast.AST, depth: int = 2) -> bool:
            if any(c.args and norm(c.args[0]) == marker and not guards_of(c, f) for c in calls_in(f, "_set_name_in_scope")):
                return True
            if depth == 0:
                return False
            # ... or a private helper of the visitor that the method calls unconditionally does
            for c in walk_no_nested(f):
                if isinstance(c, ast.Call) and isinstance(c.func, ast.Attribute) and norm(c.func.value) == "self" and c.func.attr in ci.methods and c.func.attr != "_set_name_in_scope":
                    if not guards_of(c, f) and uncond_sets(ci.methods[c.func.attr], depth - 1):
                        return True
            return False

        uncond = uncond_sets(fn)
        chk.ob(
            "R09.c",
            f"name_check_visitor::NameCheckVisitor.{mname}::sets-{marker}",
            bool(uncond),
            prog.site(ci.module, fn),
            f"{mname} must unconditionally record {marker} in the current scope",
        )
    gc = prog.func("stacked_scopes", "FunctionScope.get_combined_scope")
    need_locals(gc, "scopes", "varname", "new_scopes")
    loop = [n for n in walk_no_nested(gc) if isinstance(n, ast.For) and norm(n.iter) == "scopes"]
    ok_loop = ok_scope = False
    if loop:
        x = loop[0].target.id  # type: ignore[attr-defined]
        for n in ast.walk(loop[0]):
            if isinstance(n, ast.If) and norm(n.test) == f"LEAVES_LOOP in {x}":
                ok_loop = any("current_loop_scopes.append" in norm(s) for s in n.body)
                for e in n.orelse:
                    if isinstance(e, ast.If) and f"LEAVES_SCOPE not in {x}" in norm(e.test):
                        ok_scope = any(".append(" in norm(s) for s in e.body)
    chk.ob("R09.c", "stacked_scopes::FunctionScope.get_combined_scope::routes-LEAVES_LOOP", ok_loop, prog.site("stacked_scopes", gc), "scopes that end in break/continue must be routed to the enclosing loop scope, not merged after the branch")
    chk.ob("R09.c", "stacked_scopes::FunctionScope.get_combined_scope::drops-LEAVES_SCOPE", ok_scope, prog.site("stacked_scopes", gc), "scopes that end in return/raise must be left out of the merge")
    # a name missing from one merged scope becomes the uninitialized marker
    t = norm(gc)
    chk.ob("R09.c", "stacked_scopes::FunctionScope.get_combined_scope::missing-is-uninitialized", "scope.get(varname, [_UNINITIALIZED])" in t, prog.site("stacked_scopes", gc), "a variable absent from one branch must contribute the uninitialized marker to the merge")


def r09_d(prog: Program, chk: Check) -> None:
    chk.rule("R09.d", "undefined / possibly undefined reporting path in resolve_name", floor=3)
    fn = prog.func("name_check_visitor", "NameCheckVisitor.resolve_name")
    need_locals(fn, "value", "subval", "subvals")
    undefined = possibly = False
    for n in walk_no_nested(fn):
        if isinstance(n, ast.If) and norm(n.test) == "value is UNINITIALIZED_VALUE":
            undefined = any("ErrorCode.undefined_name" in norm(c) for c in calls_in(n, "_show_error_if_checking")) and isinstance(n.body[-1], ast.Return)
        if isinstance(n, ast.If) and "subval is UNINITIALIZED_VALUE" in norm(n.test) and "any(" in norm(n.test):
            shows = [c for c in calls_in(n, "_show_error_if_checking") if "ErrorCode.possibly_undefined_name" in norm(c)]
            possibly = bool(shows) and len(guards_of(shows[0], n)) <= 1
    site = prog.site("name_check_visitor", fn)
    chk.ob("R09.d", "name_check_visitor::NameCheckVisitor.resolve_name::undefined", undefined, site, "an uninitialized value must be reported as undefined_name (unless suppressed) and replaced")
    chk.ob("R09.d", "name_check_visitor::NameCheckVisitor.resolve_name::possibly-undefined", possibly, site, "a union containing the uninitialized marker must be reported as possibly_undefined_name")
    t = norm(fn)
    chk.ob(
        "R09.d",
        "name_check_visitor::NameCheckVisitor.resolve_name::looks-through-annotated-union",
        "isinstance(value.value, MultiValuedValue)" in t,
        site,
        "an annotated union must be inspected for the uninitialized marker as well",
    )


def r09_e(prog: Program, chk: Check) -> None:
    chk.rule("R09.e", "the scope synthesised for a suppressing block keeps the LEAVES_LOOP marker: a break/continue inside `with suppress(...)` is still registered with the loop", floor=1)
    fn = prog.func("stacked_scopes", "FunctionScope.suppressing_subscope")
    comps = [c for c in walk_no_nested(fn) if isinstance(c, ast.DictComp) and any("LEAVES_SCOPE" in norm(i) for g in c.generators for i in g.ifs)]
    if not comps:
        raise AnchorError("suppressing_subscope: the comprehension that filters LEAVES_SCOPE was not found")
    t = " ".join(norm(i) for g in comps[0].generators for i in g.ifs)
    chk.ob(
        "R09.e",
        "stacked_scopes::FunctionScope.suppressing_subscope::keeps-LEAVES_LOOP",
        "LEAVES_LOOP" not in t,
        prog.site("stacked_scopes", comps[0]),
        f"the filter `{t}` also drops LEAVES_LOOP: assignments before a break/continue in a suppressing with-block no longer reach the loop exit",
    )


# ------------------------------------------------------------------- R09.f
def _scope_chunk(args):
    part, nparts, step = args
    import ast as _ast

    from ..model import Program as _P
    from . import scope_model as smod

    model = smod.ScopeModel(_P())
    n = 0
    classes: Dict[str, Dict[str, object]] = {}

    def note(key: str, bad: bool, detail) -> None:
        c = classes.setdefault(key, {"n": 0, "bad": 0, "witness": []})
        c["n"] += 1  # type: ignore[operator]
        if bad:
            c["bad"] += 1  # type: ignore[operator]
            w = c["witness"]
            w.append(detail)  # type: ignore[union-attr]
            w.sort(key=lambda d: (len(d["function"]), repr(d)))  # type: ignore[union-attr]
            del w[3:]  # type: ignore[arg-type]

    def features(tree) -> set:
        f = set()
        for x in _ast.walk(tree):
            if isinstance(x, _ast.Try) and x.finalbody and any(isinstance(y, (_ast.Break, _ast.Continue, _ast.Return)) for blk in (x.body, x.handlers, x.orelse) for st in blk for y in _ast.walk(st)):
                f.add("abrupt-exit-through-finally")
            if isinstance(x, (_ast.While, _ast.For)) and any(isinstance(y, _ast.Break) for st in x.body for y in _ast.walk(st)):
                f.add("loop-with-break")
        return f

    for idx, src in enumerate(smod.programs(step)):
        if idx % nparts != part:
            continue
        fn = _ast.parse(src).body[0]
        rep = model.reported(fn)
        if not isinstance(rep, dict):
            note("no-crash", True, {"function": src, "error": rep[1]})
            continue
        note("no-crash", False, {"function": src})
        strict = smod.Reaching(False).run(fn)
        lib_an = smod.Reaching(True)
        liberal = lib_an.run(fn)
        assigned = {t.id for x in _ast.walk(fn) for t in ([x.targets[0]] if isinstance(x, _ast.Assign) else [x.target] if isinstance(x, _ast.For) else [])}
        feats = features(fn)
        for u in [x for x in _ast.walk(fn) if isinstance(x, _ast.Name) and isinstance(x.ctx, _ast.Load) and x.id in assigned]:
            lib = liberal.get(id(u), set())
            if not lib:
                continue  # unreachable use
            n += 1
            r = rep.get(id(u)) or {smod.UNINIT}  # no recorded definition: the name is unbound there
            stc = strict.get(id(u), set())
            d = {"function": src, "use": f"{u.id} at line {u.lineno}", "recorded": sorted(r), "strict": sorted(stc), "liberal": sorted(lib)}
            miss_key = "abrupt-exit-through-finally" if "abrupt-exit-through-finally" in feats else "other"
            note(f"every definition that reaches the use along a path is recorded (strict subset)::{miss_key}", not stc <= r, d)
            extra = r - lib
            if extra and all(not e.startswith("for:") and e != smod.UNINIT and e not in lib_an.executed for e in extra):
                extra_key = "definition-in-unreachable-code"
            else:
                extra_key = "definition-on-a-break-path" if "loop-with-break" in feats else "other"
            note(f"nothing is recorded that reaches the use along no path (liberal superset)::{extra_key}", not r <= lib, d)
            note("the unbound state is recorded iff some path leaves the name unbound", (smod.UNINIT in r) != (smod.UNINIT in stc) and not ((smod.UNINIT in r) and (smod.UNINIT in lib)) and not (miss_key != "other" or extra_key != "other"), d)
    return n, classes


def r09_f(prog: Program, chk: Check) -> None:
    import multiprocessing as mp
    import os as _os

    step = 9 if _os.environ.get("VERIF_SELFTEST") else 1 if chk.tier == "thorough" else 3
    chk.rule(
        "R09.f",
        "reaching definitions as a finite model: visit_If / visit_While / visit_For / _handle_loop_else / visit_Try / visit_try_except / visit_Break / visit_Continue and the scope "
        "machinery (FunctionScope.set / get_local / subscope / loop_scope / suppressing_subscope / get_combined_scope / combine_subscopes, Scope.get, StackedScopes) are interpreted "
        "from their AST in the collecting phase on generated function bodies (assignments of distinct literals, uses, if / while / while True / for with else, break, continue, return, with blocks, "
        "try / except / else / finally, nested one level); for every reachable use of a local the recorded definitions lie between the strict and the liberal reaching-definitions "
        "sets of an independent analysis, as the property defines them",
        floor=4,
    )
    procs = 2 if _os.environ.get("VERIF_SELFTEST") else min(16, _os.cpu_count() or 1)
    with mp.get_context("fork").Pool(procs) as pl:
        results = pl.map(_scope_chunk, [(i, procs * 2, step) for i in range(procs * 2)])
    total = 0
    merged: Dict[str, Dict[str, object]] = {}
    for n, classes in results:
        total += n
        for k, c in classes.items():
            m = merged.setdefault(k, {"n": 0, "bad": 0, "witness": []})
            m["n"] += c["n"]  # type: ignore[operator]
            m["bad"] += c["bad"]  # type: ignore[operator]
            m["witness"] = sorted(list(m["witness"]) + list(c["witness"]), key=lambda d: (len(d["function"]), repr(d)))[:3]  # type: ignore[arg-type]
    chk.model_evaluations += total
    chk.analysed["scope_model"] = {"uses_compared": total}
    site = prog.site("stacked_scopes", prog.func("stacked_scopes", "FunctionScope.get_combined_scope"))
    for k, c in sorted(merged.items()):
        wit = c["witness"]
        chk.ob("R09.f", f"stacked_scopes::scope-model::{k}", int(c["bad"]) == 0, site,  # type: ignore[arg-type]
               f"{c['n']} cases, {c['bad']} failing" + (f"; smallest: {wit[0]}" if wit else ""), witness=wit)  # type: ignore[index]


# ------------------------------------------------------------------- R09.g
def _closure_chunk(args):
    part, nparts, step = args
    import ast as _ast

    from ..model import Program as _P
    from . import scope_model as smod

    model = smod.ScopeModel(_P())
    U = smod.UNINIT
    n = 0
    classes: Dict[str, Dict[str, object]] = {}

    def note(key: str, bad: bool, detail) -> None:
        c = classes.setdefault(key, {"n": 0, "bad": 0, "witness": []})
        c["n"] += 1  # type: ignore[operator]
        if bad:
            c["bad"] += 1  # type: ignore[operator]
            w = c["witness"]
            w.append(detail)  # type: ignore[union-attr]
            w.sort(key=lambda d: (len(d["function"]), repr(d)))  # type: ignore[union-attr]
            del w[3:]  # type: ignore[arg-type]

    # (1) closures: nested functions with nonlocal / global / free names, called at known points
    for idx, (src, module_vars) in enumerate(smod.closure_programs()):
        if idx % nparts != part or (step > 3 and idx % 3 and not module_vars and "nonlocal" in src):
            continue
        fn = _ast.parse(src).body[0]
        obs = model.revealed(fn, module_vars)
        if not isinstance(obs, dict):
            note("closures::no-crash", True, {"function": src, "error": obs[1]})
            continue
        note("closures::no-crash", False, {"function": src})
        init = {v: frozenset({f"mod:{v}"}) for v in module_vars}
        strict = smod.Reaching(False).run(fn, init)
        liberal = smod.Reaching(True).run(fn, init)
        kinds, labels, written_by_nested = smod.classify_uses(fn)
        for u in [x for x in _ast.walk(fn) if isinstance(x, _ast.Name) and isinstance(x.ctx, _ast.Load) and x.id in ("x", "g")]:
            lib = liberal.get(id(u), set())
            if not lib:
                continue  # no call reaches the use
            n += 1
            stc = strict.get(id(u), set())
            o = obs.get(id(u), set())
            kind, var = kinds[id(u)]
            d = {"function": src, "use": f"{u.id} at line {u.lineno}", "kind": kind, "obtained": sorted(o), "strict": sorted(stc), "liberal": sorted(lib)}
            if kind == "own" and var not in written_by_nested:
                bare = var.split(".")[-1]
                shadowed = {f"mod:{bare}"}.union(*[ls for v, ls in labels.items() if v != var and v.split(".")[-1] == bare])
                falls_through = U in lib and (stc - {U}) <= o and ((U in stc and U not in o) or bool(o - lib) and (o - lib) <= shadowed)
                if falls_through:
                    note("closures::a local read before its first assignment is unbound, whatever an enclosing scope binds", True, d)
                else:
                    note("closures::a function's own names: strict subset and liberal superset", not stc <= o <= lib, d)
            elif kind == "own":
                # the nested function may also run at other times: its assignments are allowed everywhere after its definition
                note("closures::names that a nested function assigns through nonlocal, read in the enclosing function", not (stc <= o <= lib | labels.get(var, set())), d)
            else:
                allowed = lib | labels.get(var, set()) | ({f"mod:{var}"} if kind in ("global", "module") else set())
                note(f"closures::{kind} names read in the nested function: every definition that reaches the call is obtained", not (stc - {U}) <= o, d)
                note(f"closures::{kind} names read in the nested function: only assignments to that variable are obtained", not (o - {U}) <= allowed, d)
                note("closures::a closure name that is unbound at the call is reported", U in stc and U not in o, d)
    # (2) the checking phase obtains exactly the definitions the collecting phase recorded
    for idx, src in enumerate(smod.programs(max(step, 3))):
        if idx % nparts != part or idx % 2:
            continue
        fn = _ast.parse(src).body[0]
        rep = model.reported(fn)
        obs = model.revealed(fn)
        if not isinstance(rep, dict):
            continue  # R09.f reports it
        if not isinstance(obs, dict):
            note("phases::no-crash", True, {"function": src, "error": obs[1]})
            continue
        for u in [x for x in _ast.walk(fn) if isinstance(x, _ast.Name) and isinstance(x.ctx, _ast.Load) and id(x) in rep]:
            n += 1
            r = rep.get(id(u)) or {U}
            o = obs.get(id(u), set())
            note("phases::the values of the checking phase come from exactly the recorded definitions", r != o, {"function": src, "use": f"{u.id} at line {u.lineno}", "recorded": sorted(r), "obtained": sorted(o)})
    return n, classes


def r09_g(prog: Program, chk: Check) -> None:
    import multiprocessing as mp
    import os as _os

    step = 9 if _os.environ.get("VERIF_SELFTEST") else 1 if chk.tier == "thorough" else 3
    chk.rule(
        "R09.g",
        "values at uses, nested functions and global / nonlocal as a finite model: NameCheckVisitor._visit_function_body (a new FunctionScope through StackedScopes.add_scope, the "
        "collecting pass, the checking pass; nested defs recursively), visit_Nonlocal / visit_Global and the value resolution (FunctionScope._get_value_from_nodes / _resolve_value / "
        "_resolve_origin, Scope.get / set / resolve_reference, _constrain_value) are interpreted from their AST; a value is the set of assignments it may come from. For functions with "
        "a nested function that reads or assigns names of the enclosing function or of the module, called at known points, the values obtained in the checking phase lie between the "
        "strict and the liberal reaching-definitions sets of the independent analysis (a call executes the nested body on the caller's state); on the programs of R09.f the checking "
        "phase obtains exactly the definitions the collecting phase recorded",
        floor=6,
    )
    procs = 2 if _os.environ.get("VERIF_SELFTEST") else min(16, _os.cpu_count() or 1)
    with mp.get_context("fork").Pool(procs) as pl:
        results = pl.map(_closure_chunk, [(i, procs * 2, step) for i in range(procs * 2)])
    total = 0
    merged: Dict[str, Dict[str, object]] = {}
    for n, classes in results:
        total += n
        for k, c in classes.items():
            m = merged.setdefault(k, {"n": 0, "bad": 0, "witness": []})
            m["n"] += c["n"]  # type: ignore[operator]
            m["bad"] += c["bad"]  # type: ignore[operator]
            m["witness"] = sorted(list(m["witness"]) + list(c["witness"]), key=lambda d: (len(d["function"]), repr(d)))[:3]  # type: ignore[arg-type]
    chk.model_evaluations += total
    chk.analysed["closure_model"] = {"uses_compared": total}
    site = prog.site("stacked_scopes", prog.func("stacked_scopes", "FunctionScope._resolve_value"))
    for k, c in sorted(merged.items()):
        wit = c["witness"]
        chk.ob("R09.g", f"stacked_scopes::value-model::{k}", int(c["bad"]) == 0, site,  # type: ignore[arg-type]
               f"{c['n']} cases, {c['bad']} failing" + (f"; smallest: {wit[0]}" if wit else ""), witness=wit)  # type: ignore[index]


def run(prog: Program, chk: Check) -> None:
    guard(chk, r09_e, prog, chk)
    guard(chk, r09_a, prog, chk)
    guard(chk, r09_b, prog, chk)
    guard(chk, r09_c, prog, chk)
    guard(chk, r09_d, prog, chk)
    guard(chk, r09_f, prog, chk)
    guard(chk, r09_g, prog, chk)
