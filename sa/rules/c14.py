"""C14 - value algebra: eq/hash contract, substitution/traversal field coverage,
flattening and ordered de-duplication of unions."""

from __future__ import annotations

import ast
import re
from dataclasses import dataclass, field
from typing import Dict, List, Optional, Set, Tuple

from ..model import AnchorError, ClassInfo, Program, dotted, last_attr, norm, parent, walk_no_nested
from ..report import Check, guard
from .common import calls_in, returns_of


@dataclass
class Method:
    kind: str  # identity | generated | custom | none | tuple
    fields: Tuple[str, ...] = ()
    owner: str = "object"
    node: Optional[ast.FunctionDef] = None
    detail: str = ""


def _fields_read(fn: ast.FunctionDef) -> Tuple[str, ...]:
    out: List[str] = []
    for n in ast.walk(fn):
        if isinstance(n, ast.Attribute) and isinstance(n.value, ast.Name) and n.value.id == "self":
            if n.attr not in out:
                out.append(n.attr)
    return tuple(out)


def _hash_is_identity(fn: ast.FunctionDef) -> bool:
    rets = returns_of(fn)
    if len(rets) != 1 or rets[0].value is None:
        return False
    t = norm(rets[0].value)
    return t in ("id(self)", "object.__hash__(self)", "super().__hash__()")


def effective_eq_hash(prog: Program, cname: str) -> Tuple[Method, Method]:
    eq = Method("identity")
    h = Method("identity")
    chain = list(reversed(prog.mro(cname)))
    for ci in chain:
        is_namedtuple = "NamedTuple" in ci.base_names
        if is_namedtuple:
            flds = tuple(f.name for f in ci.own_fields if not f.is_classvar)
            eq = Method("tuple", flds, ci.name)
            h = Method("tuple", flds, ci.name)
        body_eq = ci.methods.get("__eq__")
        body_hash = ci.methods.get("__hash__")
        if body_eq is not None:
            eq = Method("custom", _fields_read(body_eq), ci.name, body_eq)
            if body_hash is None and not is_namedtuple:
                h = Method("none", (), ci.name, detail="__eq__ defined without __hash__")
        if body_hash is not None:
            if _hash_is_identity(body_hash):
                h = Method("identity", (), ci.name, body_hash)
            else:
                h = Method("custom", _fields_read(body_hash), ci.name, body_hash)
        if ci.is_dataclass:
            p = ci.dc_params
            allf = [f for f in prog.all_fields(ci.name) if not f.is_initvar]
            cmp_fields = tuple(f.name for f in allf if f.compare)
            hash_fields = tuple(f.name for f in allf if (f.hash if f.hash is not None else f.compare))
            if p.get("eq", True) and body_eq is None:
                eq = Method("generated", cmp_fields, ci.name)
            explicit_hash = body_hash is not None
            if p.get("unsafe_hash"):
                h = Method("generated", hash_fields, ci.name)
            elif p.get("eq", True) and p.get("frozen"):
                if not explicit_hash:
                    h = Method("generated", hash_fields, ci.name)
            elif p.get("eq", True):
                if not explicit_hash:
                    h = Method("none", (), ci.name, detail="eq=True, frozen=False: __hash__ = None")
    return eq, h


def _custom_eq_compares(fn: ast.FunctionDef) -> Dict[str, str]:
    """field -> how it is compared in a custom __eq__: 'eq' for self.f == other.f
    (or safe_equals(self.f, other.f)), 'other' otherwise."""
    out: Dict[str, str] = {}
    for n in ast.walk(fn):
        if isinstance(n, ast.Compare) and len(n.ops) == 1 and isinstance(n.ops[0], ast.Eq):
            l, r = norm(n.left), norm(n.comparators[0])
            m = re.fullmatch(r"self\.(\w+)", l)
            if m and r == f"other.{m.group(1)}":
                out[m.group(1)] = "eq"
        if isinstance(n, ast.Call) and last_attr(n) == "safe_equals" and len(n.args) == 2:
            l, r = norm(n.args[0]), norm(n.args[1])
            m = re.fullmatch(r"self\.(\w+)", l)
            if m and r == f"other.{m.group(1)}":
                out[m.group(1)] = "eq"
    return out


def contract(eq: Method, h: Method) -> Tuple[bool, str]:
    if h.kind == "none":
        return True, "unhashable"
    if eq.kind == "identity":
        return True, "identity equality"
    if eq.kind in ("generated", "tuple"):
        if h.kind in ("generated", "tuple"):
            extra = [f for f in h.fields if f not in eq.fields]
            return (not extra, f"hash reads {extra} which equality ignores" if extra else "hash fields are a subset of compared fields")
        if h.kind == "identity":
            return False, f"field-wise __eq__ ({eq.owner}) with identity __hash__ ({h.owner}): equal objects hash differently"
        if h.kind == "custom":
            extra = [f for f in h.fields if f not in eq.fields]
            return (not extra, f"custom __hash__ reads {extra} which the generated __eq__ excludes (compare=False)" if extra else "custom hash reads compared fields only")
    if eq.kind == "custom":
        assert eq.node is not None
        cmp = _custom_eq_compares(eq.node)
        if h.kind in ("generated", "tuple"):
            missing = [f for f in h.fields if cmp.get(f) != "eq"]
            # an order-insensitive / partial custom equality next to a field-tuple hash
            loose = any(isinstance(n, ast.Call) and last_attr(n) in ("set", "frozenset", "sorted") for n in ast.walk(eq.node))
            if missing or loose:
                why = []
                if missing:
                    why.append(f"custom __eq__ does not require equality of {missing} but the {h.kind} __hash__ ({h.owner}) includes them")
                if loose:
                    why.append("custom __eq__ accepts operands that differ as tuples (order-insensitive comparison) while __hash__ hashes the ordered tuple")
                return False, "; ".join(why)
            return True, "custom equality implies equality of all hashed fields"
        if h.kind == "identity":
            return False, "custom __eq__ with identity __hash__"
        if h.kind == "custom":
            assert h.node is not None
            extra = [f for f in h.fields if f not in eq.fields]
            if extra:
                return False, f"__hash__ reads {extra} not compared by __eq__"
            ids = [norm(c) for c in calls_in(h.node, "id")]
            by_id = [t for t in ids if re.fullmatch(r"id\(self\.\w+\)", t)]
            if by_id and any(cmp.get(re.fullmatch(r"id\(self\.(\w+)\)", t).group(1)) == "eq" for t in by_id):  # type: ignore[union-attr]
                return False, f"__hash__ falls back to {by_id} although __eq__ compares that field by equality: equal unhashable payloads hash differently"
            return True, "custom/custom with hashed fields compared"
    return True, "no rule"


HASHABLE_ROOTS = ["Value", "Extension", "Bound", "AbstractConstraint"]
HASHABLE_EXTRA = [
    "KVPair",
    "TypedDictEntry",
    "Composite",
    "SigParameter",
    "Signature",
    "OverloadedSignature",
    "BoundMethodSignature",
    "CanAssignError",
    "VarnameWithOrigin",
    "CompositeVariable",
    "TypeAlias",
    "PossibleArg",
    "PosOrKeyword",
]


def r14_1(prog: Program, chk: Check) -> None:
    chk.rule(
        "R14.1",
        "equal implies equal hash: effective __eq__/__hash__ per class computed with the dataclass decision "
        "table (eq/frozen/unsafe_hash/explicit definitions, compare=/hash= flags, NamedTuple)",
        floor=30,
    )
    classes: List[str] = []
    for root in HASHABLE_ROOTS:
        classes += prog.subclasses(root)
    classes += [c for c in HASHABLE_EXTRA if c in prog.classes]
    seen: Set[str] = set()
    for c in classes:
        if c in seen:
            continue
        seen.add(c)
        ci = prog.cls(c)
        eq, h = effective_eq_hash(prog, c)
        ok, why = contract(eq, h)
        chk.ob(
            "R14.1",
            f"{ci.module.name}::{c}::eq-hash",
            ok,
            prog.site(ci.module, ci.node),
            f"eq={eq.kind}({','.join(eq.fields)})@{eq.owner} hash={h.kind}({','.join(h.fields)})@{h.owner}: {why}",
            witness={"eq": [eq.kind, eq.fields, eq.owner], "hash": [h.kind, h.fields, h.owner]},
        )


# --------------------------------------------------------------------- R14.2
_VALUE_NAMES: Set[str] = set()


class _ValueAnn:
    """Does an annotation mention a value-like type (any Value / Extension
    subclass, signatures, composites, entries)?"""

    BASE = {"KVPair", "TypedDictEntry", "Signature", "MaybeSignature", "ConcreteSignature", "OverloadedSignature", "BoundMethodSignature", "Composite", "ActualArguments"}

    def search(self, text: str) -> bool:
        return any(tok in _VALUE_NAMES or tok in self.BASE for tok in re.findall(r"[A-Za-z_]\w*", text))


VALUE_ANN = _ValueAnn()

# fields that are deliberately not traversed / substituted: (class, field, method) -> reason
R142_EXCEPTIONS: Dict[Tuple[str, str, str], str] = {
    ("TypeVarValue", "bound", "*"): "declared bounds are closed terms of the TypeVar itself; substituting the variable replaces the whole node",
    ("TypeVarValue", "default", "*"): "same as bound",
    ("TypeVarValue", "constraints", "*"): "same as bound",
    ("MultiValuedValue", "_known_subvals", "*"): "derived cache of vals",
    ("SequenceValue", "args", "*"): "derived: the constructor recomputes args from members, which both methods rebuild/visit",
    ("DictIncompleteValue", "args", "*"): "derived: the constructor recomputes args from kv_pairs",
    ("TypedDictValue", "args", "*"): "derived: the constructor recomputes args from items / extra_keys",
    ("AsyncTaskIncompleteValue", "args", "*"): "derived: the constructor recomputes args from value",
    ("CallValue", "*", "*"): "internal argument bundle for ParamSpec calls; never the target of substitution",
    ("TypedDictEntry", "typ", "substitute_typevars"): "rebuilt entry by entry in TypedDictValue.substitute_typevars (checked there via the items field)",
    ("_ConstrainedValue", "*", "*"): "scope-internal placeholder, resolved before use",
    ("ReferencingValue", "*", "*"): "scope-internal reference",
    ("CanAssignError", "*", "*"): "diagnostic payload, not a type term",
    ("TypeQualifierValue", "*", "*"): "annotations-internal wrapper consumed immediately",
    ("DecoratorValue", "*", "*"): "annotations-internal marker",
    ("_SubscriptedValue", "*", "*"): "annotations-internal, consumed by _type_from_value",
    ("_StarredValue", "*", "*"): "visitor-internal",
    ("LowerBound", "*", "*"): "bounds are consumed by the solver, never substituted",
    ("UpperBound", "*", "*"): "bounds are consumed by the solver, never substituted",
    ("OrBound", "*", "*"): "bounds are consumed by the solver, never substituted",
    ("IsOneOf", "*", "*"): "bounds are consumed by the solver, never substituted",
}


def _mentions_field(fn: ast.FunctionDef, fname: str) -> bool:
    for n in ast.walk(fn):
        if isinstance(n, ast.Attribute) and n.attr == fname and isinstance(n.value, ast.Name) and n.value.id == "self":
            return True
    return False


def _calls_super(fn: ast.FunctionDef, meth: str) -> bool:
    for c in calls_in(fn, meth):
        if isinstance(c.func, ast.Attribute) and isinstance(c.func.value, ast.Call) and last_attr(c.func.value) == "super":
            return True
    return False


def _covered(prog: Program, cname: str, meth: str, fname: str) -> Tuple[bool, str]:
    """Is field `fname` mentioned by the effective implementation of `meth`,
    following super() calls up the hierarchy?"""
    mro = prog.mro(cname)
    for i, ci in enumerate(mro):
        if meth in ci.methods:
            fn = ci.methods[meth]
            if _mentions_field(fn, fname):
                return True, ci.name
            if _calls_super(fn, meth):
                continue
            return False, ci.name
    return False, "Value"


def r14_2(prog: Program, chk: Check) -> None:
    _VALUE_NAMES.clear()
    _VALUE_NAMES.update(prog.subclasses("Value"))
    _VALUE_NAMES.update(prog.subclasses("Extension"))
    chk.rule(
        "R14.2",
        "substitute_typevars and walk_values mention every Value-typed field of every value/extension class",
        floor=30,
    )
    roots = ["Value", "Extension"]
    extra = ["KVPair", "TypedDictEntry"]
    classes: List[str] = []
    for r in roots:
        classes += prog.subclasses(r, strict=True)
    for c in sorted(set(classes)) + extra:
        ci = prog.cls(c)
        fields = []
        for f in prog.all_fields(c):
            if f.is_initvar or f.annotation is None:
                continue
            if VALUE_ANN.search(norm(f.annotation)):
                fields.append(f)
        # classes that are not dataclasses but assign Value attributes in __init__ are
        # covered through their dataclass fields only
        for f in fields:
            for meth in ("substitute_typevars", "walk_values"):
                if c in extra and meth == "walk_values":
                    continue  # traversed by their owners (DictIncompleteValue / TypedDictValue)
                exc = (
                    R142_EXCEPTIONS.get((c, f.name, meth))
                    or R142_EXCEPTIONS.get((c, f.name, "*"))
                    or R142_EXCEPTIONS.get((c, "*", "*"))
                )
                if exc:
                    continue
                ok, owner = _covered(prog, c, meth, f.name)
                chk.ob(
                    "R14.2",
                    f"{ci.module.name}::{c}.{meth}::field={f.name}",
                    ok,
                    prog.site(ci.module, ci.node),
                    f"{c}.{f.name}: {norm(f.annotation)} is not mentioned by the effective {meth} (defined on {owner}): "
                    "type variables inside it are never replaced / visited",
                )


# --------------------------------------------------------------------- R14.3
UNORDERED_ANN = re.compile(r"^(dict|Dict|Mapping|MutableMapping|set|Set|frozenset|FrozenSet|AbstractSet)\b")
CANONICALISERS = {"sorted", "frozenset", "len"}


def r14_1b(prog: Program, chk: Check) -> None:
    """A hand-written __hash__ over a field whose equality ignores order (dict,
    set) must canonicalise the order (sorted / frozenset): tuple(d) keeps
    insertion order while d1 == d2 ignores it."""
    for cname in sorted(prog.classes):
        ci = prog.cls(cname)
        fn = ci.methods.get("__hash__")
        if fn is None or _hash_is_identity(fn):
            continue
        fields = {f.name: f for f in prog.all_fields(cname)}
        # plain classes: attributes annotated in the class body
        for f in ci.own_fields:
            fields.setdefault(f.name, f)
        for n in ast.walk(fn):
            if isinstance(n, ast.Attribute) and isinstance(n.value, ast.Name) and n.value.id == "self" and n.attr in fields:
                f = fields[n.attr]
                if f.annotation is None or not UNORDERED_ANN.match(norm(f.annotation)):
                    continue
                ok = False
                p = parent(n)
                # self.f.items() / .keys() / .values() count as the field itself
                node = n
                while isinstance(p, (ast.Attribute, ast.Call)) and (isinstance(p, ast.Attribute) and p.attr in ("items", "keys", "values") or isinstance(p, ast.Call) and p.func is node):
                    node = p
                    p = parent(p)
                q = node
                while p is not None and p is not fn:
                    if isinstance(p, ast.Call) and isinstance(p.func, ast.Name) and p.func.id in CANONICALISERS and any(a is q for a in p.args):
                        ok = True
                        break
                    if isinstance(p, ast.Call) and isinstance(p.func, ast.Name) and p.func.id in ("tuple", "list", "hash", "iter", "str", "repr"):
                        break
                    q = p
                    p = parent(p)
                chk.ob(
                    "R14.1",
                    f"{ci.module.name}::{cname}.__hash__::unordered-field={n.attr}",
                    ok,
                    prog.site(ci.module, n),
                    f"__hash__ reads `self.{n.attr}` ({norm(f.annotation)[:30]}) without sorted()/frozenset(): two objects whose {n.attr} are equal but were built in a different order hash differently",
                )


def r14_2b(prog: Program, chk: Check) -> None:
    """`return self` in substitute_typevars of a class with Value-typed fields is
    only sound under a guard that rules out type variables in those fields."""
    for cname in sorted(set(prog.subclasses("Value", strict=True)) | set(prog.subclasses("Extension", strict=True)) | {"Signature", "OverloadedSignature", "BoundMethodSignature", "SigParameter", "Composite", "KVPair"}):
        if cname not in prog.classes:
            continue
        ci = prog.cls(cname)
        fn = ci.methods.get("substitute_typevars")
        if fn is None:
            continue
        vfields = [f.name for f in prog.all_fields(cname) if f.annotation is not None and not f.is_initvar and VALUE_ANN.search(norm(f.annotation))]
        if cname in ("Signature", "OverloadedSignature"):
            vfields = vfields or ["parameters", "return_value", "signatures"]
        if not vfields:
            continue
        from .common import guards_of

        params = [a.arg for a in fn.args.args]
        tv = params[1] if len(params) > 1 else "typevars"
        i = 0
        for r in ast.walk(fn):
            if not (isinstance(r, ast.Return) and r.value is not None and norm(r.value) == "self"):
                continue
            i += 1
            gs = [(g, pol) for g, pol in guards_of(r, fn)]
            ok = False
            why = []
            for g, pol in gs:
                t = norm(g)
                parts = [norm(v) for v in g.values] if isinstance(g, ast.BoolOp) else [t]
                for part in parts:
                    if pol and part == f"not {tv}":
                        ok = True
                    if pol and any(part == f"not self.{f}" for f in vfields):
                        ok = True
                # identity-preserving optimisation: the substituted results are compared with the originals
                if pol and any((f"== self.{f}" in t or f"self.{f} ==" in t) for f in vfields):
                    ok = True
                if pol and "all(" in t and " is " in t and any(f"self.{f}" in t for f in vfields):
                    ok = True
                why.append(t[:60])
            chk.ob(
                "R14.2",
                f"{ci.module.name}::{cname}.substitute_typevars::identity-return#{i}",
                ok,
                prog.site(ci.module, r),
                f"`return self` under {why or 'no guard'} skips substitution although {cname} has value-typed fields {vfields}: a type variable nested in them survives",
            )


def r14_3(prog: Program, chk: Check) -> None:
    chk.rule("R14.3", "unions never nest; de-duplication is insertion-ordered (dict, not set)", floor=6)
    ci = prog.cls("MultiValuedValue")
    pi = ci.methods.get("__post_init__")
    if pi is None:
        raise AnchorError("MultiValuedValue.__post_init__ not found")
    sets = [c for c in calls_in(pi, "__setattr__") if len(c.args) == 3 and isinstance(c.args[1], ast.Constant) and c.args[1].value == "vals"]
    ok = False
    if len(sets) == 1:
        v = sets[0].args[2]
        flat = calls_in(v, "flatten_values")
        ok = bool(flat) and "raw_vals" in norm(v) and last_attr(v) == "tuple"
    chk.ob(
        "R14.3",
        "value::MultiValuedValue.__post_init__::vals-flattened",
        ok,
        prog.site("value", pi),
        "MultiValuedValue.vals must be a tuple built by flatten_values over every raw value (no nested unions)",
    )
    fv = prog.func("value", "flatten_values")
    t = norm(fv)
    chk.ob(
        "R14.3",
        "value::flatten_values::handles-union-and-annotated-union",
        "isinstance(val, MultiValuedValue)" in t and "isinstance(val.value, MultiValuedValue)" in t and "yield from val.vals" in t,
        prog.site("value", fv),
        "flatten_values must expand both MultiValuedValue and AnnotatedValue(MultiValuedValue)",
    )
    for fname in ("unite_values", "annotate_value"):
        fn = prog.func("value", fname)
        # the container used for `not in` de-duplication must be a dict literal
        dedupe_names: Set[str] = set()
        for n in walk_no_nested(fn):
            if isinstance(n, ast.Compare) and len(n.ops) == 1 and isinstance(n.ops[0], ast.NotIn) and isinstance(n.comparators[0], ast.Name):
                dedupe_names.add(n.comparators[0].id)
        good = bool(dedupe_names)
        why = "no `x not in seen` de-duplication found"
        for nm in dedupe_names:
            for n in walk_no_nested(fn):
                if isinstance(n, ast.Assign) and any(isinstance(t_, ast.Name) and t_.id == nm for t_ in n.targets):
                    if not (isinstance(n.value, ast.Dict) or (isinstance(n.value, ast.Call) and last_attr(n.value) in ("dict", "OrderedDict"))):
                        good = False
                        why = f"`{nm}` is {norm(n.value)[:30]}, not a dict: iteration order of the result depends on hashing"
        chk.ob("R14.3", f"value::{fname}::ordered-dedupe", good, prog.site("value", fn), why)
    uv = prog.func("value", "unite_values")
    t = norm(uv)
    chk.ob(
        "R14.3",
        "value::unite_values::flattens-inputs",
        "isinstance(value, MultiValuedValue)" in t and "subvals = value.vals" in t and "isinstance(value.value, MultiValuedValue)" in t,
        prog.site("value", uv),
        "unite_values must expand union operands (plain and annotated) before de-duplication",
    )
    rets = [norm(r.value) for r in returns_of(uv) if r.value is not None]
    chk.ob(
        "R14.3",
        "value::unite_values::identity-and-singleton",
        "NO_RETURN_VALUE" in rets and "existing[0]" in rets and any(r.startswith("MultiValuedValue(") for r in rets),
        prog.site("value", uv),
        f"unite_values returns {rets}: must return Never for no operands, the single member for one, a union otherwise",
    )


# ------------------------------------------------------------------- R14.4
def r14_4(prog: Program, chk: Check) -> None:
    import itertools

    from . import union_model as um_

    chk.rule(
        "R14.4",
        "the union algebra as a finite model: unite_values, flatten_values, annotate_value and _is_unreachable are interpreted from their AST on model values with structural, "
        "type-strict equality (14 values: literals 1 / True / 1.0 / 'a', two equal unhashable list literals, int, str, Any, Any[unreachable], Never, a union, an annotated value, an "
        "annotated union) for every pair and triple: idempotent, commutative and associative up to equality of the member sets, never nests unions, Never is the identity, the "
        "members are exactly the members of the operands (Any[unreachable] acts as a second identity, as documented), and equal alternatives are merged",
        floor=7,
    )
    um = um_.UnionModel(prog)
    atoms = {
        "1": um.known(1), "True": um.known(True), "1.0": um.known(1.0), "'a'": um.known("a"), "[1]": um.known([1]), "[1]'": um.known([1]),
        "int": um.typed("int"), "str": um.typed("str"), "Any": um.any("explicit"), "Any[unreachable]": um.any("unreachable"), "Never": um.never,
    }
    atoms["1|str"] = um.union([atoms["1"], atoms["str"]])
    atoms["Annotated[int]"] = um.annotated(atoms["int"], [um.ext])
    atoms["Annotated[1|'a']"] = um.annotated(um.union([atoms["1"], atoms["'a'"]]), [um.ext])
    names = list(atoms)
    show = um_.show

    def mem(v):
        if isinstance(v, tuple) and not (v and v[0] == "crash"):
            return list(v)
        return um.flatten(v)

    def reachable(ms):
        r = [m for m in ms if not (m._kind == "AnyValue" and m._attrs["source"].name.endswith("unreachable"))]
        return r if r else ms

    def same(x, y) -> bool:
        return all(any(i == j for j in y) for i in x) and all(any(i == j for j in x) for i in y)

    classes: Dict[str, List[dict]] = {k: [] for k in ("idempotent", "Never-is-the-identity", "commutative", "never-nests", "members-are-the-operands-members", "equal-alternatives-merged", "equal-alternatives-merged::unhashable-literals", "associative", "no-crash")}
    counts: Dict[str, int] = {k: 0 for k in classes}
    total = 0

    def unite(*vs):
        nonlocal total
        total += 1
        r = um.unite(*vs)
        counts["no-crash"] += 1
        if isinstance(r, tuple) and r and r[0] == "crash":
            classes["no-crash"].append({"operands": [show(v) for v in vs], "error": r[1]})
            return None
        return r

    for a in names:
        A = atoms[a]
        r = unite(A, A)
        counts["idempotent"] += 1
        if r is not None and not same(reachable(mem(r)), reachable(mem(A))):
            classes["idempotent"].append({"a": a, "unite(a, a)": show(r)})
        r = unite(A, um.never)
        counts["Never-is-the-identity"] += 1
        if r is not None and not same(reachable(mem(r)), reachable(mem(A))):
            classes["Never-is-the-identity"].append({"a": a, "unite(a, Never)": show(r)})
    for a, b in itertools.product(names, repeat=2):
        A, B = atoms[a], atoms[b]
        ab, ba = unite(A, B), unite(B, A)
        if ab is None or ba is None:
            continue
        counts["commutative"] += 1
        if not same(mem(ab), mem(ba)):
            classes["commutative"].append({"a": a, "b": b, "unite(a, b)": show(ab), "unite(b, a)": show(ba)})
        ms = mem(ab)
        counts["never-nests"] += 1
        if any(m._kind == "MultiValuedValue" or (m._kind == "AnnotatedValue" and m._attrs["value"]._kind == "MultiValuedValue") for m in ms):
            classes["never-nests"].append({"a": a, "b": b, "unite(a, b)": show(ab)})
        counts["members-are-the-operands-members"] += 1
        if not same(reachable(ms), reachable(mem(A) + mem(B))):
            classes["members-are-the-operands-members"].append({"a": a, "b": b, "unite(a, b)": show(ab)})
        dup = [(x, y) for i, x in enumerate(ms) for y in ms[i + 1 :] if x == y]
        unh = [d for d in dup if d[0]._unhashable()]
        counts["equal-alternatives-merged"] += 1
        counts["equal-alternatives-merged::unhashable-literals"] += 1
        if [d for d in dup if not d[0]._unhashable()]:
            classes["equal-alternatives-merged"].append({"a": a, "b": b, "unite(a, b)": show(ab)})
        if unh:
            classes["equal-alternatives-merged::unhashable-literals"].append({"a": a, "b": b, "unite(a, b)": show(ab)})
    for a, b, c in itertools.product(names, repeat=3):
        A, B, C = atoms[a], atoms[b], atoms[c]
        ab, bc = unite(A, B), unite(B, C)
        if ab is None or bc is None:
            continue
        l, r = unite(ab, C), unite(A, bc)
        if l is None or r is None:
            continue
        counts["associative"] += 1
        if not same(mem(l), mem(r)):
            classes["associative"].append({"a": a, "b": b, "c": c, "unite(unite(a, b), c)": show(l), "unite(a, unite(b, c))": show(r)})
    chk.model_evaluations += total
    chk.analysed["union_model"] = {"unite_calls": total, "values": names}
    site = prog.site("value", prog.func("value", "unite_values"))
    for k, bad in classes.items():
        chk.ob("R14.4", f"value::union-model::{k}", not bad, site, f"{counts[k]} cases, {len(bad)} failing" + (f"; first: {bad[0]}" if bad else ""), witness=bad[:4])


# ------------------------------------------------------------------- R14.5
def r14_5(prog: Program, chk: Check) -> None:
    import itertools

    from ..minterp import AssertionFailed, ModelError, PyRaise, Unsupported
    from . import assign_model as amod

    chk.rule(
        "R14.5",
        "equality of unions as a finite model: MultiValuedValue.__eq__ (and _get_known_subvals, which switches on for unions of ten or more members) is interpreted from its AST on "
        "unions of 2, 3, 11 and 12 members (literals, classes, two or three non-literal members) and on their reorderings: a union equals every reordering of itself, in both "
        "directions, and does not equal a union that differs in one member, lacks one or has one more - the order-insensitivity that makes unite_values commutative also for large unions",
        floor=3,
    )
    am = amod.AssignModel(prog)
    found = prog.find_method("MultiValuedValue", "__eq__")
    if found is None:
        raise AnchorError("MultiValuedValue.__eq__ not found")
    eq_fn = found[1]
    it = am._interp(amod.Obj("ctx"))

    def eq(a, b):
        try:
            r = it.call_def(eq_fn, [a, b], eq_fn)
        except Unsupported as u:
            raise AnchorError(f"MultiValuedValue.__eq__ cannot be modelled: {u}")
        except (AssertionFailed, PyRaise, ModelError) as e:
            return ("crash", str(e))
        return bool(r)

    lits = [am.known(i) for i in range(9)] + [am.known("a")]
    non_lits = [am.typed(str), am.typed(bytes), am.typed(float)]
    bases = [
        [am.known(1), am.typed(str)],
        [am.typed(int), am.typed(str), am.known(None)],
        lits + non_lits[:2],
        lits + non_lits,
        [am.known(i) for i in range(11)],
    ]
    bad_same, bad_diff, crashes = [], [], []
    n = 0
    for members in bases:
        u = am.with_known_subvals(am.union(members))
        orders = [list(reversed(members)), members[1:] + members[:1], members[:-2] + [members[-1], members[-2]]]
        for order in orders:
            p = am.with_known_subvals(am.union(order))
            for a, b in ((u, p), (p, u)):
                n += 1
                r = eq(a, b)
                d = {"left": amod.show(a)[:120], "right": amod.show(b)[:120]}
                if isinstance(r, tuple):
                    crashes.append({**d, "error": r[1]})
                elif not r:
                    bad_same.append(d)
        for other_members in (members[:-1] + [am.typed(complex)], members[:-1] + [am.known("zz")], members[:-1], members + [am.typed(complex)]):
            if len(other_members) < 2:
                continue
            other = am.with_known_subvals(am.union(other_members))
            for a, b in ((u, other), (other, u)):
                n += 1
                r = eq(a, b)
                d = {"left": amod.show(a)[:120], "right": amod.show(b)[:120]}
                if isinstance(r, tuple):
                    crashes.append({**d, "error": r[1]})
                elif r:
                    bad_diff.append(d)
    chk.model_evaluations += n
    site = prog.site("value", eq_fn)
    chk.ob("R14.5", "value::union-equality-model::a union equals its reorderings", not bad_same, site, f"{n} comparisons, {len(bad_same)} reorderings unequal" + (f"; first: {bad_same[0]}" if bad_same else ""), witness=bad_same[:4])
    chk.ob("R14.5", "value::union-equality-model::unions with different members are unequal", not bad_diff, site, f"{len(bad_diff)} different unions equal" + (f"; first: {bad_diff[0]}" if bad_diff else ""), witness=bad_diff[:4])
    chk.ob("R14.5", "value::union-equality-model::no-crash", not crashes, site, f"{len(crashes)} crashes" + (f"; first: {crashes[0]}" if crashes else ""), witness=crashes[:3])


# ------------------------------------------------------------------- R14.6
def r14_6(prog: Program, chk: Check) -> None:
    from . import container_model as cmod

    chk.rule(
        "R14.6",
        "a union accepts each of its operands and itself, whatever its size, as a finite model: unions of 2, 9, 10 and 15 members are built from literals (ints, strings, and - among "
        "them - unhashable ones: a list, a dict), classes and container types; MultiValuedValue.can_assign with _get_known_subvals (the lookup table of unions of ten or more members) "
        "is interpreted from the AST (the container model of C03 R03.f) and must accept every operand, the union of any two operands, and the whole union",
        floor=3,
    )
    m = cmod.ContainerModel(prog)
    lits = [("lit", i) for i in range(13)]
    extras = [("lit", "a"), ("lit", ["x", "y"]), ("lit", {"k": 1}), ("cls", str), ("list", ("cls", int)), ("lit", (1, 2)), ("lit", None)]
    unions = []
    for size in (2, 9, 10, 15):
        for rot in range(len(extras)):
            ex = extras[rot:] + extras[:rot]
            k = min(3, size - 1)
            members = tuple(ex[:k]) + tuple(lits[: size - k])
            unions.append(members)
            unions.append(tuple(reversed(members)))
    rejected, crashes, unsupported = [], [], []
    n = 0
    for members in unions:
        spec = ("union", members)
        U = m.value_of(spec)
        d = {"union of": len(members), "members": cmod.spec_str(spec)[:120]}
        cases = [("operand", x) for x in members] + [("two operands", ("union", (members[0], members[-1])))] + [("itself", spec)]
        for what, other in cases:
            n += 1
            try:
                r = m.can_assign(U, m.value_of(other))
            except AnchorError as e:
                unsupported.append({**d, "why": str(e)[:300]})
                break
            if isinstance(r, tuple):
                crashes.append({**d, what: cmod.spec_str(other)[:80], "error": r[1]})
            elif not r:
                rejected.append({**d, what + " rejected": cmod.spec_str(other)[:80]})
    chk.model_evaluations += n
    site = prog.site("value", prog.find_method("MultiValuedValue", "_get_known_subvals")[1])  # type: ignore[index]
    rejected.sort(key=lambda x: (x["union of"], len(repr(x))))
    chk.ob("R14.6", "value::union-model::a union accepts each operand, two operands and itself", not rejected, site, f"{len(unions)} unions, {n} questions, {len(rejected)} rejections" + (f"; smallest: {rejected[0]}" if rejected else ""), witness=rejected[:5])
    chk.ob("R14.6", "value::union-model::no-crash", not crashes, site, f"{len(crashes)} crashes" + (f"; first: {crashes[0]}" if crashes else ""), witness=crashes[:3])
    chk.ob("R14.6", "value::union-model::large unions take the lookup table", any(len(u) >= 10 for u in unions), site, "unions of ten or more members are in the domain")
    if unsupported:
        raise AnchorError(f"{len(unsupported)} unions cannot be modelled; first: {unsupported[0]}")


def run(prog: Program, chk: Check) -> None:
    guard(chk, r14_1, prog, chk)
    guard(chk, r14_1b, prog, chk)
    guard(chk, r14_2, prog, chk)
    guard(chk, r14_2b, prog, chk)
    guard(chk, r14_3, prog, chk)
    guard(chk, r14_4, prog, chk)
    guard(chk, r14_5, prog, chk)
    guard(chk, r14_6, prog, chk)
